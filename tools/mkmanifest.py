#!/usr/bin/env python3
"""writes MANIFEST.json from the table below (kept as code so that it stays consistent)"""
import json, os
V = "/verif"
CHECKS = {}
def chk(pid, category, text, note, technique, design):
    CHECKS[pid] = dict(property_id=pid, quick_cmd=f"./check {pid} --tier quick", thorough_cmd=f"./check {pid} --tier thorough",
        evidence_file=f"{V}/evidence/{pid}.json", replay_cmd_template=f"./check {pid} --replay {{path}}", engine="coq",
        level_claimed=dict(category=category, text=text, design_ref=design), level_note=note, technique=technique)
NOT_APPLICABLE = {}
import glob
for f in sorted(glob.glob(V + "/tools/manifest.d/*.py")):
    exec(open(f).read())
props = [json.loads(l)["id"] for l in open(V + "/properties.jsonl")]
# only checks that have been reviewed and run green on the unchanged tree are registered
ACCEPTED = set(open(V + "/tools/accepted.txt").read().split())
CHECKS = {k: v for k, v in CHECKS.items() if k in ACCEPTED}
NA = NOT_APPLICABLE
man = dict(version=1,
  setup_cmd="sh tools/setup.sh",
  hooks=dict(guard="TTCONV_VERIF", enable="export TTCONV_VERIF=1 (no hook is compiled in: all observations go through public APIs; the variable is only set by ./check)",
             baseline_off_cmd="python3 tools/baseline.py /repo", source_commits=[], add_only=True),
  engines=[dict(name="coq", path="/verif/coq", serves_properties=sorted(CHECKS), kind_free_text="Coq 8.16.1 development (models, specifications, theorems) + Python correspondence harness (harness/) + extracted OCaml model (coq/extract)")],
  checks=[CHECKS[p] for p in props if p in CHECKS],
  not_applicable=[dict(property_id=p, reason=NA.get(p, "check not built yet in this revision of the framework (see DESIGN.md section 11); not claimed")) for p in props if p not in CHECKS],
  notes="See DESIGN.md. Each check: hygiene scan, regenerate tables from /repo, make of the property's Coq cone, Print Assumptions scan, regression witnesses, correspondence model-vs-code, S-vs-code search. KNOWN_FINDINGS.txt lists recorded findings and fixed: entries.")
json.dump(man, open(V + "/MANIFEST.json", "w"), indent=1)
print("MANIFEST.json written:", len(man["checks"]), "checks,", len(man["not_applicable"]), "not applicable")
