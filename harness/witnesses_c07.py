"""Witnesses of the findings recorded for C07 (ids as in findings_proposed/C07.txt / KNOWN_FINDINGS.txt).  Each returns None when
the writers behave as the property says and a string otherwise (expected while the finding is open)."""
import re
from fractions import Fraction as F
from witnesses import witness

# (the same small builders as in witnesses_c06.py; repeated here so that the two modules can be imported in any order)
def _base(nreg=1):
    import ttconv.model as m
    d = m.ContentDocument(); regs = []
    for i in range(nreg):
        r = m.Region(f"r{i}", d); d.put_region(r); regs.append(r)
    b = m.Body(d); d.set_body(b)
    return d, b, regs


def _p(d, *items):
    import ttconv.model as m
    p = m.P(d)
    for it in items:
        if it == "br": p.push_child(m.Br(d))
        elif isinstance(it, str):
            sp = m.Span(d); sp.push_child(m.Text(d, it)); p.push_child(sp)
        else: p.push_child(it)
    return p


def _one_p(*items, begin=F(1), end=F(2), preserve=False):
    import ttconv.model as m
    d, b, (r0,) = _base(); dv = m.Div(d); b.push_child(dv); dv.set_region(r0)
    p = _p(d, *items); dv.push_child(p); p.set_begin(begin); p.set_end(end)
    if preserve:
        p.set_space(m.WhiteSpaceHandling.PRESERVE)
        for c in p: c.set_space(m.WhiteSpaceHandling.PRESERVE)
    return d, p


def _writers(d, **vtt):
    import ttconv.srt.writer as sw, ttconv.vtt.writer as vw
    from ttconv.vtt.config import VTTWriterConfiguration as VC
    return sw.from_model(d), vw.from_model(d, VC(**vtt))


@witness("C07", "collapsed-interval-valueerror")
def _():
    d, p = _one_p("x", begin=F(1), end=F(10003, 10000))
    try:
        _writers(d)
    except ValueError as e:
        return f"<p begin=1s end=1.0003s>: from_model raises ValueError: {e}"


@witness("C07", "unbounded-interval-several-cues-valueerror")
def _():
    import ttconv.model as m, ttconv.vtt.writer as vw
    from ttconv.vtt.config import VTTWriterConfiguration as VC
    d, b, (r0, r1) = _base(2)
    for r in (r0, r1):
        dv = m.Div(d); b.push_child(dv); dv.set_region(r); dv.push_child(_p(d, "t" + r.get_id()))
    b.set_begin(F(1))
    try:
        out = vw.from_model(d, VC(line_position=True))
    except ValueError as e:
        return f"two regions visible in the unbounded last interval, line_position=True: ValueError: {e}"
    if "tr0" not in out or "tr1" not in out: return f"text missing: {out!r}"


@witness("C07", "arrow-in-payload")
def _():
    d, p = _one_p("a --> b")
    for name, out in zip(("SRT", "WebVTT"), _writers(d)):
        payload = out.rstrip("\n").split("\n")[-1]
        if "-->" in payload: return f"{name} payload line contains '-->': {payload!r}"


@witness("C07", "blank-looking-line-in-payload")
def _():
    d, p = _one_p("a", "br", "\r\nb", preserve=True)
    s, v = _writers(d)
    if re.search(r"\n\r?\n[^\n]", v.split("\n\n", 1)[1].rstrip("\n")):
        return f"WebVTT cue payload holds an empty line (LF CR LF): {v!r}"
    d, p = _one_p("a", "br", "  ", "br", "b", preserve=True)
    s, v = _writers(d)
    if any(l.strip() == "" for l in s.rstrip("\n").split("\n")[2:]):
        return f"SRT payload holds a line of white space: {s!r}"


@witness("C07", "line-percentage-out-of-range")
def _():
    import ttconv.model as m, ttconv.style_properties as s, ttconv.vtt.writer as vw
    from ttconv.vtt.config import VTTWriterConfiguration as VC
    SP = s.StyleProperties; U = s.LengthType.Units
    d, b, (r0,) = _base(); dv = m.Div(d); b.push_child(dv); dv.set_region(r0)
    r0.set_style(SP.Origin, s.CoordinateType(x=s.LengthType(10, U.pct), y=s.LengthType(90, U.pct)))
    r0.set_style(SP.Extent, s.ExtentType(height=s.LengthType(20, U.pct), width=s.LengthType(80, U.pct)))
    r0.set_style(SP.DisplayAlign, s.DisplayAlignType.after)
    dv.push_child(_p(d, "low")); b.set_begin(F(1)); b.set_end(F(2))
    out = vw.from_model(d, VC(line_position=True))
    mt = re.search(r"line:(-?\d+)%", out)
    if mt and not 0 <= int(mt.group(1)) <= 100: return f"cue setting line:{mt.group(1)}% is not a WebVTT percentage: {out!r}"


@witness("C07", "nested-span-resets-style")
def _():
    import ttconv.model as m, ttconv.style_properties as s
    SP = s.StyleProperties
    d, b, (r0,) = _base(); dv = m.Div(d); b.push_child(dv); dv.set_region(r0)
    outer = m.Span(d); outer.set_style(SP.FontWeight, s.FontWeightType.bold); outer.push_child(m.Text(d, "B"))
    inner = m.Span(d); inner.set_style(SP.FontWeight, s.FontWeightType.normal); inner.push_child(m.Text(d, "n")); outer.push_child(inner)
    p = m.P(d); p.push_child(outer); dv.push_child(p); b.set_begin(F(1)); b.set_end(F(2))
    for name, out in zip(("SRT", "WebVTT"), _writers(d)):
        if "<b>Bn</b>" in out: return f"{name}: the character n (computed fontWeight normal) is inside <b>...</b>: {out!r}"


@witness("C07", "align-lost-when-paragraphs-merged")
def _():
    import ttconv.model as m, ttconv.style_properties as s, ttconv.vtt.writer as vw
    from ttconv.vtt.config import VTTWriterConfiguration as VC
    SP = s.StyleProperties
    d, b, (r0,) = _base(); dv = m.Div(d); b.push_child(dv); dv.set_region(r0)
    for t in ("one", "two"):
        p = _p(d, t); p.set_style(SP.TextAlign, s.TextAlignType.center); dv.push_child(p)
    b.set_begin(F(1)); b.set_end(F(2))
    out = vw.from_model(d, VC(text_align=True))
    if "one" in out and "align:center" not in out: return f"two centred paragraphs, text_align=True: no align setting: {out!r}"
