"""C09 — the EBU STL reader reproduces every subtitle's time, text and attributes.

Theorems: coq/Properties/C09.v (ISO 6937 / ISO 8859 tables and classifiers decided in the kernel over the whole
byte domain; the text-field machine refines the specification for every byte list; times from the C12 lemmas;
region geometry over Q; grouping and per-block steps of the reader; the whole-file pipeline against S's `presentation`
for every file in S's domain, Proofs/C09/File.v).  Ties: tables regenerated from the
source (harness/gen_c09.py), exhaustive ISO 6937 correspondence (256 single bytes, 15 x 256 diacritic pairs),
random text fields through ttconv.stl.tf.to_model, byte-level generated files x reader configurations through
ttconv.stl.reader.to_model (document, active area and the values passed to the progress callback), configuration dictionaries
through STLReaderConfiguration.parse; all compared inside Coq with M (Model/StlDatafile.v reader_model, progress_model,
parse_config = decode_bool, decode_start_tc, decode_max_row_count in field order) and judged by S (Spec/Ebu3264Spec.v presentation) on the implementation's own output."""
import io, os, re, struct, sys, json, glob, logging
from fractions import Fraction
import common as C
import gen_tables

FINDINGS = ["df-23976"]      # bit i of Model/StlTriggers.v trigger_mask
# repaired (fixed: entries; regression witnesses in harness/witnesses_c09.py): tcp-attribute-error 9e84fe8, mnr-sets-start-offset
# 41b1329, sn-identity 434048d; and in the second phase tnb-zero-division, cumulative-before-first, tf-strip-not-cut,
# comment-flag-ignored, iso6937-a4, blank-row-dropped, vp-zero-above-safe-area; and zero-row-count (repaired for C18's
# stl-zero-row-count: a maximum row count below 1 is replaced by the default, no ZeroDivisionError is left)
DFCS = [b"STL23.01", b"STL24.01", b"STL25.01", b"STL30.01", b"STL50.01"]
NOMINAL = {b"STL23.01": 24, b"STL24.01": 24, b"STL25.01": 25, b"STL30.01": 30, b"STL50.01": 50}
ERRORS = {"error": "EStruct", "AttributeError": "EAttribute", "ValueError": "EValue", "ZeroDivisionError": "EZeroDiv"}


# ------------------------------------------------------------------------------------------- file assembly
def gsi(dfc=b"STL25.01", dsc=b"1", cct=b"00", lc=b"09", tnb=b"00001", tcp=b"00000000", mnr=b"23"):
    g = (b"850" + dfc + dsc + cct + lc + b" " * 160 + b" " * 32 + b" " * 16 + b"200101" + b"200101" + b"00" + tnb + tnb + b"001" +
         b"40" + mnr + b"1" + tcp + b"00000000" + b"1" + b"1" + b"USA" + b" " * 96 + b" " * 75 + b" " * 576)
    assert len(g) == 1024, len(g)
    return g


def tti(sn=0, ebn=0xFF, cs=0, tci=(0, 0, 1, 0), tco=(0, 0, 2, 0), vp=20, jc=2, cf=0, tf=b"AB", sgn=0):
    tfb = (tf + b"\x8f" * 112)[:112]
    return struct.pack("<BHBBBBBBBBBBBBB112s", sgn, sn & 0xFFFF, ebn, cs, *tci, *tco, vp, jc, cf, tfb)


# ------------------------------------------------------------------------------------------- canonicalisation
class Shape(Exception):
    pass


def _pack(c):
    from ttconv.style_properties import ColorType
    if not isinstance(c, ColorType) or len(c.components) != 4: raise Shape(f"colour {c!r}")
    r, g, b, a = c.components
    return (r << 24) | (g << 16) | (b << 8) | a


def canon_leaves(children):
    """children appended by tf.to_model -> list of ('run', fg, bg, it, ul, text) / ('br',)"""
    import ttconv.model as m, ttconv.style_properties as s
    out = []
    for ch in children:
        if isinstance(ch, m.Br):
            out.append(("br",))
        elif isinstance(ch, m.Span):
            kids = list(ch)
            if len(kids) != 1 or not isinstance(kids[0], m.Text): raise Shape("leaf span without a single Text")
            if ch.get_begin() is not None or ch.get_end() is not None: raise Shape("timed leaf span")
            known = {s.StyleProperties.BackgroundColor, s.StyleProperties.Color, s.StyleProperties.TextDecoration, s.StyleProperties.FontStyle}
            for p in ch.iter_styles():
                if p not in known: raise Shape(f"unexpected span style {p}")
            td = ch.get_style(s.StyleProperties.TextDecoration)
            ul = False
            if td is not None:
                if td.underline is not True or td.line_through is not None or td.overline is not None: raise Shape(f"text decoration {td}")
                ul = True
            fs = ch.get_style(s.StyleProperties.FontStyle)
            if fs not in (None, s.FontStyleType.italic): raise Shape(f"font style {fs}")
            out.append(("run", _pack(ch.get_style(s.StyleProperties.Color)), _pack(ch.get_style(s.StyleProperties.BackgroundColor)),
                        fs is not None, ul, kids[0].get_text()))
        else:
            raise Shape(f"unexpected child {type(ch).__name__}")
    return out


def canon_doc(doc):
    import ttconv.model as m, ttconv.style_properties as s
    regions = list(doc.iter_regions())
    rs = []
    for r in regions:
        o = r.get_style(s.StyleProperties.Origin); e = r.get_style(s.StyleProperties.Extent); da = r.get_style(s.StyleProperties.DisplayAlign)
        for l in (o.x, o.y, e.width, e.height):
            if l.units is not s.LengthType.Units.pct: raise Shape("region unit")
        if da not in (s.DisplayAlignType.before, s.DisplayAlignType.after): raise Shape("displayAlign")
        rs.append((Fraction(o.x.value), Fraction(o.y.value), Fraction(e.width.value), Fraction(e.height.value), da is s.DisplayAlignType.after))
    body = doc.get_body()
    if body is None: raise Shape("no body")
    fill = body.get_style(s.StyleProperties.FillLineGap)
    if fill not in (None, True): raise Shape("fillLineGap")
    lp = body.get_style(s.StyleProperties.LinePadding)
    if lp is not None and lp.units is not s.LengthType.Units.c: raise Shape("linePadding unit")
    ff = body.get_style(s.StyleProperties.FontFamily)
    fonts = []
    for f in ff:
        if isinstance(f, s.GenericFontFamilyType): fonts.append((True, f.value))
        elif isinstance(f, str): fonts.append((False, f))
        else: raise Shape("font")
    cr = doc.get_cell_resolution()
    divs = []
    for d in body:
        if not isinstance(d, m.Div) or d.get_begin() is not None or d.get_end() is not None: raise Shape("body child")
        ps = []
        for p in d:
            if not isinstance(p, m.P): raise Shape("div child")
            reg = p.get_region()
            ri = next((i for i, r in enumerate(regions) if r is reg), None)
            if ri is None: raise Shape("paragraph region not registered")
            ta = p.get_style(s.StyleProperties.TextAlign)
            align = {s.TextAlignType.start: 0, s.TextAlignType.center: 1, s.TextAlignType.end: 2}.get(ta)
            if align is None: raise Shape("textAlign")
            fsz = p.get_style(s.StyleProperties.FontSize); lh = p.get_style(s.StyleProperties.LineHeight)
            if fsz.units is not s.LengthType.Units.pct or lh.units is not s.LengthType.Units.pct: raise Shape("p units")
            if (p.get_begin() is None) != (p.get_end() is None): raise Shape("half-timed p")
            time = None if p.get_begin() is None else (Fraction(p.get_begin()), Fraction(p.get_end()))
            items = []
            for ch in p:
                if isinstance(ch, m.Span) and not (len(list(ch)) and isinstance(list(ch)[0], m.Text)):
                    if ch.get_begin() is None or ch.get_end() is None: raise Shape("untimed nested span")
                    if list(ch.iter_styles()): raise Shape("styled nested span")
                    items.append(("sub", Fraction(ch.get_begin()), Fraction(ch.get_end()), canon_leaves(list(ch))))
                else:
                    items.append(("leaf", canon_leaves([ch])[0]))
            ps.append((ri, align, int(fsz.value), int(lh.value), time, items))
            if fsz.value != int(fsz.value) or lh.value != int(lh.value): raise Shape("non-integer size")
        divs.append(ps)
    aa = doc.get_active_area()
    if aa is None: raise Shape("no active area")
    return dict(lang=doc.get_lang(), cols=cr.columns, rows=cr.rows, fill=fill is True,
                active=[Fraction(aa.left_offset), Fraction(aa.top_offset), Fraction(aa.width), Fraction(aa.height)],
                pad=None if lp is None else Fraction(lp.value), fonts=fonts, regions=rs, divs=divs)


def run_reader(data, cfg):
    """-> ('ok', canon, progress) | ('err', enum, progress) | ('other', text, progress); progress = the values passed to the callback"""
    import ttconv.stl.reader as R
    from ttconv.stl.config import STLReaderConfiguration
    prog = []
    try:
        kw = {}
        if cfg["start"] is not None: kw["program_start_tc"] = cfg["start"]
        if cfg["rows"] is not None: kw["max_row_count"] = cfg["rows"]
        if cfg["nofill"]: kw["disable_fill_line_gap"] = True
        if cfg["nopad"]: kw["disable_line_padding"] = True
        if cfg["fonts"] is not None:
            import ttconv.style_properties as s
            kw["font_stack"] = tuple(s.GenericFontFamilyType(n) if g else n for g, n in cfg["fonts"])
        conf = STLReaderConfiguration(**kw) if (kw or cfg.get("explicit")) else None
        doc = R.to_model(io.BytesIO(data), conf, prog.append)
    except Exception as e:
        name = type(e).__name__
        return ("err", ERRORS[name], prog) if name in ERRORS else ("other", f"{name}: {e}", prog)
    if not all(isinstance(x, float) for x in prog): return ("other", f"progress values {prog[:3]}", prog)
    try:
        return ("ok", canon_doc(doc), prog)
    except Shape as e:
        return ("other", f"unexpected document shape: {e}", prog)


# ------------------------------------------------------------------------------------------- Gallina literals
def zl(bs):
    return "[" + ";".join(str(int(b)) for b in bs) + "]"

def rle(data):
    out = []; i = 0; n = len(data)
    while i < n:
        b = data[i]; j = i + 1
        while j < n and data[j] == b: j += 1
        out.append(str(b))
        if j - i > 1: out.append(f"({-(j - i - 1)})")
        i = j
    return "[" + ";".join(out) + "]"

def lit_leaf(l):
    if l[0] == "br": return "LBr"
    _, fg, bg, it, ul, txt = l
    return f"(LRun (mkStyle {fg} {bg} {C.boolean(it)} {C.boolean(ul)}) {C.text(txt)})"

def lit_outcome(res):
    if res[0] == "err": return f"(Err {res[1]})"
    d = res[1]
    regs = "[" + ";".join(f"(mkRegion {C.q(x)} {C.q(y)} {C.q(w)} {C.q(h)} {C.boolean(a)})" for x, y, w, h, a in d["regions"]) + "]"
    def item(it):
        if it[0] == "leaf": return f"(PLeaf {lit_leaf(it[1])})"
        return f"(PSub {C.q(it[1])} {C.q(it[2])} [" + ";".join(lit_leaf(l) for l in it[3]) + "])"
    def para(p):
        ri, al, fs, lh, tm, items = p
        t = "None" if tm is None else f"(Some ({C.q(tm[0])}, {C.q(tm[1])}))"
        return f"(mkPara {ri} {al} {fs} {lh} {t} [" + ";".join(item(i) for i in items) + "])"
    divs = "[" + ";".join("[" + ";".join(para(p) for p in ps) + "]" for ps in d["divs"]) + "]"
    fonts = "[" + ";".join(f"({C.boolean(g)}, {zl(n.encode())})" for g, n in d["fonts"]) + "]"
    pad = "None" if d["pad"] is None else f"(Some ({d['pad'].numerator}, {d['pad'].denominator}))"
    act = "(" + ", ".join(C.q(x) for x in d["active"]) + ")"
    return (f"(Ok (mkDoc {zl(d['lang'].encode())} {d['cols']} {d['rows']} {act} {C.boolean(d['fill'])} {pad} {fonts} {regs} {divs}))")

def lit_cfg(cfg):
    st = "StNone" if cfg["start"] is None else ("StTCP" if cfg["start"] == "TCP" else f"(StStr {C.text(cfg['start'])})")
    rw = "MrNone" if cfg["rows"] is None else ("MrMNR" if cfg["rows"] == "MNR" else f"(MrInt {C.z(cfg['rows'])})")
    fs = "None" if cfg["fonts"] is None else "(Some [" + ";".join(f"({C.boolean(g)}, {zl(n.encode())})" for g, n in cfg["fonts"]) + "])"
    return f"(mkConfig {st} {rw} {C.boolean(cfg['nofill'])} {C.boolean(cfg['nopad'])} {fs})"


# ------------------------------------------------------------------------------------------- generators
ASCII_WORD = b"abcdefghijklmnopqrstuvwxyzABCDEFGHIJKLMNOPQRSTUVWXYZ0123456789.,!?'-:;()$#@*+/"
CONTROL = [0, 1, 2, 3, 4, 5, 6, 7, 0x0A, 0x0B, 0x0C, 0x0D, 0x1C, 0x1D, 0x80, 0x81, 0x82, 0x83, 0x84, 0x85]
RESERVED = [0x08, 0x09, 0x0E, 0x0F, 0x10, 0x17, 0x18, 0x1B, 0x1E, 0x1F, 0x86, 0x89, 0x8B, 0x8E, 0x90, 0x9F]

def gen_text(rng, cct, maxlen, wild=0.0):
    """a text-field body (no padding): words, spaces, control codes, newlines, reserved codes"""
    out = bytearray()
    dh = rng.random() < 0.25
    if dh and (wild == 0.0 or rng.random() < 0.8): out.append(0x0D)
    target = rng.randrange(0, maxlen + 1)
    def hi():
        b = rng.randrange(0xA0, 0x100)
        return 0xA5 if b == 0xA4 and rng.random() > 0.05 + wild else b
    while len(out) < target:
        k = rng.random()
        if k < 0.45:
            for _ in range(rng.randrange(1, 8)):
                r = rng.random()
                if r < 0.7: out.append(rng.choice(ASCII_WORD))
                elif r < 0.85:
                    if cct == b"00" or cct not in (b"01", b"02", b"03", b"04"):
                        out.append(rng.randrange(0xC1, 0xD0)); out.append(rng.choice(b"aeioucnszyAEIOUCNSZgG xq") if rng.random() < 0.9 else rng.randrange(0x20, 0x100))
                    else: out.append(hi())
                else: out.append(hi() if rng.random() < 0.9 else 0x7F)
        elif k < 0.65: out += b" " * rng.choice([1, 1, 1, 2, 3])
        elif k < 0.85:
            out.append(rng.choice(CONTROL))
            if rng.random() < 0.2: out.append(rng.choice(CONTROL))
        elif k < 0.95:
            out.append(0x8A)
            if dh or rng.random() < 0.12: out.append(0x8A)           # double height row separator / an empty row in single height
            if rng.random() < 0.4: out.append(rng.choice([0x0D, 7, 3, 6, 0x0B])) if dh else out.append(rng.choice([7, 3, 6, 2, 0x0B]))
        elif k < 0.98: out.append(rng.choice(RESERVED))
        elif rng.random() < wild: out.append(0x8F)
        else: out.append(0x20)
    return bytes(out[:maxlen])


def label_from(rng, F, drop, base_s, span_s):
    s = base_s + rng.randrange(0, span_s + 1)
    f = rng.randrange(0, F)
    h, m, sec = s // 3600, (s // 60) % 60, s % 60
    if drop and sec == 0 and m % 10 != 0 and f < 2 and rng.random() < 0.9: f = 2
    return (min(h, 255), m, sec, f)


def gen_file(rng, profile, low_rows=False):
    """-> (bytes, cfg dict, description); low_rows: open subtitles whose declared row count is below 1 (GSI MNR 00 with
    max_row_count=MNR, max_row_count 0 or negative) - the reader uses the default grid since the repair of the row count"""
    wild = {"wf": 0.0, "mild": 0.3, "wild": 1.0}[profile]
    dfc = rng.choice(DFCS) if rng.random() < 0.93 or profile == "wf" else rng.choice([b"STL60.01", b"STL25.02", b"        ", b"stl25.01"])
    F = NOMINAL.get(dfc, 25); drop = dfc == b"STL30.01"
    dsc = rng.choice([b"1", b"2", b"0", b"0", b" "]) if rng.random() < 0.97 else bytes([rng.randrange(256)])
    cct = rng.choice([b"00", b"00", b"00", b"01", b"02", b"03", b"04"]) if rng.random() < 0.95 else rng.choice([b"05", b"  ", b"0A", b"10"])
    lc = rng.choice([b"09", b"0F", b"08", b"0A", b"7F", b"2B", b"56", b"00"]) if rng.random() < 0.9 else rng.choice([b"2C", b"55", b"XX", b"9 ", b"0a"])
    teletext = dsc in (b"1", b"2")
    # programme start
    base_h = rng.choice([0, 0, 1, 10, 10, 23])
    base_s = base_h * 3600
    r = rng.random()
    if profile == "wf" and dfc == b"STL23.01" and rng.random() < 0.5: base_s = 0; base_h = 0
    if r < 0.45: start = None
    elif r < 0.65: start = "TCP"
    elif r < 0.9:
        off = rng.randrange(0, 20)
        start = "%02d:%02d:%02d:%02d" % (base_h, (off // 60) % 60, off % 60, rng.randrange(0, F))
    elif r < 0.96 and profile != "wf":
        start = "%02d:00:%02d%s%02d" % (base_h, rng.randrange(0, 10), rng.choice(";.,"), rng.randrange(0, F))
    else:
        start = rng.choice(["10:00:00", "xx:00:00:00", "", "1:2:3:4", "10:00:00:00 ", "10:00:00:00x"]) if profile != "wf" else None
    tcp_s = base_s + rng.randrange(0, 5)
    tcp = b"%02d%02d%02d%02d" % (tcp_s // 3600, (tcp_s // 60) % 60, tcp_s % 60, rng.randrange(0, F))
    if profile != "wf" and rng.random() < 0.25:
        tcp = rng.choice([b"        ", b"0000XX00", b"10 0 0 0", b"+1+2+3+4", b"-1000000", b"1_000000", b"00000\x0000", b"\xb200000\t1", b"00:00:00"])
    # rows
    r = rng.random()
    if r < 0.5: rows = None
    elif r < 0.75: rows = "MNR"
    else: rows = rng.choice([23, 23, 11, 12, 24, 99, 2, 1]) if profile == "wf" or rng.random() < 0.8 else rng.choice([0, -3, 255, 1000])
    mnr = rng.choice([b"23", b"11", b"24", b"99", b"02", b"14"])
    if profile != "wf" and rng.random() < 0.3: mnr = rng.choice([b"  ", b"XX", b"00", b"00", b" 9", b"9 ", b"-3", b"+7", b"1_", b"01", b"-0", b" 0"])
    if low_rows:
        if teletext: dsc = rng.choice([b"0", b"0", b" "]); teletext = False
        rows = rng.choice([0, 0, -3, -1, -1000, "MNR", "MNR", "MNR"])
        if rows == "MNR": mnr = b"00" if profile == "wf" or rng.random() < 0.6 else rng.choice([b"-3", b"-0", b" 0", b"0 ", b"-9", b"+0", b"0_"])
    max_rows = 23 if (rows is None or teletext) else (rows if rows != "MNR" else None)
    if max_rows is None:
        try: max_rows = int(mnr)
        except ValueError: max_rows = 23
    cfg = dict(start=start, rows=rows, nofill=rng.random() < 0.25, nopad=rng.random() < 0.25,
               fonts=None if rng.random() < 0.7 else rng.choice([[(False, "Arial")], [(False, "Times New Roman"), (True, "serif")],
                                                                  [(True, "monospace")], [(False, "DejaVu Sans"), (False, "x y"), (True, "proportionalSansSerif")]]),
               explicit=rng.random() < 0.5)
    # subtitles
    nsub = rng.choice([0, 1, 1, 2, 3, 4, 5, 6, 8])
    blocks = []
    sn = rng.choice([0, 0, 1, 250, 254, 255, 256, 300, 65000])
    t = base_s + rng.randrange(0, 30)          # running time in seconds
    if rng.random() < 0.2: t = max(0, base_s - rng.randrange(0, 30))      # some subtitles before the programme start
    cum_left = 0
    for _ in range(nsub):
        sgn = 0 if rng.random() < 0.8 else rng.randrange(0, 4)
        if cum_left > 0:
            cs = 2 if cum_left > 1 else 3; cum_left -= 1
        elif rng.random() < 0.15:
            cum_left = rng.choice([1, 1, 2, 3]); cs = 1
        else:
            cs = 0
        if profile != "wf" and rng.random() < wild * 0.25: cs = rng.choice([0, 1, 2, 3, 4, 255])
        if profile != "wf" and not blocks and rng.random() < 0.15: cs = rng.choice([2, 3, 3, 7])       # the file starts inside a cumulative set
        tci = label_from(rng, F, drop, t, 3)
        dur = rng.randrange(0, 8)
        tco = label_from(rng, F, drop, t + dur + (0 if dur else 0), 2)
        if tco < tci: tco = tci
        if profile != "wf" and rng.random() < wild * 0.1: tci, tco = tco, tci
        if profile == "wild" and rng.random() < 0.1: tci = tuple(rng.randrange(256) for _ in range(4))
        t += rng.randrange(0, 6) if cum_left or cs in (1, 2) else dur + rng.randrange(0, 5)
        jc = rng.choice([0, 1, 2, 2, 3]) if rng.random() < 0.95 else rng.randrange(256)
        # text over one or more blocks
        nb = 1 if rng.random() < 0.75 else rng.choice([2, 2, 3])
        text = gen_text(rng, cct, 112 * nb - rng.randrange(0, 60), wild)
        chunks = []
        if nb == 1: chunks = [text[:112]]
        else:
            pos = 0
            for k in range(nb):
                ln = 112 if k < nb - 1 and rng.random() < 0.6 else rng.randrange(0, 113)
                chunks.append(text[pos:pos + ln]); pos += ln
        # vertical position: mostly so that the rows fit
        dh = any(0x0D in c for c in chunks)
        joined = b"".join(chunks)
        nl = joined.count(b"\x8a")
        rows_needed = ((nl // 2 if dh else nl) + 1) * (2 if dh else 1)
        mr = max_rows if isinstance(max_rows, int) and max_rows > 0 else 23
        if rng.random() < 0.85: vp = max(1, min(mr, mr - rows_needed + 1 - rng.choice([0, 0, 0, 1, 2]))) if rng.random() < 0.7 else rng.randrange(1, max(2, mr // 2))
        else: vp = rng.choice([0, 0, mr, mr + 1, 255, rng.randrange(256)])
        vp = max(0, min(255, vp))
        cf = 1 if rng.random() < (0.05 if profile == "wf" else 0.08) else 0          # a comment subtitle (all its blocks)
        for k, ch in enumerate(chunks):
            last = k == len(chunks) - 1
            ebn = 0xFF if last else k
            if profile != "wf" and rng.random() < wild * 0.1: ebn = rng.choice([0xFF, 0, 1, 0xEF, 0xF0, 0xFE])
            tfb = ch
            if profile != "wf" and rng.random() < wild * 0.15: tfb = b"\x8f" * rng.randrange(1, 3) + ch
            elif ch and rng.random() < (0.04 if profile == "wf" else 0.1):      # unused space inside the field: the text ends there
                k = rng.randrange(0, len(ch)); tfb = ch[:k] + b"\x8f" * rng.randrange(1, 3) + ch[k:]
            hdr = dict(sn=sn, ebn=ebn, cs=cs, tci=tci, tco=tco, vp=vp, jc=jc, cf=cf, sgn=sgn)
            if profile == "wild" and rng.random() < 0.1: hdr["sn"] = sn + 1
            blocks.append(tti(tf=tfb, **hdr))
            if rng.random() < 0.08:      # user data / reserved block in between
                blocks.append(tti(sn=sn, ebn=rng.choice([0xFE, 0xFE, 0xF0, 0xFD]), cs=cs, tci=tci, tco=tco, vp=vp, jc=jc, sgn=sgn,
                                  tf=bytes(rng.randrange(256) for _ in range(rng.randrange(0, 113)))))
        r = rng.random()
        if profile == "wf" or r < 0.85: sn += 1
        elif r < 0.93: pass                      # repeated subtitle number
        else: sn = rng.choice([0, 255, 256, 257, 300, sn + 2, max(0, sn - 1)])
    tnb = b"%05d" % len(blocks)
    if rng.random() < (0.02 if profile == "wf" else 0.2): tnb = rng.choice([b"00000", b"     ", b"abcde", b"0_0_1", b"   12", b"-0001", b"99999", b"00001"])
    data = gsi(dfc, dsc, cct, lc, tnb, tcp, mnr) + b"".join(blocks)
    if profile == "wild":
        r = rng.random()
        if r < 0.15: data = data[:rng.randrange(0, len(data) + 1)]
        elif r < 0.25 and len(data) > 1024: data = data[:1024] + bytes(rng.randrange(256) for _ in range(128 * rng.randrange(1, 4)))
    declared = "default" if (rows is None or teletext) else ("below 1" if max_rows < 1 else "1.." if max_rows <= 99 else "100..")
    return data, cfg, dict(profile=profile, dfc=dfc.decode("latin1"), cct=cct.decode("latin1"), dsc=dsc.decode("latin1"), blocks=len(blocks),
                           declared_rows=declared)


CORPUS_CFGS = [dict(start=None, rows=None, nofill=False, nopad=False, fonts=None, explicit=False),
               dict(start="TCP", rows=None, nofill=True, nopad=False, fonts=None, explicit=True),
               dict(start="10:00:00:00", rows="MNR", nofill=False, nopad=True, fonts=[(False, "Arial"), (True, "sansSerif")], explicit=True),
               dict(start="00:00:00:00", rows=11, nofill=False, nopad=False, fonts=None, explicit=True)]


# ------------------------------------------------------------------------------------------- finding witnesses
def finding_witnesses():
    """id -> None if the implementation no longer shows the defect, else a description (run on the real code)"""
    res = {}
    base = dict(start=None, rows=None, nofill=False, nopad=False, fonts=None)
    def paras(r): return [p for d in r[1]["divs"] for p in d] if r[0] == "ok" else None
    p = paras(run_reader(gsi(dfc=b"STL23.01") + tti(tci=(0, 1, 0, 0), tco=(0, 1, 0, 1)), base))
    res["df-23976"] = f"00:01:00:00 at 24000/1001 begins at {p[0][4][0]} instead of 3003/50" if p and p[0][4][0] != Fraction(1440 * 1001, 24000) else None
    return res


# ------------------------------------------------------------------------------------------- main
def main():
    run = C.Run("C09", "proof")
    run.hygiene()
    if os.environ.get("VERIF_JOBS"): C.NCPU = max(1, min(C.NCPU, int(os.environ["VERIF_JOBS"])))      # shared machines
    sys.path.insert(0, C.SRC)
    changed, errors = gen_tables.generate({"Iso6937Tables", "StlTables", "Iso6937Spec"})
    if errors:
        run.violation("table translator failed closed: " + "; ".join(errors), dict(kind="translator", errors=errors), False)
        return run.finish()
    if changed: run.log("tables regenerated from source:", changed)
    ok, log = run.build(["Proofs/C09/Tables.vo", "Proofs/C09/TextField.vo", "Proofs/C09/Text.vo", "Proofs/C09/Times.vo", "Proofs/C09/Datafile.vo",
                         "Proofs/C09/File.vo", "Proofs/C09/Config.vo", "Model/StlCases.vo"], clean=(run.tier == "thorough"))
    proofs_ok = ok and run.theorems()
    if not ok: run.proof_log = log[-2500:]
    run.witnesses()
    logging.disable(logging.CRITICAL)
    rng = run.rng
    thorough = run.tier == "thorough"
    C.clean_cases("Cases_C09_")
    hdr = ("From Coq Require Import QArith.\nFrom TT Require Import Base.Prelude Model.TimeCode Model.Iso6937 Model.StlTf Model.StlDatafile "
           "Model.StlTriggers Model.StlCases Spec.Ebu3264Spec.\nOpen Scope Z_scope.\n")

    # ---- replay of a stored violation: only its input is evaluated ---------------------------------------------------
    replay = None
    if os.environ.get("VERIF_REPLAY"):
        try:
            replay = json.load(open(os.environ["VERIF_REPLAY"]))["replay"]
        except Exception as e:
            run.violation(f"replay file unreadable: {e}", dict(kind="replay", path=os.environ["VERIF_REPLAY"]), False); return run.finish()
        run.log("replaying", os.environ["VERIF_REPLAY"])

    # ---- 1. ISO 6937: every single byte, every diacritic pair (+ every other pair start in the thorough tier) ------
    from ttconv.stl import iso6937, tf as tfmod
    import ttconv.model as model
    iso_in = [bytes([b]) for b in range(256)] + [bytes([d, b]) for d in range(0xC1, 0xD0) for b in range(256)]
    if replay is not None: iso_in = [bytes.fromhex(replay["input"])] if replay.get("spec", "").endswith("decode_iso6937") else [b"A"]
    elif thorough: iso_in += [bytes([a, b]) for a in range(256) if not 0xC1 <= a <= 0xCF for b in range(256)]
    else: iso_in += [bytes([rng.randrange(256) for _ in range(rng.randrange(2, 9))]) for _ in range(1500)]
    iso_rows = []
    for k in iso_in:
        s, n = iso6937.decode(k, errors="note")
        iso_rows.append((k, s))
    files = []
    per = 6000
    for i in range(0, len(iso_rows), per):
        body = ";\n".join(f"({zl(k)}, {C.text(s)})" for k, s in iso_rows[i:i + per])
        p = f"{C.GEN}/Cases_C09_iso_{i // per}.v"
        open(p, "w").write(hdr + f"Definition cs : list (list Z * text) := [\n{body}].\nEval vm_compute in map iso_case_verdict cs.\n")
        files.append(("iso", i, p))

    # ---- 2. text fields through tf.to_model -------------------------------------------------------------------------
    n_tf = 30000 if thorough else 2500
    tf_rows = []
    tf_replay = None
    if replay is not None:
        n_tf = 1
        if "tf" in replay: tf_replay = (bool(replay["teletext"]), replay["cct"].encode("latin1"), bytes.fromhex(replay["tf"]))
    for i in range(n_tf):
        cct = rng.choice([b"00", b"00", b"00", b"01", b"02", b"03", b"04", b"09"])
        tele = rng.random() < 0.5
        body = gen_text(rng, cct, rng.choice([8, 20, 40, 112, 224]), wild=0.3)
        if rng.random() < 0.1: body = bytes(rng.randrange(256) for _ in range(rng.randrange(0, 40)))
        if rng.random() < 0.5: body += b"\x8f" * rng.randrange(0, 5)
        if tf_replay: tele, cct, body = tf_replay
        doc = model.ContentDocument(); p = model.P(doc)
        try:
            tfmod.to_model(p, tele, cct, body)
            out = canon_leaves(list(p))
        except Exception as e:
            run.violation(f"tf.to_model raised {type(e).__name__} on {body.hex()}", dict(kind="S-on-code", clause="text field decodes", tf=body.hex(), cct=cct.decode(), teletext=tele)); return run.finish()
        tf_rows.append((tele, cct, body, out))
    per = 700
    for i in range(0, len(tf_rows), per):
        body = ";\n".join(f"({C.boolean(t)}, {zl(c)}, {zl(b)}, [" + ";".join(lit_leaf(l) for l in o) + "])" for t, c, b, o in tf_rows[i:i + per])
        p = f"{C.GEN}/Cases_C09_tf_{i // per}.v"
        open(p, "w").write(hdr + f"Definition cs : list tf_case := [\n{body}].\nEval vm_compute in map tf_case_verdict cs.\n")
        files.append(("tf", i, p))

    # ---- 3. files x configurations -----------------------------------------------------------------------------------
    cases = []     # (data, cfg, desc, result)
    corpus = sorted(glob.glob(C.REPO + "/src/test/resources/stl/**/*.stl", recursive=True))
    for f in corpus:
        data = open(f, "rb").read()
        for cfg in (CORPUS_CFGS if thorough else [CORPUS_CFGS[0], rng.choice(CORPUS_CFGS[1:])]):
            cases.append((data, dict(cfg), dict(profile="corpus", file=os.path.basename(f))))
    n_gen = 5000 if thorough else 300
    if replay is not None:
        n_gen = 0; cases = cases[:1]
        if isinstance(replay.get("first"), dict) and "file_hex" in replay["first"]:
            cfg = replay["first"]["config"]
            if cfg.get("fonts") is not None: cfg["fonts"] = [tuple(x) for x in cfg["fonts"]]
            cases = [(bytes.fromhex(replay["first"]["file_hex"]), cfg, dict(profile="replay"))]
    for i in range(n_gen):
        prof = "wf" if i % 10 < 6 else ("mild" if i % 10 < 9 else "wild")
        cases.append(gen_file(rng, prof))
    # a declared row count below 1 (the input of the repaired ZeroDivisionError) on every run, next to the ones met above
    for i in range(0 if replay is not None else (400 if thorough else 24)):
        prof = "wf" if i % 10 < 6 else ("mild" if i % 10 < 9 else "wild")
        cases.append(gen_file(rng, prof, low_rows=True))
    results = []; others = []
    for idx, (data, cfg, desc) in enumerate(cases):
        r = run_reader(data, cfg); results.append(r)
        if r[0] == "other": others.append((idx, r[1]))
    shard, size, shards = [], 0, []
    for idx, ((data, cfg, desc), r) in enumerate(zip(cases, results)):
        if r[0] == "other": continue
        lit = f"({rle(data)}, {lit_cfg(cfg)}, {lit_outcome(r)}, [" + ";".join(C.q(Fraction(x)) for x in r[2]) + "])"
        shard.append((idx, lit)); size += len(lit)
        if size > 180000: shards.append(shard); shard, size = [], 0
    if shard: shards.append(shard)
    for k, sh in enumerate(shards):
        p = f"{C.GEN}/Cases_C09_file_{k}.v"
        open(p, "w").write(hdr + "Definition cs : list case := [\n" + ";\n".join(l for _, l in sh) + "].\nEval vm_compute in map case_verdict cs.\n")
        files.append(("file", [i for i, _ in sh], p))
    # ---- 4. STLReaderConfiguration.parse on dictionaries (stl/config.py decoders, ttconv/config.py decode_bool) ----------
    from ttconv.stl.config import STLReaderConfiguration
    ABSENT = "<absent>"
    def parse_cfg(d):
        try: return ("ok", STLReaderConfiguration.parse(d))
        except ValueError: return ("err", "EValue")
        except Exception as e: return ("other", f"{type(e).__name__}: {e}")
    # values of the wrong type or shape that every field must reject: booleans, null, numbers, numbers and booleans
    # written as strings, floats, lists, objects
    def gen_any(rng):
        return rng.choice([True, False, None, 0, 1, 23, -1, "23", "1", "0", "true", "false", "True", "null", "", " ", 1.5, 23.0, 0.0,
                           [], [23], ["TCP"], {"a": 1}, {}])
    TRAIL = ["", " ", "x", ":00", "\n", "\r", "\u2028", ";", "0", " 10:00:00:00", "\x00"]
    def gen_start(rng):
        k = rng.random()
        if k < 0.06: return None
        if k < 0.22: return "".join(rng.choice(p) for p in ("tT", "cC", "pP")) + (rng.choice(TRAIL) if rng.random() < 0.3 else "")
        if k < 0.42: return gen_any(rng)
        d = lambda: rng.choice("0123456789") if rng.random() < 0.93 else rng.choice("aX -:\u0663\uff11")
        sep = lambda: rng.choice(":::::::;.,") if rng.random() < 0.85 else rng.choice(["\n", "x", " ", "", "::", "\r", "\u2028"])
        t = d() + d() + sep() + d() + d() + sep() + d() + d() + sep() + d() + d()
        if rng.random() < 0.35: t += rng.choice(TRAIL[1:])            # text after the time code (repaired: fullmatch)
        if rng.random() < 0.04: t = rng.choice([" ", "x", "0"]) + t   # text before it
        if rng.random() < 0.05: t = rng.choice(["", "TCP ", "tcP", "T\u0441P", "\u0131cp", "10:00:00", "1:2:3:4", "10:00:00:00:00", "10:00:00:0", "100:00:00:00"])
        return t
    def gen_rows(rng):
        k = rng.random()
        if k < 0.08: return None
        if k < 0.3: return "".join(rng.choice(p) for p in ("mM", "nN", "rR")) + (rng.choice(TRAIL) if rng.random() < 0.25 else "")
        if k < 0.6: return rng.choice([0, 1, 2, 11, 23, 24, 99, -3, 1000, 2 ** 40])
        if k < 0.7: return rng.choice([True, False])
        if k < 0.8: return rng.choice(["23", "23 ", "+23", "", "MN", "MNRR", "\u039cNR", "m\u0274r", "true"])
        return gen_any(rng)
    def gen_flag(rng):
        k = rng.random()
        if k < 0.45: return rng.choice([True, False])
        if k < 0.55: return None
        if k < 0.75: return rng.choice(["true", "false", "true ", "falsex", "True", "FALSE", "no", "yes", "0", "1", ""])
        if k < 0.85: return rng.choice([0, 1, 2, -1])
        return gen_any(rng)
    GENS = dict(disable_fill_line_gap=gen_flag, program_start_tc=gen_start, disable_line_padding=gen_flag, max_row_count=gen_rows)
    KEYS = list(GENS)
    def valid_value(rng, k):
        if k == "program_start_tc": return rng.choice(["TCP", "tcp", "10:00:00:00", "00:00:00:00", "09;59;59;24", None])
        if k == "max_row_count": return rng.choice(["MNR", "mnr", 23, 11, 0, None])
        return rng.choice([True, False])
    def gen_dict(rng):
        k = rng.random()
        if k < 0.02: return {}
        if k < 0.62:                                   # one key (its generator decides)
            key = rng.choice(KEYS); return {key: GENS[key](rng)}
        if k < 0.85:                                   # all keys valid but (mostly) one
            d = {key: valid_value(rng, key) for key in KEYS}
            if rng.random() < 0.7:
                key = rng.choice(KEYS); d[key] = GENS[key](rng)
            return d
        return {key: GENS[key](rng) for key in KEYS if rng.random() < 0.6}     # any subset, any values
    def lit_value(d, key):
        if key not in d: return "None"
        v = d[key]
        if v is None: return "(Some VNull)"
        if isinstance(v, str): return f"(Some (VStr {C.text(v)}))"
        if isinstance(v, bool): return f"(Some (VBool {C.boolean(v)}))"
        if isinstance(v, int): return f"(Some (VInt {C.z(v)}))"
        return "(Some VOther)"
    def value_class(d, key):
        if key not in d: return "absent"
        v = d[key]
        return ("null" if v is None else "bool" if isinstance(v, bool) else "int" if isinstance(v, int) else "float" if isinstance(v, float) else
                "str" if isinstance(v, str) else type(v).__name__)
    def lit_parsed(c):
        """the configuration parse returned -> Coq literal, or None when a field holds a value of an undocumented type"""
        st, rw, fg, lp = c.program_start_tc, c.max_row_count, c.disable_fill_line_gap, c.disable_line_padding
        if not (st is None or isinstance(st, str)) or not (rw is None or rw == "MNR" or (isinstance(rw, int) and not isinstance(rw, bool))): return None
        if not (fg is True or fg is False) or not (lp is True or lp is False) or c.font_stack is not None: return None
        return lit_cfg(dict(start=st, rows=rw, nofill=fg, nopad=lp, fonts=None))
    n_cfg = 1 if replay is not None else (12000 if thorough else 1200)
    cfg_rows, cfg_others = [], []      # (dict, literal of the outcome)
    for i in range(n_cfg):
        d = gen_dict(rng)
        if replay is not None and replay.get("clause") == "configuration decoders": d = replay["first"]
        r = parse_cfg(d)
        if r[0] == "other": cfg_others.append((d, r[1])); continue
        if r[0] == "ok":
            o = lit_parsed(r[1])
            if o is None: cfg_others.append((d, f"decoded to {r[1]!r}")); continue
            cfg_rows.append((d, f"(inl {o})")); continue
        cfg_rows.append((d, f"(inr {r[1]})"))
    # font_stack is outside M (parse_font_families is C19's): only the clause "a value that is not a string is a ValueError, null is no
    # font stack" is checked, on the code alone, with the other keys absent or valid
    font_rows = 0
    for i in range(0 if replay is not None else n_cfg // 6):
        v = rng.choice([True, False, None, 0, 1, 23, 1.5, [], ["Arial"], [1], {"a": 1}, {}])
        d = {key: valid_value(rng, key) for key in KEYS if rng.random() < 0.3}; d["font_stack"] = v
        r = parse_cfg(d); font_rows += 1
        if r[0] == "other": cfg_others.append((d, r[1]))
        elif v is None and not (r[0] == "ok" and r[1].font_stack is None): cfg_others.append((d, f"font_stack null: {r[1]!r}"))
        elif v is not None and r[0] != "err": cfg_others.append((d, f"font_stack {v!r} accepted: {r[1]!r}"))
    pcfg = f"{C.GEN}/Cases_C09_cfg_0.v"
    open(pcfg, "w").write(hdr + "Definition cs : list cfg_case := [\n" +
                          ";\n".join("(" + ", ".join(lit_value(d, k) for k in KEYS) + f", {o})" for d, o in cfg_rows) + "].\n" +
                          "Eval vm_compute in map (fun c => if cfg_case_ok c then 1 else 0) cs.\n")
    files.append(("cfg", len(cfg_rows), pcfg))
    run.log(f"{len(iso_rows)} ISO 6937 strings, {len(tf_rows)} text fields, {len(cases)} files ({len(corpus)} corpus files), "
            f"{len(cfg_rows)} configuration dictionaries in {len(files)} case files")
    res = C.coqc_many([p for _, _, p in files], 1800)
    logging.disable(logging.NOTSET)

    def verdicts(out):
        flat = " ".join(out.split())
        m = re.search(r"=\s*\[([^\]]*)\]\s*:\s*list Z", flat)
        if m is None:
            return [] if re.search(r"=\s*\[\s*\]|= nil", flat) else None
        return [int(x) for x in re.findall(r"-?\d+", m.group(1))]

    broken = []; iso_m_bad = []; iso_s_bad = []
    tf_m_bad = []; tf_s_bad = []
    file_m_bad = []; file_s_bad = []; file_known = {}; in_domain = 0; spec_ok_n = 0; cfg_m_bad = []
    for kind, base, p in files:
        rc, out = res[p]
        v = verdicts(out) if rc == 0 else None
        n_expected = len(base) if kind == "file" else (base if kind == "cfg" else None)
        if v is None or (kind in ("file", "cfg") and len(v) != n_expected):
            broken.append((p, out[-500:])); continue
        if kind == "cfg":
            cfg_m_bad = [j for j, x in enumerate(v) if x != 1]
            continue
        if kind == "iso":
            for j, x in enumerate(v):
                if not x & 1: iso_m_bad.append(base + j)
                if x >> 1 == 2: iso_s_bad.append(base + j)
        elif kind == "tf":
            for j, x in enumerate(v):
                if not x & 1: tf_m_bad.append(base + j)
                if x >> 1 == 2: tf_s_bad.append(base + j)
        else:
            for idx, x in zip(base, v):
                if not x & 1: file_m_bad.append(idx)
                sv = (x >> 1) & 3; mask = x >> 3
                if sv: in_domain += 1
                if sv == 1: spec_ok_n += 1
                if sv == 2:
                    if mask:
                        for b, fid in enumerate(FINDINGS):
                            if mask >> b & 1: file_known.setdefault(fid, []).append(idx)
                    else: file_s_bad.append(idx)
    C.clean_cases("Cases_C09_")
    run.log(f"ISO 6937: model/code mismatches {len(iso_m_bad)}, S failures {len(iso_s_bad)}; "
            f"text fields: mismatches {len(tf_m_bad)}, S failures {len(tf_s_bad)}; "
            f"files: mismatches {len(file_m_bad)}, in S's domain {in_domain}, S ok {spec_ok_n}, "
            f"S failures outside findings {len(file_s_bad)}, covered by findings {sum(len(v) for v in file_known.values())}, "
            f"unexpected exceptions/shapes {len(others)}, broken case files {len(broken)}; "
            f"configuration dictionaries: mismatches {len(cfg_m_bad)}, unexpected {len(cfg_others)}")

    # ---- recorded findings: must still fire on the code; Findings/C09.v must still compile ----------------------------
    logging.disable(logging.CRITICAL)
    wit = finding_witnesses()
    logging.disable(logging.NOTSET)
    rc, out = C.coqc(C.COQ + "/Findings/C09.v", 600)
    stale = []
    if rc != 0: stale.append("Findings/C09.v no longer compiles: " + out[-300:])
    fired = []
    for fid in FINDINGS:
        if wit.get(fid):
            fired.append(fid)
            run.known(fid, wit[fid] + (f"; {len(file_known[fid])} generated file(s)" if fid in file_known else ""))
        else:
            stale.append(f"{fid}: witness no longer fails")
            if fid in file_known:      # the trigger excuses nothing once the witness passes
                file_s_bad += file_known[fid]
    if stale: run.cov["stale_findings"] = stale
    run.cov["recorded_findings_firing"] = fired
    unlisted_ids = [f for f in FINDINGS if f not in {x["id"] for x in run.findings}]
    if unlisted_ids:
        run.violation("findings used by the check but not listed in KNOWN_FINDINGS.txt: " + ", ".join(unlisted_ids),
                      dict(kind="hygiene", ids=unlisted_ids), False)

    # ---- verdict --------------------------------------------------------------------------------------------------------
    def describe(idx):
        data, cfg, desc = cases[idx]
        r = results[idx]
        return dict(file_hex=data.hex(), config={k: v for k, v in cfg.items()}, generator=desc,
                    implementation=(r[1] if r[0] != "ok" else json.loads(json.dumps(r[1], default=str))))
    s_fail = False
    if iso_s_bad:
        k, s = iso_rows[iso_s_bad[0]]; s_fail = True
        run.violation(f"ISO 6937 decoding of {k.hex()} gives {s!r}, the standard's table differs",
                      dict(kind="S-on-code", spec="coq/Spec/Ebu3264Spec.v decode_iso6937", input=k.hex(), implementation=[ord(c) for c in s],
                           others=[iso_rows[i][0].hex() for i in iso_s_bad[1:20]]))
    if tf_s_bad:
        t, c, b, o = tf_rows[tf_s_bad[0]]; s_fail = True
        run.violation(f"text field {b.hex()} (teletext={t}, CCT={c!r}) is not decoded as Tech 3264 prescribes",
                      dict(kind="S-on-code", spec="coq/Spec/Ebu3264Spec.v tf_spec", tf=b.hex(), teletext=t, cct=c.decode("latin1"), implementation=[list(x) for x in o],
                           others=[tf_rows[i][2].hex() for i in tf_s_bad[1:10]]))
    if file_s_bad:
        s_fail = True
        run.violation(f"the document read from a generated STL file is not the presentation Tech 3264 prescribes ({len(file_s_bad)} file(s); first: {cases[file_s_bad[0]][2]})",
                      dict(kind="S-on-code", spec="coq/Spec/Ebu3264Spec.v presentation", first=describe(file_s_bad[0]), count=len(file_s_bad)))
    if others:
        s_fail = True
        idx, what = others[0]
        run.violation(f"the reader raised an undocumented exception or returned an unexpected document shape: {what}",
                      dict(kind="S-on-code", clause="reader outcome", first=describe(idx), count=len(others)))
    if cfg_others:
        s_fail = True
        run.violation(f"STLReaderConfiguration.parse raised an undocumented exception or decoded to an unexpected type: {cfg_others[0][1]}",
                      dict(kind="S-on-code", clause="configuration decoders", first=json.loads(json.dumps(cfg_others[0][0], default=str)), count=len(cfg_others)))
    tie_broken = iso_m_bad or tf_m_bad or file_m_bad or cfg_m_bad or broken or not proofs_ok
    if tie_broken and not s_fail:
        what = []
        if not proofs_ok: what.append("theorems of coq/Properties/C09.v no longer check: " + getattr(run, "proof_log", "")[-600:])
        if iso_m_bad: what.append(f"Model/Iso6937.v vs iso6937.decode disagree on {len(iso_m_bad)} strings, first {iso_rows[iso_m_bad[0]][0].hex()}")
        if tf_m_bad: what.append(f"Model/StlTf.v vs tf.to_model disagree on {len(tf_m_bad)} text fields, first {tf_rows[tf_m_bad[0]][2].hex()}")
        if file_m_bad: what.append(f"Model/StlDatafile.v vs reader.to_model disagree on {len(file_m_bad)} files, first {cases[file_m_bad[0]][2]}")
        if cfg_m_bad:
            what.append(f"Model/StlDatafile.v parse_config (decode_start_tc, decode_max_row_count, decode_bool) vs STLReaderConfiguration.parse "
                        f"disagree on {len(cfg_m_bad)} dictionaries, first {cfg_rows[cfg_m_bad[0]][0]!r} -> {cfg_rows[cfg_m_bad[0]][1]}")
        if broken: what.append(f"case files did not evaluate: {broken[0]}")
        run.violation("; ".join(what), dict(kind="broken-tie", theorem_file="coq/Properties/C09.v", proofs_ok=proofs_ok,
                                            correspondence="Model/Iso6937.v, Model/StlTf.v, Model/StlDatafile.v vs ttconv/stl",
                                            first_file=describe((file_m_bad or [0])[0]) if file_m_bad else None,
                                            first_tf=tf_rows[tf_m_bad[0]][2].hex() if tf_m_bad else None), found_input=False)
    distinct = len({json.dumps(r[1], default=str, sort_keys=True) for r in results if r[0] == "ok" and any(r[1]["divs"])})
    hist = lambda f: {str(k): sum(1 for c in cases if f(c) == k) for k in sorted({f(c) for c in cases}, key=str)}
    run.cov.update(
        evaluations=len(iso_rows) + len(tf_rows) + len(cases) + len(cfg_rows) + font_rows, distinct_nontrivial=distinct + len({b for _, _, b, _ in tf_rows}),
        exhaustive_tables=True,
        rule="(1) iso6937.decode on all 256 single bytes and all 15x256 diacritic pairs (thorough: all 65 536 pairs), plus random strings; "
             "(2) random text fields (words of the code table incl. diacritic pairs, spaces, all control codes, new-lines single and doubled, "
             "reserved and filler codes; teletext and open; all CCT values and an unknown one) through tf.to_model; "
             "(3) the 50 STL files of the test resources x configurations and byte-level generated files (60 % well-formed, 30 % mildly "
             "malformed, 10 % wild incl. truncation; comment subtitles, empty rows, VP 0, unused-space bytes inside fields, files that start "
             "inside a cumulative set, TNB 0; max_row_count 0 / negative / MNR with GSI MNR 00, -3, -0 both at random and in a fixed share "
             "of 24 quick / 400 thorough open-subtitle files per run) x configurations through reader.to_model; every output canonicalised to language, "
             "cell resolution, active area, body styles, regions (origin/extent/displayAlign), and per paragraph region, alignment, sizes, "
             "begin/end, runs (colours, italics, underline, text) and line breaks, plus the values passed to the progress callback; "
             "compared in Coq with M, judged by S; (4) configuration dictionaries over disable_fill_line_gap, program_start_tc, disable_line_padding, "
             "max_row_count (one key, all keys, any subset; per key: TCP/MNR in any case with and without trailing text, time codes with any "
             "separators and text after or before them - new-line, U+2028, NUL included -, non-ASCII digits and letters, ints, booleans, "
             "explicit nulls, numbers and booleans written as strings, floats, lists, objects) through STLReaderConfiguration.parse; the "
             "configuration or the exception class compared in Coq with Model/StlDatafile.v parse_config; font_stack (outside M) with booleans, numbers, "
             "lists, objects and null: a ValueError / no font stack, checked on the code alone. distinct_nontrivial = distinct non-empty canonical documents + distinct text fields.",
        replayed=os.environ.get("VERIF_REPLAY"),
        samples=[dict(file=cases[0][2], config=cases[0][1]), dict(tf=tf_rows[0][2].hex(), teletext=tf_rows[0][0], cct=tf_rows[0][1].decode("latin1"))] +
                ([dict(generated=cases[len(corpus) * 2][2], config=cases[len(corpus) * 2][1])] if len(cases) > len(corpus) * 2 else []),
        profiles=hist(lambda c: c[2].get("profile")), dfc=hist(lambda c: c[2].get("dfc", "corpus")), cct=hist(lambda c: c[2].get("cct", "corpus")),
        dsc=hist(lambda c: c[2].get("dsc", "corpus")), start_cfg=hist(lambda c: "None" if c[1]["start"] is None else ("TCP" if c[1]["start"] == "TCP" else "label")),
        rows_cfg=hist(lambda c: str(c[1]["rows"]) if not isinstance(c[1]["rows"], int) else ("int < 1" if c[1]["rows"] < 1 else "int >= 1")),
        declared_row_count=hist(lambda c: c[2].get("declared_rows", "corpus")),
        row_count_below_1_outcomes={k: sum(1 for c, r in zip(cases, results) if c[2].get("declared_rows") == "below 1" and (r[1] if r[0] == "err" else r[0]) == k)
                                    for k in ("ok", "EStruct", "EValue", "EZeroDiv", "other")},
        outcomes={k: sum(1 for r in results if (r[1] if r[0] == "err" else r[0]) == k) for k in ("ok", "EStruct", "EAttribute", "EValue", "EZeroDiv", "other")},
        files_in_spec_domain=in_domain, files_spec_ok=spec_ok_n, files_excused_by_finding={k: len(v) for k, v in file_known.items()},
        model_code_mismatches=dict(iso=len(iso_m_bad), tf=len(tf_m_bad), files=len(file_m_bad), config=len(cfg_m_bad)),
        config_dictionaries=dict(
            total=len(cfg_rows), keys_present={str(n): sum(1 for d, _ in cfg_rows if len(d) == n) for n in range(5)},
            value_classes={k: {c: sum(1 for d, _ in cfg_rows if value_class(d, k) == c) for c in sorted({value_class(d, k) for d, _ in cfg_rows})} for k in KEYS},
            outcomes={k: sum(1 for _, o in cfg_rows if o.startswith(k)) for k in ("(inl", "(inr EValue")},
            start_outcomes={k: sum(1 for d, o in cfg_rows if "program_start_tc" in d and k in o) for k in ("StNone", "StTCP", "StStr", "EValue")},
            start_trailing_text_rejected=sum(1 for d, o in cfg_rows if isinstance(d.get("program_start_tc"), str) and "EValue" in o
                                             and re.match(r"[0-9]{2}.[0-9]{2}.[0-9]{2}.[0-9]{2}(?s:.)", d["program_start_tc"]) is not None),
            rows_bool_rejected=sum(1 for d, o in cfg_rows if isinstance(d.get("max_row_count"), bool) and "EValue" in o),
            flags_non_bool_rejected=sum(1 for d, o in cfg_rows if "EValue" in o and any(k in d and not isinstance(d[k], bool) for k in ("disable_fill_line_gap", "disable_line_padding"))),
            start_non_string_rejected=sum(1 for d, o in cfg_rows if "EValue" in o and d.get("program_start_tc") is not None and not isinstance(d["program_start_tc"], str)),
            font_stack_non_string_dictionaries=font_rows),
        progress_values=sum(len(r[2]) for r in results),
        s_failures_on_code=dict(iso=len(iso_s_bad), tf=len(tf_s_bad), files=len(file_s_bad)))
    run.assumptions += ["S (Spec/Ebu3264Spec.v) is my reading of EBU Tech 3264-E (GSI/TTI layout, TF codes, CS/EBN semantics; VP 0 = the top row; a declared row count that is not positive - MNR 00, max_row_count <= 0 - declares no grid: the default 23 rows), ISO 6937 and "
                        "ISO 8859-5/6/7/8; the single-byte ISO 6937 table agrees with glibc's ISO_6937 charmap except at 0xA4 (dollar sign, 1983 edition)",
                        "region geometry: the implementation computes in binary floating point, M and S in Q; compared up to 1e-9",
                        "canonicalisation of the ContentDocument (harness/c09.py canon_doc) observes what the STL reader sets and rejects any other shape",
                        "CPython int(bytes), bytes.strip, struct.unpack and the small-int cache (-5..256) are modelled, checked through the correspondence only"]
    return run.finish(["harness/gen_c09.py (table translator, fail-closed; Gen/Iso6937Spec.v is derived from unicodedata without importing ttconv)",
                       "CPython's iso8859_5..8 codecs (enter M as generated tables; proved equal to the standard's tables of S)"])


if __name__ == "__main__":
    sys.exit(main())
