"""Fail-closed translator: Python `ast` of ttconv/time_code.py -> Gallina definitions over coq/Base/PyNum.v.

Run on every ./check C12 (and by tools/setup.sh through harness/gen_c12.py); writes coq/Gen/TimeCodeSrc.v.
coq/Proofs/C12/SrcRefines.v proves that each generated `src_*` equals the hand-written Model/TimeCode.v on
the injection of its inputs, so the theorems of Properties/C12.v are re-established about the *current* source.

Subset: straight-line code with `if`, re-assignment (let-shadowing; variables assigned in a non-returning
`if` are merged, variables first assigned there are local to it), `raise` (-> Raise), `return`, reads of self
fields (record projections), assignments to self fields (functional update, the method returns the new self),
calls to floor/ceil/round/int/float/Fraction, to the translated functions, to getters and to constructors,
f-strings with zero-padded integer formats and ":".join over a list literal.  `x is None` is accepted only as
the guard `if x is None: raise ...` (x : option); `isinstance(x, (int, Fraction))` only as the test of an
if/else whose else-branch is float arithmetic: that branch becomes `Unsupported`.  Everything else raises
TransError naming the construct: nothing is guessed.  A light int/Fraction/float typing records every place
where CPython computes through binary64 and the model computes exactly (`float_sites`)."""
import ast, os

class TransError(Exception):
    pass

# (Coq name, class of self / None, class that defines it, function, expected parameter names, is static)
UNITS = [("src_is_drop_frame", "SmpteTimeCode", "SmpteTimeCode", "is_drop_frame", ["self"], False),
         ("src_hhmmss_to_seconds", "SmpteTimeCode", "_HHMMSSTimeExpression", "to_seconds", ["self"], False),
         ("src_to_frames", "SmpteTimeCode", "SmpteTimeCode", "to_frames", ["self"], False),
         ("src_to_temporal_offset", "SmpteTimeCode", "SmpteTimeCode", "to_temporal_offset", ["self"], False),
         ("src_from_frames", None, "SmpteTimeCode", "from_frames", ["nb_frames", "frame_rate"], True),
         ("src_add_frames", "SmpteTimeCode", "SmpteTimeCode", "add_frames", ["self", "nb_frames"], False),
         ("src_from_seconds", None, "SmpteTimeCode", "from_seconds", ["seconds", "frame_rate"], True),
         ("src_tc_str", "SmpteTimeCode", "SmpteTimeCode", "__str__", ["self"], False),
         ("src_clock_from_seconds", None, "ClockTime", "from_seconds", ["seconds"], True),
         ("src_clock_str", "ClockTime", "ClockTime", "__str__", ["self"], False)]
CLASSES = ["ClockTime", "SmpteTimeCode"]
NUMERIC = ("int", "frac", "num", "float")
RESERVED = {"inj", "num", "text", "bind", "Ok", "Raise", "Unsupported", "Some", "None", "Exact", "Inexact", "map",
            "negb", "andb", "orb", "app", "true", "false", "fun", "let", "in", "if", "then", "else", "match", "with", "end"}
BUILTINS = {"floor", "ceil", "round", "int", "float", "Fraction", "isinstance", "super", "bool", "str"}
EXN = {"ValueError", "TypeError", "RuntimeError", "KeyError", "IndexError"}
BINOP = {ast.Add: "py_add", ast.Sub: "py_sub", ast.Mult: "py_mul", ast.Div: "py_truediv", ast.FloorDiv: "py_floordiv", ast.Mod: "py_mod",
         ast.BitAnd: "py_and"}
CMPOP = {ast.Lt: "py_lt", ast.LtE: "py_le", ast.Gt: "py_gt", ast.GtE: "py_ge", ast.Eq: "py_eq", ast.NotEq: "py_ne"}


def is_obj(ty):
    return isinstance(ty, tuple) and ty[0] == "obj"


def coq_text(s):
    return "[" + "; ".join(str(ord(c)) for c in s) + "]"


class Translator:
    imports = "From TT Require Import Base.Prelude Base.PyNum."
    math_imports = {"floor": "math.floor", "ceil": "math.ceil", "Fraction": "fractions.Fraction"}

    def __init__(self, source, filename):
        self.tree = ast.parse(source, filename)
        self.classes = {n.name: n for n in self.tree.body if isinstance(n, ast.ClassDef)}
        self.check_module()
        # module-level NAME = <int literal>, assigned once
        tops = [n for n in self.tree.body if isinstance(n, ast.Assign) and len(n.targets) == 1 and isinstance(n.targets[0], ast.Name)]
        self.modconst = {n.targets[0].id: n.value.value for n in tops if isinstance(n.value, ast.Constant) and type(n.value.value) is int
                         and sum(1 for t in ast.walk(self.tree) if isinstance(t, ast.Name) and t.id == n.targets[0].id and isinstance(t.ctx, ast.Store)) == 1}
        self.narrowed = {}
        self.done = {}          # (defining class, function) -> (coq name, parameter types, return type, raises)
        self.fields = {}        # class -> [(field, type)]
        self.ctor = {}          # class -> number of constructor arguments
        self.float_sites, self.unsupported, self.notes, self.out = [], [], [], []

    def fail(self, node, what):
        raise TransError(f"{getattr(self, 'cur', '?')}: line {getattr(node, 'lineno', '?')}: {what}: "
                         f"`{ast.unparse(node)[:90] if isinstance(node, ast.AST) else node}`")

    def check_module(self):
        """floor/ceil/round/int/float/Fraction/isinstance must mean math.floor, math.ceil, the builtins and fractions.Fraction"""
        imported = {}; self.cur = "module level"
        for n in ast.walk(self.tree):
            if isinstance(n, ast.ImportFrom):
                for a in n.names: imported[a.asname or a.name] = f"{n.module}.{a.name}"
            elif isinstance(n, ast.Import):
                for a in n.names: imported[(a.asname or a.name).split(".")[0]] = a.name
            bound = [n.name] if isinstance(n, (ast.FunctionDef, ast.ClassDef, ast.AsyncFunctionDef)) else \
                    [t.id for t in ast.walk(n) if isinstance(t, ast.Name) and isinstance(t.ctx, (ast.Store, ast.Del))] if isinstance(n, (ast.Assign, ast.AugAssign, ast.AnnAssign, ast.For, ast.With, ast.NamedExpr, ast.Global, ast.Nonlocal)) else \
                    [n.arg] if isinstance(n, ast.arg) else []
            for b in bound:
                if b in BUILTINS: self.fail(n, f"the name {b} is rebound in the module")
        want = self.math_imports; self.imported = imported
        for k, v in want.items():
            if imported.get(k) != v: self.fail(k, f"{k} is not imported as {v}")
        for k in imported:
            if k in BUILTINS and k not in want: self.fail(k, f"the builtin {k} is shadowed by an import")

    # ---- classes: records from __init__ ---------------------------------------------------------
    def method(self, cls, name, node=None):
        c = self.classes.get(cls)
        while c is not None:
            for n in c.body:
                if isinstance(n, ast.FunctionDef) and n.name == name: return c.name, n
            if len(c.bases) != 1 or not isinstance(c.bases[0], ast.Name): break
            c = self.classes.get(c.bases[0].id)
        self.fail(node or cls, f"no method {name} found for class {cls}")

    def annot(self, a, node):
        s = ast.unparse(a) if a is not None else None
        t = {"int": "int", "Fraction": "frac", "Union[int, Fraction]": "num", "Union[float, Fraction]": "num?"}.get(s)
        if t is None: self.fail(node, f"parameter/return annotation not understood ({s})")
        return t

    def init_fields(self, cls, args, node):
        """fields assigned by cls.__init__ called with the Coq terms `args`: [(field, type, term)]"""
        owner, fn = self.method(cls, "__init__", node)
        params = [a.arg for a in fn.args.args]
        if fn.args.vararg or fn.args.kwarg or fn.args.kwonlyargs or fn.args.defaults or len(params) != len(args) + 1:
            self.fail(fn, "constructor signature not understood")
        env = {p: (self.annot(a.annotation, fn), t) for p, a, t in zip(params[1:], fn.args.args[1:], args)}
        res = []
        for st in fn.body:
            if isinstance(st, ast.Expr) and isinstance(st.value, ast.Constant) and isinstance(st.value.value, str): continue
            if isinstance(st, ast.Expr) and ast.unparse(st.value).startswith("super().__init__(") and not st.value.keywords:
                base = self.classes[owner].bases[0].id
                sub = []
                for a in st.value.args:
                    if not (isinstance(a, ast.Name) and a.id in env): self.fail(st, "constructor argument is not a parameter")
                    sub.append(env[a.id][1])
                res += self.init_fields(base, sub, st); continue
            tgt = st.target if isinstance(st, ast.AnnAssign) else st.targets[0] if isinstance(st, ast.Assign) and len(st.targets) == 1 else None
            if not (isinstance(tgt, ast.Attribute) and isinstance(tgt.value, ast.Name) and tgt.value.id == "self"):
                self.fail(st, "statement kind not supported in __init__")
            if isinstance(st.value, ast.Name) and st.value.id in env:
                res.append((tgt.attr, env[st.value.id][0], env[st.value.id][1]))
            elif isinstance(st.value, ast.Constant) and isinstance(st.value.value, str):
                res.append((tgt.attr, "str", coq_text(st.value.value)))
            else:
                self.fail(st, "field initialiser is neither a parameter nor a string constant")
        return res

    def emit_class(self, cls):
        _, fn = self.method(cls, "__init__")
        params = [a.arg for a in fn.args.args[1:]]
        fl = self.init_fields(cls, params, fn)
        if len({f for f, _, _ in fl}) != len(fl): self.fail(fn, "field assigned twice in __init__")
        self.fields[cls] = [(f, t) for f, t, _ in fl]; self.ctor[cls] = len(params)
        self.emit_record(cls, params, " ".join(v for _, _, v in fl))

    def emit_record(self, cls, params, ctor_args):
        ty = self.coq_type
        proj = lambda f: f"{cls}_{f}"
        self.out.append(f"Record {cls} := {cls}_mk {{ " + "; ".join(f"{proj(f)} : {ty(t)}" for f, t in self.fields[cls]) + " }.")
        if ctor_args is not None:
            self.out.append(f"Definition {cls}_new ({' '.join(params)} : num) : {cls} := {cls}_mk " + ctor_args + ".")
        for f, t in self.fields[cls]:
            self.out.append(f"Definition {cls}_set{f} (o : {cls}) (v : {ty(t)}) : {cls} := {cls}_mk " +
                            " ".join("v" if g == f else f"({proj(g)} o)" for g, _ in self.fields[cls]) + ".")
        self.out.append(f"Definition {cls}_fields (o : {cls}) : list num := [" +
                        "; ".join(f"{proj(f)} o" for f, t in self.fields[cls] if t in NUMERIC) + "].\n")

    def coq_type(self, t):
        if t == "str": return "text"
        if t == "bool": return "bool"
        if is_obj(t): return t[1]
        if t in NUMERIC: return "num"
        self.fail(str(t), "no Gallina type for this Python type")

    def reads(self, cls, fn, seen=()):
        """fields of self that method `fn` of class `cls` reads, directly or through methods it calls on self"""
        r = set()
        for n in ast.walk(fn):
            if isinstance(n, ast.Attribute) and isinstance(n.value, ast.Name) and n.value.id == "self":
                if any(f == n.attr for f, _ in self.fields.get(cls, [])): r.add(n.attr)
                elif n.attr not in seen and isinstance(n.ctx, ast.Load):
                    try: _, g = self.method(cls, n.attr, n)
                    except TransError: continue
                    r |= self.reads(cls, g, seen + (n.attr,))
        return r

    def field(self, cls, attr, node):
        for f, t in self.fields[cls]:
            if f == attr: return f"{cls}_{f}", t
        self.fail(node, f"class {cls} has no field {attr} assigned in __init__")

    def getter(self, cls, name, node):
        """`obj.get_x()`: accepted when the method body is exactly `return self._x`"""
        _, fn = self.method(cls, name, node)
        body = [s for s in fn.body if not (isinstance(s, ast.Expr) and isinstance(s.value, ast.Constant))]
        if len(fn.args.args) == 1 and len(body) == 1 and isinstance(body[0], ast.Return) and isinstance(body[0].value, ast.Attribute) \
                and isinstance(body[0].value.value, ast.Name) and body[0].value.value.id == "self":
            return self.field(cls, body[0].value.attr, node)
        self.fail(node, f"call of {cls}.{name}, which is neither translated nor a plain getter")

    # ---- expressions: (Coq term, type) -----------------------------------------------------------
    def num(self, e, env):
        t, ty = self.expr(e, env)
        if ty not in NUMERIC: self.fail(e, f"numeric operand expected, got {ty}")
        return t, ty

    def call_unit(self, key, args, node, env):
        if key not in self.done: self.fail(node, f"call of {key[0]}.{key[1]}, which is not translated (before this point)")
        name, ptypes, rty, raises = self.done[key]
        if len(args) != len(ptypes): self.fail(node, "number of arguments differs from the translated signature")
        terms = []
        for (t, ty), pt in zip(args, ptypes):
            if pt == "opt": t = f"(Some {t})"
            elif pt == "arg": t = f"(Exact {t})"
            elif isinstance(pt, tuple) != isinstance(ty, tuple) or (isinstance(pt, tuple) and pt != ty): self.fail(node, "argument type")
            terms.append(t)
        call = f"({name} {' '.join(terms)})"
        if raises:
            self.tmp += 1; v = f"r{self.tmp}_"
            self.binds.append((v, call)); return v, rty
        return call, rty

    def expr_ext(self, e, env):
        """hook for a source-specific vocabulary (harness/pytrans_scc.py); None = not handled"""
        return None

    def call_ext(self, e, env):
        return None

    def expr(self, e, env):
        r = self.expr_ext(e, env)
        if r is not None: return r
        if isinstance(e, ast.Constant):
            if isinstance(e.value, bool): return ("true" if e.value else "false"), "bool"
            if isinstance(e.value, int): return (f"(inj {e.value})" if e.value >= 0 else f"(inj ({e.value}))"), "int"
            if isinstance(e.value, str): return coq_text(e.value), "str"
            self.fail(e, "constant of an unsupported type (float literals are outside the exact model)")
        if isinstance(e, ast.Name):
            if e.id not in env and e.id in self.modconst: return f"(inj {self.modconst[e.id]})", "int"
            if e.id not in env: self.fail(e, "name is not a parameter or a variable assigned on every path to this point")
            if env[e.id] in ("opt", "arg"): self.fail(e, "use of a None-able / float-able parameter before its guard")
            return e.id, env[e.id]
        if isinstance(e, ast.Attribute):
            t, ty = self.expr(e.value, env)
            if is_obj(ty):
                if t == "self" and getattr(self, "init_assigned", None) is not None and e.attr not in self.init_assigned:
                    self.fail(e, "field read in __init__ before it is assigned")
                p, fty = self.field(ty[1], e.attr, e); return f"({p} {t})", fty
            if ty in ("frac", "int", "num") and e.attr in ("numerator", "denominator"): return f"(py_{e.attr} {t})", "int"
            self.fail(e, "attribute read not supported")
        if isinstance(e, ast.BinOp):
            a, ta = self.expr(e.left, env); b, tb = self.expr(e.right, env)
            if ta == "str" and tb == "str" and isinstance(e.op, ast.Add): return f"({a} ++ {b})", "str"
            if type(e.op) not in BINOP or ta not in NUMERIC or tb not in NUMERIC: self.fail(e, f"binary operator on {ta}, {tb} not supported")
            if isinstance(e.op, ast.BitAnd):
                if not (ta == tb == "int"): self.fail(e, "bitwise operator on values not known to be ints")
                ty = "int"
            elif isinstance(e.op, ast.FloorDiv): ty = "int"
            elif "float" in (ta, tb):
                ty = "float"
                if {ta, tb} - {"float", "int"}: self.float_sites.append((self.cur, e.lineno, ast.unparse(e), "float op Fraction is binary64 in CPython (exact here only while the Fraction operand is an integer)"))
            elif isinstance(e.op, ast.Div):
                ty = "float" if ta == tb == "int" else "frac" if "frac" in (ta, tb) else "num"
                if ty != "frac": self.float_sites.append((self.cur, e.lineno, ast.unparse(e), "int / int is binary64 in CPython" + (" when the Union argument is an int" if ty == "num" else "")))
            else: ty = "int" if ta == tb == "int" else "frac" if "frac" in (ta, tb) else "num"
            return f"({BINOP[type(e.op)]} {a} {b})", ty
        if isinstance(e, ast.UnaryOp):
            if isinstance(e.op, ast.Not):
                t, ty = self.expr(e.operand, env)
                if ty != "bool": self.fail(e, "`not` of a non-boolean (truthiness is not modelled)")
                return f"(negb {t})", "bool"
            if isinstance(e.op, ast.USub):
                t, ty = self.num(e.operand, env); return f"(py_neg {t})", ty
            self.fail(e, "unary operator not supported")
        if isinstance(e, ast.BoolOp):
            ts = [self.expr(v, env) for v in e.values]
            if any(ty != "bool" for _, ty in ts): self.fail(e, "and/or of non-booleans (truthiness is not modelled)")
            op = "andb" if isinstance(e.op, ast.And) else "orb"; r = ts[-1][0]
            for t, _ in reversed(ts[:-1]): r = f"({op} {t} {r})"
            return r, "bool"
        if isinstance(e, ast.Compare):
            if any(type(o) not in CMPOP for o in e.ops): self.fail(e, "comparison not supported (`is`, `in`)")
            terms = [self.num(x, env)[0] for x in [e.left] + e.comparators]      # operands are pure: a < b < c is (a < b) and (b < c)
            parts = [f"({CMPOP[type(o)]} {a} {b})" for o, a, b in zip(e.ops, terms, terms[1:])]
            r = parts[-1]
            for q in reversed(parts[:-1]): r = f"(andb {q} {r})"
            return r, "bool"
        if isinstance(e, ast.IfExp):
            c, tc = self.expr(e.test, env); a, ta = self.expr(e.body, env); b, tb = self.expr(e.orelse, env)
            if tc != "bool": self.fail(e, "condition is not a boolean (truthiness is not modelled)")
            if ta != tb and not (ta in NUMERIC and tb in NUMERIC): self.fail(e, "branches of different types")
            return f"(if {c} then {a} else {b})", (ta if ta == tb else "float" if "float" in (ta, tb) else "num")
        if isinstance(e, ast.JoinedStr):
            parts = []
            for v in e.values:
                if isinstance(v, ast.Constant) and isinstance(v.value, str): parts.append(coq_text(v.value)); continue
                spec = ast.unparse(v.format_spec)[2:-1] if isinstance(v, ast.FormattedValue) and v.format_spec is not None else None
                if not isinstance(v, ast.FormattedValue) or v.conversion != -1 or spec not in ("02", "02d", "03", "03d"):
                    self.fail(e, "f-string part other than text or {int:0N} / {int:0Nd} with N in 2, 3")
                t, ty = self.expr(v.value, env)
                if ty != "int": self.fail(v, "formatted value is not known to be an int")
                parts.append(f"(py_fmt0 {int(spec[1])} {t})")
            return ("(" + " ++ ".join(parts) + ")" if len(parts) > 1 else parts[0] if parts else "[]"), "str"
        if isinstance(e, ast.Call):
            return self.call(e, env)
        self.fail(e, f"expression kind {type(e).__name__} not supported")

    def call(self, e, env):
        r = self.call_ext(e, env)
        if r is not None: return r
        if e.keywords: self.fail(e, "keyword arguments not supported")
        f = e.func; n = len(e.args)
        if isinstance(f, ast.Name):
            if f.id in ("floor", "ceil", "int") and n == 1:
                t, ty = self.num(e.args[0], env); return f"(py_{f.id} {t})", "int"
            if f.id == "round" and n == 1:
                t, ty = self.num(e.args[0], env)
                if ty == "float": self.fail(e, "round() of a float is outside the exact model")
                return f"(py_round {t})", "int"
            if f.id == "round" and n == 2 and isinstance(e.args[1], ast.Constant) and isinstance(e.args[1].value, int) and e.args[1].value >= 0:
                t, ty = self.num(e.args[0], env)
                if ty == "float": self.fail(e, "round(x, n) of a float is outside the exact model")
                return f"(py_round_nd {t} {e.args[1].value})", ty
            if f.id == "float" and n == 1:
                t, ty = self.num(e.args[0], env)
                if ty != "int": self.fail(e, "float() of a value not known to be an int is outside the exact model")
                self.float_sites.append((self.cur, e.lineno, ast.unparse(e), "float(int) is exact only below 2^53"))
                return f"(py_float {t})", "float"
            if f.id == "Fraction" and n == 2:
                a, ta = self.num(e.args[0], env); b, tb = self.num(e.args[1], env)
                if "float" in (ta, tb): self.fail(e, "Fraction() of a float")
                return f"(py_fraction2 {a} {b})", "frac"
            if f.id in self.ctor:
                if n != self.ctor[f.id]: self.fail(e, "constructor arity")
                return f"({f.id}_new {' '.join(self.num(a, env)[0] for a in e.args)})", ("obj", f.id)
            self.fail(e, f"call of unknown function {f.id}")
        if isinstance(f, ast.Attribute):
            if isinstance(f.value, ast.Constant) and isinstance(f.value.value, str) and f.attr == "join" and n == 1:
                return self.join(e, f.value.value, env)
            args = [self.expr(a, env) for a in e.args]
            if isinstance(f.value, ast.Name) and f.value.id in self.classes:                      # Class.static(...)
                return self.call_unit((f.value.id, f.attr), args, e, env)
            if ast.unparse(f.value) == "super()":                                                    # super().m(...)
                scls = env.get("self")
                if not is_obj(scls): self.fail(e, "super() outside a method")
                owner, _ = self.method(self.classes[self.curcls].bases[0].id, f.attr, e)
                return self.call_unit((owner, f.attr), [("self", scls)] + args, e, env)
            t, ty = self.expr(f.value, env)
            if is_obj(ty):
                owner, fn = self.method(ty[1], f.attr, e)
                if (owner, f.attr) in self.done:
                    if t == "self" and getattr(self, "init_assigned", None) is not None and not self.reads(ty[1], fn) <= self.init_assigned:
                        self.fail(e, "method called in __init__ reads a field that is not assigned yet")
                    return self.call_unit((owner, f.attr), [(t, ty)] + args, e, env)
                if n == 0:
                    p, fty = self.getter(ty[1], f.attr, e); return f"({p} {t})", fty
            self.fail(e, "method call not supported")
        self.fail(e, "call not supported")

    def join(self, e, sep, env):
        g = e.args[0] if isinstance(e.args[0], ast.GeneratorExp) else None
        if g is None or len(g.generators) != 1 or g.generators[0].is_async or \
                not isinstance(g.generators[0].target, ast.Name) or not isinstance(g.generators[0].iter, ast.List):
            self.fail(e, "join over anything but `f(x) for x in [list literal]`")
        items = [self.expr(i, env) for i in g.generators[0].iter.elts]
        if len({ty for _, ty in items}) != 1: self.fail(e, "list literal of mixed types")
        v = g.generators[0].target.id; self.check_name(v, e)
        body, bty = self.expr(g.elt, dict(env, **{v: items[0][1]}))
        if bty != "str": self.fail(e, "joined elements are not strings")
        lst = f"[{'; '.join(t for t, _ in items)}]"
        for c in g.generators[0].ifs:
            ct, cty = self.expr(c, dict(env, **{v: items[0][1]}))
            if cty != "bool": self.fail(c, "filter is not a boolean (truthiness is not modelled)")
            lst = f"(filter (fun {v} => {ct}) {lst})"
        return f"(py_join {coq_text(sep)} (map (fun {v} => {body}) {lst}))", "str"

    def check_name(self, v, node):
        if v in RESERVED or v.startswith(("py_", "src_") + tuple(c + "_" for c in CLASSES)) or v.endswith("_") or not v.isidentifier() or not v.isascii():
            self.fail(node, f"variable name {v} clashes with the generated vocabulary")

    # ---- statements ---------------------------------------------------------------------------------
    def with_binds(self, mk):
        """translate with `mk` (which may call raising functions) and wrap the binds it needed around the result"""
        saved = self.binds; self.binds = []
        body = mk(); mine = self.binds; self.binds = saved
        def wrap(rest):
            for v, c in reversed(mine): rest = f"bind {c} (fun {v} =>\n{rest})"
            return rest
        return body, wrap

    def terminates(self, stmts):
        if not stmts: return False
        s = stmts[-1]
        if isinstance(s, (ast.Return, ast.Raise)): return True
        return isinstance(s, ast.If) and self.terminates(s.body) and self.terminates(s.orelse)

    def assigned(self, stmts, node):
        names = []
        for s in stmts:
            if isinstance(s, (ast.Return, ast.Raise)): self.fail(node, "return/raise inside a branch that also falls through")
            if isinstance(s, ast.If): names += self.assigned(s.body, node) + self.assigned(s.orelse, node)
            elif isinstance(s, (ast.Assign, ast.AugAssign, ast.AnnAssign)):
                t = s.targets[0] if isinstance(s, ast.Assign) else s.target
                names.append(t.id if isinstance(t, ast.Name) else "self" if isinstance(t, ast.Attribute) else self.fail(s, "assignment target"))
        return list(dict.fromkeys(names))

    def block(self, stmts, env, tail):
        """Coq term for the statement list followed by `tail(env)`"""
        if not stmts: return tail(env)
        s, rest = stmts[0], stmts[1:]
        if isinstance(s, ast.Expr) and isinstance(s.value, ast.Constant) and isinstance(s.value.value, str):
            return self.block(rest, env, tail)                                                         # docstring
        if isinstance(s, ast.Return):
            if rest or s.value is None: self.fail(s, "code after return / bare return")
            (t, ty), wrap = self.with_binds(lambda: self.expr(s.value, env))
            self.check_ret(ty, s)
            return wrap(f"Ok {t}" if self.raises else t)
        if isinstance(s, ast.Raise):
            if rest or not (isinstance(s.exc, ast.Call) and isinstance(s.exc.func, ast.Name) and s.exc.func.id in EXN) or s.cause:
                self.fail(s, "raise of anything but a known exception class call")
            return f"Raise {s.exc.func.id}"
        if isinstance(s, ast.AnnAssign) and s.value is not None and s.simple in (0, 1):
            s = ast.copy_location(ast.Assign(targets=[s.target], value=s.value), s)      # the annotation is not used
        if isinstance(s, (ast.Assign, ast.AugAssign)):
            tgt = s.targets[0] if isinstance(s, ast.Assign) and len(s.targets) == 1 else s.target if isinstance(s, ast.AugAssign) else self.fail(s, "multiple assignment targets")
            val = s.value if isinstance(s, ast.Assign) else ast.BinOp(left=ast.Name(id=tgt.id, ctx=ast.Load(), lineno=s.lineno) if isinstance(tgt, ast.Name) else self.fail(s, "augmented assignment target"),
                                                                        op=s.op, right=s.value, lineno=s.lineno)
            (t, ty), wrap = self.with_binds(lambda: self.expr(val, env))
            if isinstance(tgt, ast.Name):
                self.check_name(tgt.id, s)
                if env.get(tgt.id) in ("opt", "arg") or isinstance(env.get(tgt.id), tuple): self.fail(s, "re-assignment of an object / guarded parameter")
                return wrap(f"let {tgt.id} := {t} in\n" + self.block(rest, dict(env, **{tgt.id: ty}), tail))
            if isinstance(tgt, ast.Attribute) and isinstance(tgt.value, ast.Name) and tgt.value.id == "self" and is_obj(env.get("self")):
                p, fty = self.field(env["self"][1], tgt.attr, s)
                if self.coq_type(fty) != self.coq_type(ty) and ty != "none": self.fail(s, "field assigned a value of another kind")
                self.mutates = True
                if getattr(self, "init_assigned", None) is not None: self.init_assigned.add(tgt.attr)
                return wrap(f"let self := {env['self'][1]}_set{tgt.attr} self {t} in\n" + self.block(rest, env, tail))
            self.fail(s, "assignment target not supported")
        if isinstance(s, ast.If):
            return self.if_stmt(s, rest, env, tail)
        self.fail(s, f"statement kind {type(s).__name__} not supported")

    def if_ext(self, s, rest, env, tail):
        return None

    def if_stmt(self, s, rest, env, tail):
        t = s.test
        r = self.if_ext(s, rest, env, tail)
        if r is not None: return r
        # guard `if p is None: raise E`
        if isinstance(t, ast.Compare) and len(t.ops) == 1 and isinstance(t.ops[0], ast.Is) and isinstance(t.comparators[0], ast.Constant) \
                and t.comparators[0].value is None:
            if not (isinstance(t.left, ast.Name) and env.get(t.left.id) == "opt" and len(s.body) == 1 and isinstance(s.body[0], ast.Raise) and not s.orelse):
                self.fail(s, "`is None` outside the guard pattern `if <parameter> is None: raise ...`")
            p = t.left.id
            return f"match {p} with\n| None => {self.block(s.body, env, tail)}\n| Some {p} =>\n{self.block(rest, dict(env, **{p: 'frac'}), tail)}\nend"
        # `if isinstance(p, (int, Fraction)): exact else: float arithmetic`
        if isinstance(t, ast.Call) and isinstance(t.func, ast.Name) and t.func.id == "isinstance" and \
                (len(t.args) != 2 or (isinstance(t.args[0], ast.Name) and env.get(t.args[0].id) == "arg") or ast.unparse(t.args[1]) == "(int, Fraction)"):
            if not (len(t.args) == 2 and isinstance(t.args[0], ast.Name) and env.get(t.args[0].id) == "arg" and ast.unparse(t.args[1]) == "(int, Fraction)"
                    and s.orelse and not self.terminates(s.body) and self.raises):
                self.fail(s, "isinstance outside the pattern `if isinstance(<float-able parameter>, (int, Fraction)): ... else: ...`")
            p = t.args[0].id; why = f"{self.cur}: float argument (else-branch at line {s.orelse[0].lineno}) is outside the exact model"
            self.unsupported.append(why)
            return f"match {p} with\n| Exact {p} =>\n{self.block(s.body + rest, dict(env, **{p: 'num'}), tail)}\n| Inexact => Unsupported {coq_text(why)}\nend"
        (c, cty), wrap = self.with_binds(lambda: self.expr(t, env))
        if cty != "bool": self.fail(t, "condition is not a boolean (truthiness is not modelled)")
        if self.terminates(s.body):
            return wrap(f"if {c} then\n{self.block(s.body, env, tail)}\nelse\n{self.block(s.orelse + rest, env, tail)}")
        if self.terminates(s.orelse):
            return wrap(f"if {c} then\n{self.block(s.body + rest, env, tail)}\nelse\n{self.block(s.orelse, env, tail)}")
        phi = [v for v in self.assigned(s.body + s.orelse, s) if v in env]
        if not phi: self.fail(s, "if statement without effect on later code")
        if "self" in phi: self.mutates = True
        tup = phi[0] if len(phi) == 1 else "(" + ", ".join(phi) + ")"
        types = {}
        def end(e2):
            for v in phi:
                if v in types and types[v] != e2[v]:
                    types[v] = "num" if types[v] in NUMERIC and e2[v] in NUMERIC and "float" not in (types[v], e2[v]) else self.fail(s, f"variable {v} has different types on the two paths")
                else: types.setdefault(v, e2[v])
            return tup
        a = self.block(s.body, env, end); b = self.block(s.orelse, env, end)
        pat = tup if len(phi) == 1 else "'" + tup
        return wrap(f"let {pat} := if {c} then\n{a}\nelse\n{b} in\n" + self.block(rest, dict(env, **types), tail))

    def check_ret(self, ty, node):
        opt = lambda t: isinstance(t, tuple) and t[0] == "opt"
        if self.rty is None or (self.rty == "none" and opt(ty)): self.rty = ty
        elif self.rty != ty and not (self.rty in NUMERIC and ty in NUMERIC) and not (ty == "none" and opt(self.rty)):
            self.fail(node, "return values of different types")

    # ---- functions ------------------------------------------------------------------------------------
    def has_raise(self, fn):
        for n in ast.walk(fn):
            if isinstance(n, ast.Raise): return True
            if isinstance(n, ast.Call) and isinstance(n.func, ast.Attribute):
                k = [key for key, v in self.done.items() if key[1] == n.func.attr and v[3]]
                if k: return True
        return False

    def ret_ok(self, want, rt):
        return {"bool": rt == "bool", "int": rt in ("int", "num"), "float": rt == "float", "Fraction": rt in ("frac", "num"),
                "str": rt == "str"}.get(want, is_obj(rt) and rt[1] == want)

    def unit(self, name, selfcls, cls, fname, params, static):
        self.cur = f"{cls}.{fname}"; self.curcls = selfcls or cls
        if cls not in self.classes: self.fail(cls, "class not found")
        owner, fn = self.method(cls, fname)
        if owner != cls: self.fail(fn, f"{fname} is no longer defined in {cls}")
        deco = [ast.unparse(d) for d in fn.decorator_list]
        if [a.arg for a in fn.args.args] != params or fn.args.vararg or fn.args.kwarg or fn.args.kwonlyargs or fn.args.posonlyargs:
            self.fail(fn, f"signature changed (expected parameters {params})")
        if static != ("staticmethod" in deco) or set(deco) - {"staticmethod", "abstractmethod"}: self.fail(fn, "decorators changed")
        src = ast.unparse(fn)
        env, ptypes, binders = {}, [], []
        ndef = len(fn.args.defaults)
        for i, a in enumerate(fn.args.args):
            p = a.arg; self.check_name(p, fn) if p != "self" else None
            if p == "self": ty = ("obj", selfcls)
            elif a.annotation is None:
                d = fn.args.defaults[i - (len(params) - ndef)] if i >= len(params) - ndef else None
                if not (isinstance(d, ast.Constant) and type(d.value) is int): self.fail(fn, f"parameter {p} has neither annotation nor int default")
                ty = "int"; self.notes.append(f"{self.cur}: default value {d.value} of {p} is not modelled (the argument is explicit)")
            else:
                ty = self.annot(a.annotation, fn)
                if f"if {p} is None:" in src: ty = "opt"
                elif ty == "num?":
                    ty = "arg" if f"isinstance({p}," in src else "frac"
                    if ty == "frac": self.notes.append(f"{self.cur}: translated for Fraction arguments only ({p}: Union[float, Fraction] without an isinstance test)")
            env[p] = ty; ptypes.append(ty)
            binders.append(f"({p} : {selfcls if p == 'self' else 'option num' if ty == 'opt' else 'pyarg' if ty == 'arg' else 'num'})")
        self.raises = self.has_raise(fn); self.rty = None; self.mutates = False; self.binds = []; self.tmp = 0
        returns = any(isinstance(n, ast.Return) for n in ast.walk(fn))
        def tail(e2):
            if returns or not self.mutates: self.fail(fn, "a path reaches the end of the function without return (and it is not a pure self-update)")
            self.check_ret(("obj", selfcls), fn)
            return "Ok self" if self.raises else "self"
        body = self.block(fn.body, env, tail)
        if self.binds: self.fail(fn, "internal: unplaced bind")
        if returns and self.mutates: self.fail(fn, "method both assigns self fields and returns a value")
        rt = self.rty
        if fn.returns is not None:
            want = ast.unparse(fn.returns)
            if not self.ret_ok(want, rt): self.fail(fn, f"inferred result type {rt} does not fit the annotation {want}")
        crt = self.coq_type(rt)
        self.out.append(f"(* {cls}.{fname}, line {fn.lineno} *)")
        self.out.append(f"Definition {name} {' '.join(binders)} : {'outcome ' if self.raises else ''}{crt} :=\n{body}.\n")
        self.done[(cls, fname)] = (name, ptypes, rt, self.raises)


def translate(path, units=None, classes=None, cls=None, title="ttconv/time_code.py"):
    """returns (Coq text, info dict); raises TransError naming the first construct outside the subset"""
    tr = (cls or Translator)(open(path, encoding="utf-8").read(), path)
    units = UNITS if units is None else units
    for c in (CLASSES if classes is None else classes):
        tr.cur = c + ".__init__"; tr.emit_class(c)
    for u in units: tr.unit(*u)
    head = [f"(* GENERATED by harness/pytrans.py from {title} - do not edit.",
            "   Each definition follows the Python function statement by statement over Base/PyNum.v.",
            "   Places where CPython goes through binary64 and this model is exact:"]
    head += [f"     {f} line {l}: {s}  ({w})" for f, l, s, w in tr.float_sites]
    head += ["   Outside the exact model (Unsupported):"] + ["     " + u for u in tr.unsupported]
    head += ["   Notes:"] + ["     " + n for n in tr.notes] + ["*)", tr.imports, ""]
    info = dict(functions=[f"{u[2]}.{u[3]} -> {u[0]}" for u in units], float_sites=[f"{f}:{l}: {s}" for f, l, s, _ in tr.float_sites],
                unsupported=tr.unsupported, notes=tr.notes)
    return "\n".join(head + tr.out), info


def gen_timecode_src():
    import common as C
    return translate(C.SRC + "/ttconv/time_code.py")[0]


if __name__ == "__main__":
    import sys
    txt, info = translate(sys.argv[1])
    sys.stdout.write(txt)
