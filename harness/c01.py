"""C01 — a snapshot shows exactly what TTML makes active at t.  Theorems: coq/Properties/C01.v.
Tie: M (Model/Isd.v `isd`) against ISD.from_model on generated documents x boundary/epsilon/midpoint times
(whole snapshot: structure, ids, text, styles).  S (Spec/IsdSpec.v `leaves_spec`) is evaluated in Coq on the
implementation's snapshots."""
import copy, logging, sys
import common as C
import isdlit as L
import docgen, isdcore, gen_tables

HEADER = ("From TT Require Import Model.Doc Gen.StyleTables Model.Isd Model.IsdCases Spec.IsdSpec Model.IsdSpecCases Spec.DocWf.\n"
          "Open Scope Z_scope.\n")


def region_leaves(isd):
    """region id -> text and line-break leaves in document order, regions without leaves left out"""
    import ttconv.model as m
    out = {}
    for r in isd.iter_regions():
        ls = [e.get_text() if isinstance(e, m.Text) else "<br>" for e in r.dfs_iterator() if isinstance(e, (m.Text, m.Br))]
        if ls: out[r.get_id()] = ls
    return out


def main():
    run = C.Run("C01", "proof")
    run.hygiene()
    sys.path.insert(0, C.SRC)
    changed, errors = gen_tables.generate({"StyleTables"})
    if errors:
        run.violation("table translator failed closed: " + "; ".join(errors), dict(kind="translator", errors=errors), False)
        return run.finish()
    ok, log = run.build(["Proofs/C01/Main.vo", "Model/IsdSpecCases.vo"], clean=(run.tier == "thorough"))
    proofs_ok = ok and run.theorems()
    if not ok: run.proof_log = log[-2500:]
    run.witnesses()
    logging.disable(logging.CRITICAL)

    ndocs = 300 if run.tier == "quick" else 6000
    rng = run.rng
    blocks, docs, nq, n_nonempty, n_err, sizes = [], {}, 0, 0, 0, []
    n_edited, edits = 0, {}
    n_cached, cached_bad = 0, []
    from ttconv.isd import ISD
    distinct = set()
    for k in range(ndocs):
        prof = k % 3
        g = docgen.Gen(rng, style_density=(0.0, 0.05, 0.12)[prof], anim_density=(0.02, 0.04, 0.04)[prof],
                       display_p=(0.10, 0.08, 0.06)[prof], region_ref_p=(0.35, 0.3, 0.2)[prof])
        d = g.doc(); docs[k] = d
        qs = docgen.query_times(rng, d, 14 if run.tier == "quick" else 22)
        items, prev = [], None
        for t in qs:
            lit, obj = isdcore.snapshot(d, t)
            items.append(f"({L.qlit(t)}, {'None' if lit is None else '(Some ' + lit + ')'})")
            if lit is None: n_err += 1
            elif "KText" in lit:
                n_nonempty += 1
                if lit != prev: distinct.add((k, lit.__hash__()))
            prev = lit
        nq += len(qs); sizes.append(g.n)
        # a snapshot computed WITH the significant-times object is a snapshot too: it must show the same text leaves, region by
        # region, as the one computed without (judged above by M and S); structure and empty regions are C14's business
        try:
            sig = ISD.significant_times(d)
        except Exception:
            sig = None
        if sig is not None:
            for t in rng.sample(qs, min(5, len(qs))):
                try:
                    a = ISD.from_model(d, t); b = ISD.from_model(d, t, sig)
                except Exception:
                    continue
                n_cached += 1
                la, lb = region_leaves(a), region_leaves(b)
                if la != lb: cached_bad.append((k, t, la, lb))
        defs = f"Definition d{k} := {L.doc_lit(d)}.\nDefinition q{k} : list (Q * option (list elem)) := [{'; '.join(items)}]."
        blocks.append((k, defs, [f"cases_isd d{k} q{k}", f"cases_leaves d{k} q{k}", f"cases_ruby_err d{k} q{k}", f"[doc_wf d{k}]"], [len(qs)] * 3 + [1]))
        docs[k] = (d, qs)
        # "every document": also a document that has been snapshotted before and was then edited through the model API — the
        # snapshot of the edited OBJECT must be what M and S say of the document as it is now (on a deep copy)
        if k % 4 == 3:
            import c14 as _c14
            de = copy.deepcopy(d)
            for t in rng.sample(qs, min(3, len(qs))): isdcore.snapshot(de, t)
            whats = []
            for _ in range(rng.randint(1, 2)):
                try: w = _c14.edit(rng, de, g)
                except Exception: w = None
                if w: whats.append(w)
            if whats:
                ke = k + 1000000; n_edited += 1
                qe = docgen.query_times(rng, de, 8)
                ie = []
                for t in qe:
                    lit, obj = isdcore.snapshot(de, t)
                    ie.append(f"({L.qlit(t)}, {'None' if lit is None else '(Some ' + lit + ')'})")
                nq += len(qe)
                blocks.append((ke, f"Definition d{ke} := {L.doc_lit(de)}.\nDefinition q{ke} : list (Q * option (list elem)) := [{'; '.join(ie)}].",
                               [f"cases_isd d{ke} q{ke}", f"cases_leaves d{ke} q{ke}", f"cases_ruby_err d{ke} q{ke}", f"[doc_wf d{ke}]"], [len(qe)] * 3 + [1]))
                docs[ke] = (de, qe); edits[ke] = whats
    files = isdcore.write_shards("Cases_C01_", HEADER, blocks)
    bad, broken = isdcore.eval_shards(files)
    C.clean_cases("Cases_C01_")
    m_bad = bad.get(0, []); s_bad = bad.get(1, []); ruby = set(bad.get(2, [])); not_wf = {c for c, _ in bad.get(3, [])}
    run.log(f"{ndocs} documents (+{n_edited} edited between snapshots), {nq} snapshots ({n_nonempty} with text, {n_err} raised): model/code mismatches {len(m_bad)}, "
            f"S failures {len(s_bad)}, Ruby-pattern errors {len(ruby)}, documents outside the hypothesis doc_wf of C01_snapshot {len(not_wf)}, broken case files {len(broken)}")

    def replay(case):
        k, i = case; d, qs = docs[k]
        lit, obj = isdcore.snapshot(d, qs[i])
        return dict(document=L.doc_lit(d), time=str(qs[i]), implementation_snapshot=lit if lit else repr(obj),
                    edits_before_this_snapshot=edits.get(k))
    # snapshots that raise: the recorded Ruby finding covers those where M also reports the push_children failure
    if ruby: run.known("ruby-inactive-annotation", f"{len(ruby)} snapshots, e.g. document {sorted(ruby)[0][0]} at t={docs[sorted(ruby)[0][0]][1][sorted(ruby)[0][1]]}")
    if s_bad:
        run.violation(f"snapshot leaves differ from the TTML2 specification (document {s_bad[0][0]}, time index {s_bad[0][1]})",
                      dict(kind="S-on-code", spec="coq/Spec/IsdSpec.v leaves_spec", first=replay(s_bad[0]), count=len(s_bad)))
    if cached_bad:
        k, t, la, lb = cached_bad[0]
        run.violation(f"the snapshot computed with the significant-times object shows other text than the one computed without (document {k}, t={t}; {len(cached_bad)} of {n_cached} pairs)",
                      dict(kind="S-on-code", spec="same leaves per region with and without SignificantTimes", document=L.doc_lit(docs[k][0]), time=str(t),
                           without=la, with_sig_times=lb, count=len(cached_bad)))
    if (m_bad or broken or not proofs_ok or not_wf) and not s_bad:
        what = []
        if not_wf: what.append(f"Spec/DocWf.v doc_wf is false of {len(not_wf)} documents built through the model API (first: document {sorted(not_wf)[0]}): the hypothesis of C01_snapshot is not what the API enforces")
        if not proofs_ok: what.append("theorems of coq/Properties/C01.v no longer check: " + getattr(run, "proof_log", "")[-500:])
        if m_bad: what.append(f"correspondence Model/Isd.v vs ISD.from_model disagrees on {len(m_bad)} snapshots")
        if broken: what.append(f"case files did not evaluate: {broken[0]}")
        run.violation("; ".join(what), dict(kind="broken-tie", theorem_file="coq/Properties/C01.v", proofs_ok=proofs_ok,
                                            correspondence="Model/Isd.v isd vs ttconv.isd.ISD.from_model",
                                            first=replay(m_bad[0]) if m_bad else None), found_input=False)
    run.cov.update(cached_pairs_compared=n_cached, evaluations=nq, distinct_nontrivial=len(distinct),
                   rule="random well-formed documents (0-3 timed regions, body/div/div/p/span/br/text and the four ruby patterns, "
                        "region references at any level, display specified/animated/initial, xml:space) x query times = every absolute "
                        "begin/end computed by the harness from raw offsets, each -/+ 1 ms, midpoints, 0 and last+1 (sampled down); every 4th "
                        "document additionally as a deep copy that was snapshotted, then edited 1-2 times through the model API (timing of any "
                        "element, children, initial values, text, region) and snapshotted again: judged against M and S of the edited document. "
                        "distinct_nontrivial = snapshots that contain text and differ from the snapshot at the previous query time.",
                   samples=[dict(document=L.doc_lit(docs[0][0])[:1500], times=[str(t) for t in docs[0][1]][:8])],
                   documents=ndocs, documents_edited_between_snapshots=n_edited, snapshots_with_text=n_nonempty, snapshots_raising=n_err,
                   elements_per_document=dict(min=min(sizes), max=max(sizes), mean=round(sum(sizes) / len(sizes), 1)),
                   documents_outside_doc_wf=len(not_wf), model_code_mismatches=len(m_bad), s_failures_on_code=len(s_bad))
    run.assumptions += ["documents are well formed: Spec/DocWf.v doc_wf, evaluated on every generated document (C15 covers how ill-formed ones arise); region identity is modelled by id",
                        "rational numbers inside style values are compared with relative tolerance 1e-9 (binary floating point in the code)"]
    return run.finish(["harness/isdlit.py (Python objects -> Gallina literals)", "harness/gen_core.py (style tables translator)"])


if __name__ == "__main__":
    sys.exit(main())
