"""Random canonical-model documents for the C05 check (extends design-probes/docgen.py): every element kind incl. ruby
delimiters, every style property in every value form (special values none/normal/transparent, 1-3 shadows, emphasis with and
without colour, ruby reserve with and without length, all length units and number types), animation steps, timed regions,
initial values, xml:space / xml:lang variation.  Also: Gallina literals of style values (Model/ImscWrite.v sval)."""
import random
from fractions import Fraction as F
import common as C


def mods():
    import ttconv.model as m, ttconv.style_properties as s
    return m, s


# ---------------------------------------------------------------------------------------------------- values
class ValueGen:
    def __init__(self, rng, p_finding=0.03):
        self.rng = rng; self.pf = p_finding
        self.m, self.s = mods()

    def color(self):
        s = self.s; rng = self.rng
        r = rng.random()
        if r < 0.3: return rng.choice(list(s.NamedColors)).value
        if r < 0.4: return s.ColorType((0, 0, 0, 0))
        a = rng.choice([255, 255, 255, 0, 128, rng.randrange(256)])
        return s.ColorType((rng.randrange(256), rng.randrange(256), rng.randrange(256), a))

    def number(self, signed=False, allow_exp=None):
        """a length magnitude in every number type; magnitudes that format(x, "g") writes in exponent notation (the repaired finding
        g-exponent) are part of the ordinary stream"""
        rng = self.rng
        if allow_exp is None: allow_exp = rng.random() < 0.08
        r = rng.random()
        if r < 0.25: v = rng.choice([0, 1, 2, 5, 10, 50, 80, 100, 12, 640])
        elif r < 0.5: v = rng.choice([0.5, 1.5, 2.25, 12.5, 0.1, 33.333333333, 99.99995, 0.000123456, 66.6666666, 100.0, 1.0, 0.30000000000000004, 123456.5, 999999.5 if allow_exp else 99999.95])
        elif r < 0.65: v = round(rng.uniform(0, 100), rng.choice([0, 1, 2, 3, 6, 9]))
        elif r < 0.8: v = F(rng.randrange(0, 2000), rng.choice([1, 2, 3, 4, 7, 8, 9, 16, 1001]))
        elif r < 0.9: v = rng.uniform(0, 1) * 10 ** rng.randint(-4, 5)
        else: v = rng.choice([F(1, 3), F(2, 3), F(1, 8), 7, 0.0, 1e-4, 123456.4999])
        if allow_exp and rng.random() < 0.7:
            v = rng.choice([1234567, 1e-5, 0.00001234, 1e6, 12345678.9, F(1, 30000), 999999.5, 2500000])
        if signed and v != 0 and rng.random() < 0.3: v = -v      # -0.0 has no rational counterpart
        return v

    def length(self, units, signed=False, allow_exp=None):
        s = self.s
        return s.LengthType(self.number(signed, allow_exp), self.rng.choice(units))

    def value(self, prop):
        """a random valid value of the model style property `prop`; may carry a finding trigger with probability p_finding"""
        s = self.s; rng = self.rng; SP = s.StyleProperties; U = s.LengthType.Units
        anyu = list(U); hu = [U.pct, U.px, U.c, U.rw]; vu = [U.pct, U.px, U.c, U.rh]
        trig = rng.random() < self.pf
        if prop in (SP.BackgroundColor, SP.Color): return self.color()
        enums = {SP.Direction: s.DirectionType, SP.Display: s.DisplayType, SP.DisplayAlign: s.DisplayAlignType, SP.FontStyle: s.FontStyleType,
                 SP.FontWeight: s.FontWeightType, SP.MultiRowAlign: s.MultiRowAlignType, SP.Overflow: s.OverflowType, SP.RubyAlign: s.RubyAlignType,
                 SP.RubyPosition: s.AnnotationPositionType, SP.ShowBackground: s.ShowBackgroundType, SP.TextAlign: s.TextAlignType,
                 SP.TextCombine: s.TextCombineType, SP.UnicodeBidi: s.UnicodeBidiType, SP.Visibility: s.VisibilityType,
                 SP.WrapOption: s.WrapOptionType, SP.WritingMode: s.WritingModeType}
        if prop in enums: return rng.choice(list(enums[prop]))
        if prop in (SP.FontSize, SP.Disparity): return self.length(anyu, signed=prop is SP.Disparity)
        if prop is SP.LineHeight: return s.SpecialValues.normal if rng.random() < 0.3 else self.length(anyu)
        if prop is SP.LinePadding: return self.length([U.rh, U.rw] if trig else [U.c])
        if prop is SP.Extent: return s.ExtentType(height=self.length(vu), width=self.length(hu))
        if prop is SP.Origin: return s.CoordinateType(x=self.length(hu, True), y=self.length(vu, True))
        if prop is SP.Padding: return s.PaddingType(*(self.length(anyu) for _ in range(4)))
        if prop is SP.Position:
            return s.PositionType(self.length(hu, True), self.length(vu, True), rng.choice(list(s.PositionType.HEdge)), rng.choice(list(s.PositionType.VEdge)))
        if prop is SP.FillLineGap: return rng.random() < 0.5
        if prop is SP.FontFamily:
            names = ["Arial", "Times New Roman", "x\"y", "a,b", " lead", "serif", "日本語", "sansSerif", "a\\b", "c:\\fonts\\x y", "back\\\"quote", "it's"]
            if trig: names = [""]            # finding fontfamily-empty: an empty name, or no family at all
            fams = []
            for _ in range(rng.randint(0 if trig else 1, 3)):
                fams.append(rng.choice(list(s.GenericFontFamilyType)) if rng.random() < 0.5 else rng.choice(names))
            return tuple(fams)
        if prop in (SP.Opacity, SP.LuminanceGain):
            pool = [0, 1, 0.5, 1.0, 0.25, 0.75, 0.0, 2, 0.125, 1e-7, 0.1, 0.3333333333333333, F(3, 4), F(1, 3), F(2, 7), 1e-5, 0.00012345, 3, F(5, 1)]
            return rng.choice(pool)
        if prop is SP.Shear:
            pool = [0, 0.0, 12.5, -100, 100, 50, 16.6667, -33.3, 1, 99.5, F(3, 4), F(-50, 3), 1e-7, 2.5e-5, 33, F(100, 7)]
            if trig: pool = [250, -120.5, F(1001, 10)]       # finding shear-clamped
            return rng.choice(pool)
        if prop is SP.TextDecoration:
            o = lambda: rng.choice([None, True, False])
            return s.TextDecorationType(underline=o(), line_through=o(), overline=o())
        if prop is SP.TextEmphasis:
            if rng.random() < 0.15: return s.SpecialValues.none
            return s.TextEmphasisType(rng.choice(list(s.TextEmphasisType.Style)), self.color() if rng.random() < 0.5 else None,
                                      rng.choice(list(s.TextEmphasisType.Position)))
        if prop is SP.TextOutline:
            if rng.random() < 0.25: return s.SpecialValues.none
            return s.TextOutlineType(self.length(anyu), self.color() if rng.random() < 0.5 else None)
        if prop is SP.TextShadow:
            if rng.random() < 0.15: return s.SpecialValues.none
            sh = []
            for _ in range(rng.randint(1, 3)):
                sh.append(s.TextShadowType.Shadow(self.length(anyu, True), self.length(anyu, True),
                                                  self.length(anyu) if rng.random() < 0.5 else None, self.color() if rng.random() < 0.5 else None))
            return s.TextShadowType(tuple(sh))
        if prop is SP.RubyReserve:
            if rng.random() < 0.15: return s.SpecialValues.none
            return s.RubyReserveType(rng.choice(list(s.RubyReserveType.Position)), self.length(anyu) if rng.random() < 0.5 else None)
        raise ValueError(f"no generator for {prop}")


# ---------------------------------------------------------------------------------------------------- literals
def prop_names():
    import ttconv.style_properties as s
    return sorted(p.__name__ for p in s.StyleProperties.ALL)


def qexact(x):
    """the rational a Python number denotes (floats: their exact binary value)"""
    if isinstance(x, bool): raise ValueError("bool is not a number here")
    return F(x)


def qrepr(x):
    """the decimal a float was read from (repr is exact for the <= 15 digits that occur)"""
    if isinstance(x, float): return F(repr(x))
    return F(x)


def len_lit(l, conv=qexact):
    import ttconv.style_properties as s
    return f"(L {C.q(conv(l.value))} {list(s.LengthType.Units).index(l.units)})"


def color_lit(c):
    r, g, b, a = c.components
    return f"({C.z(r)},{C.z(g)},{C.z(b)},{C.z(a)})"


def sval_lit(prop, v, conv=qexact):
    """Model/ImscWrite.v sval literal of a model style value; None when the value form is outside the model (float numbers)"""
    import ttconv.style_properties as s, enum
    SP = s.StyleProperties
    L = lambda x: len_lit(x, conv)
    if v is s.SpecialValues.none: return "SNone"
    if v is s.SpecialValues.normal: return "SNormal"
    if isinstance(v, s.ColorType): return f"(SColor {color_lit(v)})"
    if isinstance(v, bool): return f"(SBool {C.boolean(v)})"
    if isinstance(v, enum.Enum): return f"(SEnum {list(type(v)).index(v)})"
    if isinstance(v, s.LengthType): return f"(SLen {L(v)})"
    if isinstance(v, s.ExtentType): return f"(SExtent {L(v.width)} {L(v.height)})"
    if isinstance(v, s.CoordinateType): return f"(SOrigin {L(v.x)} {L(v.y)})"
    if isinstance(v, s.PaddingType): return f"(SPadding {L(v.before)} {L(v.end)} {L(v.after)} {L(v.start)})"
    if isinstance(v, s.PositionType):
        return f"(SPosition {list(s.PositionType.HEdge).index(v.h_edge)} {L(v.h_offset)} {list(s.PositionType.VEdge).index(v.v_edge)} {L(v.v_offset)})"
    if isinstance(v, s.TextDecorationType):
        o = lambda x: C.opt(x, C.boolean)
        return f"(STextDec {o(v.underline)} {o(v.line_through)} {o(v.overline)})"
    if isinstance(v, s.TextEmphasisType):
        return f"(SEmph {list(s.TextEmphasisType.Style).index(v.style)} {C.opt(v.color, color_lit)} {list(s.TextEmphasisType.Position).index(v.position)})"
    if isinstance(v, s.TextOutlineType): return f"(SOutline {C.opt(v.color, color_lit)} {L(v.thickness)})"
    if isinstance(v, s.TextShadowType):
        return "(SShadows [" + ";".join(f"({L(x.x_offset)},{L(x.y_offset)},{C.opt(x.blur_radius, L)},{C.opt(x.color, color_lit)})" for x in v.shadows) + "])"
    if isinstance(v, s.RubyReserveType):
        return f"(SReserve {list(s.RubyReserveType.Position).index(v.position)} {C.opt(v.length, L)})"
    if isinstance(v, tuple):
        return "(SFonts [" + ";".join(f"(true,{C.text(x.value)})" if isinstance(x, s.GenericFontFamilyType) else f"(false,{C.text(x)})" for x in v) + "])"
    if isinstance(v, int): return f"(SInt {C.z(v)})"
    if isinstance(v, F): return f"(SInt {C.z(v.numerator)})" if v.denominator == 1 else f"(SFrac {C.q(v)})"
    if isinstance(v, float):
        # written: the rational the float denotes (format(x, "g") of both is the same); read: the decimal it was read from
        x = F(repr(v)) if conv is qrepr else F(v)
        return f"(SInt {C.z(x.numerator)})" if x.denominator == 1 and conv is not qrepr else f"(SFrac {C.q(x)})"
    raise ValueError(f"no literal for {v!r}")


# ---------------------------------------------------------------------------------------------------- documents
class ModelDocGen:
    """canonical documents.  `unit`: all times are multiples of this Fraction (representable in the chosen syntax) unless
    `exact` is False, in which case arbitrary rationals also occur."""
    def __init__(self, rng, unit=F(1, 4), exact=True, p_finding=0.02, p_style=0.25):
        self.rng = rng; self.unit = unit; self.exact = exact; self.pf = p_finding; self.p_style = p_style
        self.m, self.s = mods(); self.vg = ValueGen(rng, p_finding if p_finding > 0 else 0.0)
        self.ntext = 0; self.p_big = rng.choice([0, 0, 0.05, 0.3]); self.big_times = 0
        self.props = sorted(self.s.StyleProperties.ALL, key=lambda p: p.__name__)

    def time(self, hi):
        rng = self.rng
        # times of a day and more (24 h .. 150 h): a wrap or a fixed width of the hours field shows as a concrete failing document
        big = rng.choice([24, 25, 47, 99, 100, 101, 150]) * 3600 if rng.random() < self.p_big else 0
        if not self.exact and rng.random() < 0.5:
            return big + F(rng.randrange(0, hi * 1000), rng.choice([3, 7, 9, 11, 13, 1001, 30000, 1000, 24]))
        k = int(hi / self.unit)
        return (rng.randint(0, max(1, min(k, 4000))) + (int(big / self.unit) if big else 0)) * self.unit

    def timing(self, e, hi_b=6, hi_e=14):
        rng = self.rng
        if rng.random() < 0.45: e.set_begin(self.time(hi_b))
        if rng.random() < 0.45: e.set_end(self.time(hi_e))
        if self.pf and rng.random() < self.pf / 4: e.set_begin(F(-1))

    def styles(self, e, n=None):
        rng = self.rng
        if n is None:
            n = 0
            while rng.random() < self.p_style and n < 6: n += 1
        for p in rng.sample(self.props, n):
            e.set_style(p, self.vg.value(p))
        if rng.random() < 0.12:
            for _ in range(rng.randint(1, 2)):
                p = rng.choice(self.props)
                b = self.time(6) if rng.random() < 0.7 else None
                en = self.time(10) if rng.random() < 0.7 else None
                e.add_animation_step(self.m.DiscreteAnimationStep(p, b, en, self.vg.value(p)))

    def common(self, e, regs):
        rng = self.rng; m = self.m
        self.timing(e)
        if regs and rng.random() < 0.3: e.set_region(rng.choice(regs))
        if rng.random() < 0.12: e.set_space(rng.choice(list(m.WhiteSpaceHandling)))
        e.set_lang(rng.choice(["fr", "de"]) if (self.pf and rng.random() < self.pf) else self.lang)
        if rng.random() < 0.08: e.set_id(f"e{rng.randrange(1000)}")
        self.styles(e)

    def text(self, parent):
        self.ntext += 1
        parent.push_child(self.m.Text(parent.get_doc(), self.rng.choice(["T%d", " T%d ", "T%d  x", "a & <b> T%d", "  ", "T%d\n"]) .replace("%d", str(self.ntext))))

    def span(self, d, regs, depth):
        m = self.m; rng = self.rng
        e = m.Span(d); self.common(e, regs)
        last_text = False
        for _ in range(rng.randint(0, 3)):
            k = rng.random()
            if k < 0.55:
                if last_text and rng.random() < 0.5: continue     # adjacent Text children (the repaired finding adjacent-text) are ordinary
                self.text(e); last_text = True
            elif k < 0.7: br = m.Br(d); br.set_lang(self.lang); e.push_child(br); last_text = False
            elif depth < 3: e.push_child(self.span(d, regs, depth + 1)); last_text = False
        return e

    def rspan(self, d, cls):
        e = cls(d); e.set_lang(self.lang)
        if self.rng.random() < 0.2: self.styles(e, 1)
        sp = self.m.Span(d); sp.set_lang(self.lang); self.text(sp); e.push_child(sp)
        return e

    def ruby(self, d, regs):
        m = self.m; rng = self.rng
        e = m.Ruby(d); e.set_lang(self.lang)
        if rng.random() < 0.3: self.timing(e)
        if rng.random() < 0.2: self.styles(e, 1)
        shape = rng.choice(["bt", "bptp", "cc", "ccc"])
        if shape == "bt": kids = [self.rspan(d, m.Rb), self.rspan(d, m.Rt)]
        elif shape == "bptp": kids = [self.rspan(d, m.Rb), self.rspan(d, m.Rp), self.rspan(d, m.Rt), self.rspan(d, m.Rp)]
        else:
            bc = m.Rbc(d); bc.set_lang(self.lang)
            for _ in range(rng.randint(1, 2)): bc.push_child(self.rspan(d, m.Rb))
            kids = [bc]
            for _ in range(1 if shape == "cc" else 2):
                tc = m.Rtc(d); tc.set_lang(self.lang)
                if rng.random() < 0.3: tc.push_children([self.rspan(d, m.Rp), self.rspan(d, m.Rt), self.rspan(d, m.Rp)])
                else: tc.push_children([self.rspan(d, m.Rt) for _ in range(rng.randint(1, 2))])
                kids.append(tc)
        e.push_children(kids)
        return e

    def document(self):
        m = self.m; s = self.s; rng = self.rng
        d = m.ContentDocument()
        if rng.random() < 0.85: d.set_lang(rng.choice(["en", "ja", "en-US"]))
        self.lang = d.get_lang()
        if rng.random() < 0.3: d.set_cell_resolution(m.CellResolutionType(rows=rng.choice([15, 20, 24]), columns=rng.choice([32, 40, 80])))
        if rng.random() < 0.3: d.set_px_resolution(m.PixelResolutionType(rng.choice([640, 1920]), rng.choice([480, 1080])))
        if rng.random() < 0.2:
            d.set_active_area(m.ActiveAreaType(rng.choice([0, 0.1, F(1, 8), 0.125]), rng.choice([0, 0.1, 0.05]), rng.choice([0.8, 0.5, F(3, 4)]), rng.choice([0.8, 0.75, 0.9])))
        if rng.random() < 0.25: d.set_display_aspect_ratio(rng.choice([F(16, 9), F(4, 3), F(2)]))
        for _ in range(rng.choice([0, 0, 0, 1, 2])):
            p = rng.choice(self.props); d.put_initial_value(p, self.vg.value(p))
        regs = []
        for i in range(rng.choice([0, 1, 1, 2, 3])):
            r = m.Region(f"r{i}", d); r.set_lang(self.lang)
            if rng.random() < 0.4: r.set_begin(self.time(4))
            if rng.random() < 0.4: r.set_end(self.time(14))
            if rng.random() < 0.1: r.set_space(m.WhiteSpaceHandling.PRESERVE)
            if rng.random() < 0.6: r.set_style(s.StyleProperties.ShowBackground, rng.choice(list(s.ShowBackgroundType)))
            self.styles(r); d.put_region(r); regs.append(r)
        if rng.random() < 0.04: return d
        b = m.Body(d); self.common(b, regs)
        def p_():
            e = m.P(d); self.common(e, regs)
            for _ in range(rng.randint(0, 3)):
                k = rng.random()
                if k < 0.65: e.push_child(self.span(d, regs, 0))
                elif k < 0.8: br = m.Br(d); br.set_lang(self.lang); e.push_child(br)
                else: e.push_child(self.ruby(d, regs))
            return e
        def div(depth):
            e = m.Div(d); self.common(e, regs)
            for _ in range(rng.randint(0, 3)):
                if depth < 2 and rng.random() < 0.25: e.push_child(div(depth + 1))
                else: e.push_child(p_())
            return e
        for _ in range(rng.randint(0, 3)): b.push_child(div(0))
        d.set_body(b)
        return d


# ---------------------------------------------------------------------------------------------------- the writer's input as a literal
WKINDS = {"Body": "KBody", "Div": "KDiv", "P": "KP", "Span": "KSpan", "Ruby": "KRuby", "Rb": "KRb", "Rt": "KRt", "Rp": "KRp",
          "Rbc": "KRbc", "Rtc": "KRtc", "Br": "KBr", "Region": "KRegion"}


def wnode_lit(e, names):
    """Model/ImscWriteTree.v wnode literal of a model element as the IMSC writer reads it"""
    import ttconv.model as m
    if isinstance(e, m.Text): return f"(WT {C.text(e.get_text())})"
    k = WKINDS[type(e).__name__]
    b, en = (None, None) if isinstance(e, m.Br) else (e.get_begin(), e.get_end())
    reg = None if isinstance(e, (m.Region, m.Br)) or e.get_region() is None else e.get_region().get_id()
    styles = "[" + ";".join(f"({names.index(p.__name__)},{sval_lit(p, e.get_style(p))})" for p in e.iter_styles()) + "]"
    anims = "[" + ";".join(f"({names.index(a.style_property.__name__)},{sval_lit(a.style_property, a.value)},{C.opt(a.begin, C.q)},{C.opt(a.end, C.q)})"
                           for a in e.iter_animation_steps()) + "]"
    kids = "[" + ";".join(wnode_lit(c, names) for c in e) + "]"
    return (f"(W {k} {C.opt(e.get_id(), C.text)} {C.opt(b, C.q)} {C.opt(en, C.q)} {C.boolean(e.get_space().value == 'preserve')} "
            f"{C.opt(reg, C.text)} {styles} {anims} {kids})")


def wdoc_lit(doc):
    names = prop_names()
    cr = doc.get_cell_resolution(); px = doc.get_px_resolution(); aa = doc.get_active_area(); dar = doc.get_display_aspect_ratio()
    pair = lambda a, b: f"({C.z(a)},{C.z(b)})"
    return ("(mkWdoc " + C.text(doc.get_lang()) + " " + pair(cr.columns, cr.rows) + " " + C.opt(px, lambda p: pair(p.width, p.height)) + " "
            + C.opt(aa, lambda a: "(" + ",".join(C.q(F(x)) for x in (a.left_offset, a.top_offset, a.width, a.height)) + ")") + " "
            + C.opt(dar, lambda d: pair(F(d).numerator, F(d).denominator)) + " "
            + "[" + ";".join(f"({names.index(p.__name__)},{sval_lit(p, v)})" for p, v in doc.iter_initial_values()) + "] "
            + "[" + ";".join(wnode_lit(r, names) for r in doc.iter_regions()) + "] "
            + C.opt(doc.get_body(), lambda b: wnode_lit(b, names)) + ")")
