"""C14 witnesses of recorded findings (expected to fail while the defect is there; registered under the finding id so that
the check prints KNOWN-FINDING for them).  The witnesses of the two repaired C14 defects are in witnesses.py."""
from fractions import Fraction as F
from witnesses import witness


def _ruby_doc(container):
    import ttconv.model as m
    d = m.ContentDocument()
    r1 = m.Region("r1", d); d.put_region(r1); r2 = m.Region("r2", d); d.put_region(r2)
    b = m.Body(d); d.set_body(b); dv = m.Div(d); b.push_child(dv); p = m.P(d); dv.push_child(p)
    ruby = m.Ruby(d)
    rb = m.Rb(d); sp = m.Span(d); sp.set_region(r2); sp.push_child(m.Text(d, "base")); rb.push_child(sp)
    rt = m.Rt(d)
    for r in (r1, r2):
        sp2 = m.Span(d); sp2.set_region(r); sp2.push_child(m.Text(d, "anno")); rt.push_child(sp2)
    if container:
        rbc = m.Rbc(d); rbc.push_child(rb); rtc = m.Rtc(d); rtc.push_children([rt]); ruby.push_children([rbc, rtc])
    else:
        ruby.push_children([rb, rt])
    p.push_child(ruby)
    return d


def _shape(e):
    return (type(e).__name__, tuple(_shape(c) for c in e))


@witness("C14", "ruby-base-emptied-by-region")
def _():
    from ttconv.isd import ISD
    out = []
    # (1) <ruby><rb><span region=r2/></rb><rt><span region=r1/><span region=r2/></rt></ruby>
    d = _ruby_doc(False); st = ISD.significant_times(d)
    plain = ISD.from_model(d, F(0))
    try:
        ISD.from_model(d, F(0), st)
    except ValueError as e:
        out.append(f"from_model(doc, 0) returns a snapshot with {len(list(plain.iter_regions()))} regions, from_model(doc, 0, sig_times) raises ValueError ({e})")
    # (2) the same inside rbc/rtc
    d = _ruby_doc(True); st = ISD.significant_times(d)
    a = [_shape(r) for r in ISD.from_model(d, F(0)).iter_regions()]; c = [_shape(r) for r in ISD.from_model(d, F(0), st).iter_regions()]
    if a != c: out.append("with rbc/rtc both return a snapshot but region r1 of the cached one lacks the empty <rb>")
    return "; ".join(out) or None


# Not a witness (outside the property: the histories C14 quantifies over do not modify the document); kept as a runnable observation.
def observation_stale_cache_after_mutation():
    import ttconv.model as m
    from ttconv.isd import ISD

    def texts(i):
        return [(r.get_id(), e.get_text()) for r in i.iter_regions() for e in r.dfs_iterator() if isinstance(e, m.Text)]
    out = []
    for nreg in (1, 2):
        d = m.ContentDocument(); regs = []
        for k in range(nreg):
            r = m.Region("r%d" % (k + 1), d); d.put_region(r); regs.append(r)
        b = m.Body(d); d.set_body(b); dv = m.Div(d); b.push_child(dv); p = m.P(d); dv.push_child(p); p.set_region(regs[0])
        p.set_begin(F(0)); p.set_end(F(2)); sp = m.Span(d); p.push_child(sp); t = m.Text(d, "old"); sp.push_child(t)
        st = ISD.significant_times(d)
        t.set_text("new"); p.set_begin(F(5)); p.set_end(F(7))          # the document changes through the model API
        want = texts(ISD.from_model(d, F(1))); got = texts(ISD.from_model(d, F(1), st))
        if want != got: out.append(f"{nreg} region(s): at t=1 the document shows {want}, from_model with the earlier SignificantTimes object shows {got}")
    return "; ".join(out) or None
