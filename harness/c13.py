"""C13 — every snapshot satisfies the documented ISD shape.  Theorems: coq/Properties/C13.v.
Tie: M (Model/Isd.v) against ISD.from_model on style-heavy documents (every property, every unit, every element
kind); S (Spec/IsdShape.v, one boolean per clause) is evaluated in Coq on the implementation's snapshots; the
document parameters of the snapshot are compared with the source's here."""
import logging, sys
import common as C
import isdlit as L
import docgen, isdcore, gen_tables

HEADER = ("From TT Require Import Model.Doc Gen.StyleTables Model.Isd Model.IsdCases Spec.IsdShape Model.IsdShapeCases.\n"
          "Open Scope Z_scope.\n")
CLAUSES = ["no begin/end", "no animation steps", "no region references", "content model / regions hold one body",
           "style keys = applicable set", "all lengths rh/rw", "origin = position", "no display:none",
           "no empty text / childless span", "white space collapsed", "empty regions only with showBackground=always"]


def main():
    run = C.Run("C13", "proof")
    run.hygiene()
    sys.path.insert(0, C.SRC)
    changed, errors = gen_tables.generate({"StyleTables"})
    if errors:
        run.violation("table translator failed closed: " + "; ".join(errors), dict(kind="translator", errors=errors), False)
        return run.finish()
    ok, log = run.build(["Proofs/C13/OriginPosition.vo", "Model/IsdShapeCases.vo"], clean=(run.tier == "thorough"))
    proofs_ok = ok and run.theorems()
    if not ok: run.proof_log = log[-2500:]
    run.witnesses()
    logging.disable(logging.CRITICAL)
    from ttconv.isd import ISD

    ndocs = 240 if run.tier == "quick" else 5000
    rng = run.rng
    blocks, docs, nq, n_err, param_fail, seq_checked = [], {}, 0, 0, [], 0
    nclauses = len(CLAUSES)
    for k in range(ndocs):
        g = docgen.Gen(rng, style_density=(0.12 if k % 2 else 0.25), anim_density=0.03, display_p=0.04, ruby_p=0.2, region_ref_p=0.25)
        d = g.doc()
        qs = docgen.query_times(rng, d, 8 if run.tier == "quick" else 14)
        items = []
        for t in qs:
            lit, obj = isdcore.snapshot(d, t)
            items.append(f"({L.qlit(t)}, {'None' if lit is None else '(Some ' + lit + ')'})")
            if lit is None: n_err += 1; continue
            # document parameters equal the source's (C13 clause, checked on the Python objects)
            same = (obj.get_lang() == d.get_lang() and obj.get_cell_resolution() == d.get_cell_resolution() and
                    obj.get_px_resolution() == d.get_px_resolution() and obj.get_active_area() == d.get_active_area() and
                    obj.get_display_aspect_ratio() == d.get_display_aspect_ratio())
            owned = all(e.get_doc() is obj for r in obj.iter_regions() for e in r.dfs_iterator())
            if not same: param_fail.append((k, str(t), "document parameters differ from the source"))
            if not owned: param_fail.append((k, str(t), "an element of the snapshot is not owned by the snapshot"))
        nq += len(qs); docs[k] = (d, qs)
        defs = f"Definition d{k} := {L.doc_lit(d)}.\nDefinition q{k} : list (Q * option (list elem)) := [{'; '.join(items)}]."
        slots = [f"cases_isd d{k} q{k}"] + [f"cases_clause {i} [p_Disparity] true q{k}" for i in range(nclauses)] + \
                [f"cases_clause 5 [] true q{k}", f"cases_clause 9 [p_Disparity] false q{k}"]
        blocks.append((k, defs, slots, [len(qs)] * len(slots)))
    files = isdcore.write_shards("Cases_C13_", HEADER, blocks)
    bad, broken = isdcore.eval_shards(files)
    C.clean_cases("Cases_C13_")
    m_bad = bad.get(0, [])
    clause_bad = {i: bad.get(1 + i, []) for i in range(nclauses)}
    strict_units = bad.get(1 + nclauses, []); strict_ws = bad.get(2 + nclauses, [])
    n_sbad = sum(len(v) for v in clause_bad.values())
    run.log(f"{ndocs} documents, {nq} snapshots ({n_err} raised): model/code mismatches {len(m_bad)}, shape failures outside findings {n_sbad}, "
            f"strict-unit failures {len(strict_units)}, strict white-space failures {len(strict_ws)}, parameter failures {len(param_fail)}, broken {len(broken)}")
    if strict_units: run.known("disparity-not-computed", f"{len(strict_units)} snapshots carry a tts:disparity length that is not in rh/rw")
    ws_only = [c for c in strict_ws if c not in clause_bad[9]]
    if ws_only: run.known("rp-whitespace-not-collapsed", f"{len(ws_only)} snapshots")

    def replay(case):
        k, i = case; d, qs = docs[k]
        lit, obj = isdcore.snapshot(d, qs[i])
        return dict(document=L.doc_lit(d), time=str(qs[i]), implementation_snapshot=lit if lit else repr(obj))
    first = None
    for i in range(nclauses):
        if clause_bad[i]:
            first = (i, clause_bad[i][0]); break
    if first:
        run.violation(f"snapshot violates the ISD shape clause '{CLAUSES[first[0]]}' (document {first[1][0]}, time index {first[1][1]})",
                      dict(kind="S-on-code", clause=CLAUSES[first[0]], spec="coq/Spec/IsdShape.v", first=replay(first[1]),
                           counts={CLAUSES[i]: len(v) for i, v in clause_bad.items() if v}))
    if param_fail:
        k, t, what = param_fail[0]
        run.violation(f"{what} (document {k}, t={t})", dict(kind="S-on-code", clause=what, document=L.doc_lit(docs[k][0]), time=t))
    if (m_bad or broken or not proofs_ok) and not (first or param_fail):
        what = []
        if not proofs_ok: what.append("theorems of coq/Properties/C13.v no longer check: " + getattr(run, "proof_log", "")[-500:])
        if m_bad: what.append(f"correspondence Model/Isd.v vs ISD.from_model disagrees on {len(m_bad)} snapshots")
        if broken: what.append(f"case files did not evaluate: {broken[0]}")
        run.violation("; ".join(what), dict(kind="broken-tie", theorem_file="coq/Properties/C13.v", proofs_ok=proofs_ok,
                                            correspondence="Model/Isd.v isd vs ttconv.isd.ISD.from_model",
                                            first=replay(m_bad[0]) if m_bad else None), found_input=False)
    run.cov.update(evaluations=nq, distinct_nontrivial=nq - n_err,
                   rule="style-heavy random documents (every style property in every unit on every element kind incl. ruby, initial values, "
                        "animation) x boundary/epsilon/midpoint query times; each snapshot is compared with M and judged clause by clause by "
                        "the shape checker in Coq. distinct_nontrivial = snapshots produced (not raising).",
                   samples=[dict(document=L.doc_lit(docs[0][0])[:1500], times=[str(t) for t in docs[0][1]])],
                   documents=ndocs, snapshots_raising=n_err, clause_failures={CLAUSES[i]: len(v) for i, v in clause_bad.items()},
                   model_code_mismatches=len(m_bad))
    run.assumptions += ["well-formed documents only", "rational numbers inside style values compared with relative tolerance 1e-9"]
    return run.finish(["harness/isdlit.py", "harness/gen_core.py"])


if __name__ == "__main__":
    sys.exit(main())
