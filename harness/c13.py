"""C13 — every snapshot satisfies the documented ISD shape.  Theorems: coq/Properties/C13.v (all eleven clauses of
Spec/IsdShape.v for every document satisfying doc_wf and every time, no exception).
Tie: M (Model/Isd.v) against ISD.from_model on style-heavy documents (every property, every unit, every element
kind) and on documents built to exercise white-space handling, span pruning and ruby containers; S (one boolean per
clause, strict: no property and no element excused) is evaluated in Coq on the implementation's snapshots; the
hypothesis of the theorems (doc_wf) is evaluated in Coq on every generated source document; the document parameters
and the ownership of the snapshot's objects are compared with the source's here."""
import logging, re, sys
import common as C
import isdlit as L
import docgen, isdcore, gen_tables

HEADER = ("From TT Require Import Model.Doc Gen.StyleTables Model.Isd Model.IsdCases Spec.IsdShape Model.IsdShapeCases.\n"
          "Open Scope Z_scope.\n")
CLAUSES = ["no begin/end", "no animation steps", "no region references", "content model / regions hold one body",
           "style keys = applicable set", "all lengths rh/rw", "origin = position", "no display:none",
           "no empty text / childless span", "white space collapsed", "empty regions only with showBackground=always"]
WS_ONLY = re.compile(r"^[\t\r\n ]*$")
COLLAPSIBLE = re.compile(r"[\t\r\n]|  |^ | $")


def focused_gen(rng):
    """documents that exercise _prune_empty_spans, _process_lwsp and the ruby containers: white-space-only and empty text
    nodes, spans nested four deep (also below rb / rt / rp) with xml:space alternating along the chain, ruby in half of the
    paragraph children, little timing / display:none / region selection so that the structure reaches the snapshot"""
    import ttconv.model as m

    class Gen13(docgen.Gen):
        WS = [" ", "  ", "\t", "\n", " \r\n ", "\t \n", "", ""]

        def text(self, parent):
            rng = self.rng; r = rng.random(); self.n += 1; k = self.n
            if r < 0.45: t = rng.choice(self.WS)
            elif r < 0.8: t = rng.choice([" \t a%d  \n b " % k, "c%d\t" % k, "\n\nd%d" % k, "  e%d" % k, "f%d  " % k, "g%d" % k, " "])
            else: return docgen.Gen.text(self, parent)
            parent.push_child(m.Text(self.d, t))

        def span(self, depth, allow_nested=True):
            rng = self.rng; e = m.Span(self.d); self.common(e, "s")
            e.set_space(rng.choice([m.WhiteSpaceHandling.PRESERVE, m.WhiteSpaceHandling.DEFAULT, m.WhiteSpaceHandling.DEFAULT]))
            for _ in range(rng.randint(0, 3)):
                k = rng.random()
                if k < 0.45: self.text(e)
                elif k < 0.55:
                    b = m.Br(self.d); b.set_id(self.uid("br")); e.push_child(b)
                elif depth < 4: e.push_child(self.span(depth + 1))
            return e

        def wrap(self, cls, prefix):
            e = docgen.Gen.wrap(self, cls, prefix)
            if self.rng.random() < 0.9:           # keep most ruby children alive: one span with a solid token
                sp = m.Span(self.d); sp.set_id(self.uid("s")); self.n += 1
                sp.push_child(m.Text(self.d, self.rng.choice(["(", ")", " k%d" % self.n, "k%d  " % self.n, " \t(\n", "  m%d \n n " % self.n])))
                e.push_child(sp)
            return e

        def ruby(self):
            # inside most ruby containers nothing is timed, hidden or sent to another region (a ruby child that is pruned makes
            # the whole snapshot raise, recorded under C01/C18), and every rtc has at least one rt
            rng = self.rng; saved = (self.tp, self.dp, self.rrp)
            if rng.random() < 0.85: self.tp = self.dp = self.rrp = 0.0
            try:
                e = m.Ruby(self.d); self.common(e, "ruby")
                pat = rng.randrange(4)
                if pat == 0: cs = [self.wrap(m.Rb, "rb"), self.wrap(m.Rt, "rt")]
                elif pat == 1: cs = [self.wrap(m.Rb, "rb"), self.wrap(m.Rp, "rp"), self.wrap(m.Rt, "rt"), self.wrap(m.Rp, "rp")]
                else:
                    rbc = m.Rbc(self.d); self.common(rbc, "rbc")
                    for _ in range(rng.randint(0, 2)): rbc.push_child(self.wrap(m.Rb, "rb"))
                    def rtc():
                        x = m.Rtc(self.d); self.common(x, "rtc")
                        kids = [self.wrap(m.Rt, "rt") for _ in range(rng.randint(1, 3))]
                        if rng.random() < 0.5: kids = [self.wrap(m.Rp, "rp")] + kids + [self.wrap(m.Rp, "rp")]
                        x.push_children(kids)
                        return x
                    cs = [rbc, rtc()] + ([rtc()] if pat == 3 else [])
                e.push_children(cs)
                return e
            finally:
                self.tp, self.dp, self.rrp = saved

    return Gen13(rng, style_density=0.03, anim_density=0.01, display_p=0.02, ruby_p=0.5, region_ref_p=0.1, timing_p=0.15)


def source_stats(d, acc):
    """input distribution, measured on the source document"""
    import ttconv.model as m
    def texts(e):
        return [x for x in e.dfs_iterator() if isinstance(x, m.Text)]
    def walk(e, chain):
        if isinstance(e, m.Span):
            ts = texts(e)
            if all(WS_ONLY.match(x.get_text()) and x.parent().get_space() is not m.WhiteSpaceHandling.PRESERVE for x in ts):
                acc["spans_that_prune_to_nothing"] += 1
        if isinstance(e, m.Text):
            t = e.get_text()
            spaces = {x.get_space() for x in chain if isinstance(x, m.Span)}
            nspans = sum(isinstance(x, m.Span) for x in chain)
            if t and WS_ONLY.match(t): acc["ws_only_text"] += 1
            if t == "": acc["empty_text"] += 1
            if t and WS_ONLY.match(t) and nspans >= 2 and len(spaces) > 1: acc["ws_only_text_in_nested_spans_mixed_space"] += 1
            if any(isinstance(x, m.Rp) for x in chain) and COLLAPSIBLE.search(t): acc["rp_text_with_collapsible_ws"] += 1
            if any(isinstance(x, (m.Rt, m.Rp, m.Rb)) for x in chain) and nspans >= 2: acc["text_in_nested_span_below_ruby_child"] += 1
        if isinstance(e, m.Ruby): acc["ruby:" + "/".join(type(c).__name__.lower() for c in e)] += 1
        if isinstance(e, m.Rtc): acc["rtc:" + ("rp..rp" if len(e) and isinstance(list(e)[0], m.Rp) else "rt*%d" % min(len(e), 2))] += 1
        for c in e: walk(c, chain + [e])
    if d.get_body() is not None: walk(d.get_body(), [])


def snapshot_stats(obj, acc):
    import ttconv.model as m
    kinds = set()
    for r in obj.iter_regions():
        for e in r.dfs_iterator(): kinds.add(type(e).__name__)
    for k in ("Ruby", "Rp", "Rtc", "Rbc", "Span", "Br"):
        if k in kinds: acc["snapshots_with_" + k.lower()] += 1


def main():
    from collections import Counter
    run = C.Run("C13", "proof")
    run.hygiene()
    sys.path.insert(0, C.SRC)
    changed, errors = gen_tables.generate({"StyleTables"})
    if errors:
        run.violation("table translator failed closed: " + "; ".join(errors), dict(kind="translator", errors=errors), False)
        return run.finish()
    ok, log = run.build(["Proofs/C13/Summary.vo", "Model/IsdShapeCases.vo"], clean=(run.tier == "thorough"))
    proofs_ok = ok and run.theorems()
    if not ok: run.proof_log = log[-2500:]
    run.witnesses()
    logging.disable(logging.CRITICAL)

    nbase, nfocus = (240, 160) if run.tier == "quick" else (5000, 2000)
    ndocs = nbase + nfocus
    rng = run.rng
    blocks, docs, nq, n_err, param_fail = [], {}, 0, 0, []
    n_cached = 0
    src, snap = Counter(), Counter()
    nclauses = len(CLAUSES)
    for k in range(ndocs):
        if k < nbase:
            g = docgen.Gen(rng, style_density=(0.12 if k % 2 else 0.25), anim_density=0.03, display_p=0.04, ruby_p=0.2, region_ref_p=0.25)
        else:
            g = focused_gen(rng)
        d = g.doc()
        source_stats(d, src)
        qs = docgen.query_times(rng, d, (8 if k < nbase else 5) if run.tier == "quick" else (14 if k < nbase else 8))
        items = []
        for t in qs:
            lit, obj = isdcore.snapshot(d, t)
            items.append(f"({L.qlit(t)}, {'None' if lit is None else '(Some ' + lit + ')'})")
            if lit is None: n_err += 1; snap["raised:" + type(obj).__name__] += 1; continue
            snapshot_stats(obj, snap)
            # document parameters equal the source's (C13 clause, checked on the Python objects)
            same = (obj.get_lang() == d.get_lang() and obj.get_cell_resolution() == d.get_cell_resolution() and
                    obj.get_px_resolution() == d.get_px_resolution() and obj.get_active_area() == d.get_active_area() and
                    obj.get_display_aspect_ratio() == d.get_display_aspect_ratio())
            owned = all(e.get_doc() is obj for r in obj.iter_regions() for e in r.dfs_iterator())
            if not same: param_fail.append((k, str(t), "document parameters differ from the source"))
            if not owned: param_fail.append((k, str(t), "an element of the snapshot is not owned by the snapshot"))
        # the same two clauses for snapshots computed WITH the significant-times object, at times before the first significant time,
        # between times and after the last (a snapshot that shows nothing still carries the source's parameters)
        try:
            from ttconv.isd import ISD
            sig = ISD.significant_times(d)
        except Exception:
            sig = None
        if sig is not None:
            st = sorted(sig)
            probes = ([st[0] - 1, st[0] / 2] if st and st[0] > 0 else []) + ([-1] if True else []) + rng.sample(qs, min(3, len(qs))) + ([st[-1] + 1] if st else [])
            for t in probes:
                try:
                    obj = ISD.from_model(d, t, sig)
                except Exception:
                    continue
                n_cached += 1
                same = (obj.get_lang() == d.get_lang() and obj.get_cell_resolution() == d.get_cell_resolution() and
                        obj.get_px_resolution() == d.get_px_resolution() and obj.get_active_area() == d.get_active_area() and
                        obj.get_display_aspect_ratio() == d.get_display_aspect_ratio())
                owned = all(e.get_doc() is obj for r in obj.iter_regions() for e in r.dfs_iterator())
                if not same: param_fail.append((k, str(t), "document parameters of the snapshot computed with the significant-times object differ from the source"))
                if not owned: param_fail.append((k, str(t), "an element of the snapshot computed with the significant-times object is not owned by the snapshot"))
        nq += len(qs); docs[k] = (d, qs)
        defs = f"Definition d{k} := {L.doc_lit(d)}.\nDefinition q{k} : list (Q * option (list elem)) := [{'; '.join(items)}]."
        slots = [f"cases_isd d{k} q{k}"] + [f"cases_clause {i} [] false q{k}" for i in range(nclauses)] + [f"cases_wf d{k}"]
        blocks.append((k, defs, slots, [len(qs)] * (1 + nclauses) + [2]))
    files = isdcore.write_shards("Cases_C13_", HEADER, blocks)
    bad, broken = isdcore.eval_shards(files)
    C.clean_cases("Cases_C13_")
    m_bad = bad.get(0, [])
    clause_bad = {i: bad.get(1 + i, []) for i in range(nclauses)}
    wf_bad = bad.get(1 + nclauses, [])
    n_sbad = sum(len(v) for v in clause_bad.values())
    run.log(f"{ndocs} documents ({nbase} style-heavy, {nfocus} white-space/ruby), {nq} snapshots ({n_err} raised): model/code mismatches {len(m_bad)}, "
            f"shape failures {n_sbad}, documents outside doc_wf {len(wf_bad)}, parameter failures {len(param_fail)}, broken {len(broken)}")
    run.log("  input distribution (source): " + ", ".join(f"{k}={v}" for k, v in sorted(src.items())))
    run.log("  input distribution (snapshots): " + ", ".join(f"{k}={v}" for k, v in sorted(snap.items())))

    def replay(case):
        k, i = case; d, qs = docs[k]
        lit, obj = isdcore.snapshot(d, qs[i])
        return dict(document=L.doc_lit(d), time=str(qs[i]), implementation_snapshot=lit if lit else repr(obj))
    first = None
    for i in range(nclauses):
        if clause_bad[i]:
            first = (i, clause_bad[i][0]); break
    if first:
        run.violation(f"snapshot violates the ISD shape clause '{CLAUSES[first[0]]}' (document {first[1][0]}, time index {first[1][1]})",
                      dict(kind="S-on-code", clause=CLAUSES[first[0]], spec="coq/Spec/IsdShape.v", first=replay(first[1]),
                           counts={CLAUSES[i]: len(v) for i, v in clause_bad.items() if v}))
    if param_fail:
        k, t, what = param_fail[0]
        run.violation(f"{what} (document {k}, t={t})", dict(kind="S-on-code", clause=what, document=L.doc_lit(docs[k][0]), time=t))
    if wf_bad and not (first or param_fail):
        k, which = wf_bad[0]
        run.violation(f"the generator produced a document outside the hypothesis of the C13 theorems ({['doc_content_wf', 'doc_values_wf'][which]}): "
                      f"harness defect, the theorems do not speak about this input (document {k})",
                      dict(kind="generator", hypothesis=["doc_content_wf", "doc_values_wf"][which], spec="coq/Spec/IsdShape.v",
                           document=L.doc_lit(docs[k][0])), found_input=False)
    if (m_bad or broken or not proofs_ok) and not (first or param_fail):
        what = []
        if not proofs_ok: what.append("theorems of coq/Properties/C13.v no longer check: " + getattr(run, "proof_log", "")[-500:])
        if m_bad: what.append(f"correspondence Model/Isd.v vs ISD.from_model disagrees on {len(m_bad)} snapshots")
        if broken: what.append(f"case files did not evaluate: {broken[0]}")
        run.violation("; ".join(what), dict(kind="broken-tie", theorem_file="coq/Properties/C13.v", proofs_ok=proofs_ok,
                                            correspondence="Model/Isd.v isd vs ttconv.isd.ISD.from_model",
                                            first=replay(m_bad[0]) if m_bad else None), found_input=False)
    run.cov.update(evaluations=nq, distinct_nontrivial=nq - n_err,
                   rule="style-heavy random documents (every style property in every unit on every element kind incl. ruby, initial values, "
                        "animation) and documents built for white-space handling / span pruning / ruby containers (white-space-only and empty "
                        "text, spans nested four deep with alternating xml:space, also below rb/rt/rp, ruby in half of the paragraph children) "
                        "x boundary/epsilon/midpoint query times; each snapshot is compared with M and judged clause by clause, strictly, by the "
                        "shape checker in Coq; doc_wf is evaluated in Coq on every source document. distinct_nontrivial = snapshots produced (not raising).",
                   samples=[dict(document=L.doc_lit(docs[0][0])[:1500], times=[str(t) for t in docs[0][1]]),
                            dict(document=L.doc_lit(docs[nbase][0])[:1500], times=[str(t) for t in docs[nbase][1]])],
                   documents=ndocs, documents_style_heavy=nbase, documents_whitespace_ruby=nfocus, snapshots_raising=n_err,
                   input_distribution_source=dict(sorted(src.items())), input_distribution_snapshots=dict(sorted(snap.items())),
                   clause_failures={CLAUSES[i]: len(v) for i, v in clause_bad.items()},
                   documents_outside_doc_wf=len(wf_bad), model_code_mismatches=len(m_bad))
    run.assumptions += ["source documents satisfy doc_wf (evaluated in Coq on every generated document)",
                        "rational numbers inside style values compared with relative tolerance 1e-9"]
    return run.finish(["harness/isdlit.py", "harness/gen_core.py"])


if __name__ == "__main__":
    sys.exit(main())
