"""Random well-formed canonical-model documents (ttconv.model API), for the ISD-related properties.
All randomness comes from the rng passed in.  Every element gets a unique xml:id (except Text), every Text a
unique token, so that snapshot leaves can be traced back to the source."""
from fractions import Fraction as F
import ttconv.model as m, ttconv.style_properties as s

SP = s.StyleProperties
L = s.LengthType
U = L.Units
ALL = sorted(SP.ALL, key=lambda p: p.__name__)
COLORS = [s.NamedColors.red.value, s.NamedColors.blue.value, s.ColorType((1, 2, 3, 4)), s.NamedColors.transparent.value]


def rlen(rng, units):
    return L(F(rng.randint(0, 40), rng.choice([1, 2, 4])), rng.choice(units))


def rvalue(rng, p):
    n = p.__name__
    if n in ("BackgroundColor", "Color"): return rng.choice(COLORS)
    if n == "Direction": return rng.choice(list(s.DirectionType))
    if n == "Disparity": return rlen(rng, [U.pct, U.px, U.c, U.em, U.rw])
    if n == "Display": return rng.choice([s.DisplayType.auto, s.DisplayType.auto, s.DisplayType.none])
    if n == "DisplayAlign": return rng.choice(list(s.DisplayAlignType))
    if n == "Extent": return s.ExtentType(height=rlen(rng, [U.pct, U.px, U.c, U.rh]), width=rlen(rng, [U.pct, U.px, U.c, U.rw]))
    if n == "FillLineGap": return rng.choice([True, False])
    if n == "FontFamily": return rng.choice([("Arial", s.GenericFontFamilyType.serif), (s.GenericFontFamilyType.monospace,)])
    if n == "FontSize": return rlen(rng, [U.pct, U.px, U.c, U.em, U.rh, U.rw])
    if n == "FontStyle": return rng.choice(list(s.FontStyleType))
    if n == "FontWeight": return rng.choice(list(s.FontWeightType))
    if n == "LineHeight": return rng.choice([s.SpecialValues.normal, rlen(rng, [U.pct, U.px, U.c, U.em, U.rh])])
    if n == "LinePadding": return rlen(rng, [U.c, U.rh, U.rw])
    if n in ("LuminanceGain", "Opacity", "Shear"): return F(rng.randint(0, 4), 4)
    if n == "MultiRowAlign": return rng.choice(list(s.MultiRowAlignType))
    if n == "Origin": return s.CoordinateType(x=rlen(rng, [U.pct, U.px, U.c, U.rw]), y=rlen(rng, [U.pct, U.px, U.c, U.rh]))
    if n == "Overflow": return rng.choice(list(s.OverflowType))
    if n == "Padding": return s.PaddingType(*[rlen(rng, [U.pct, U.px, U.c, U.em, U.rh]) for _ in range(4)])
    if n == "Position":
        return s.PositionType(h_offset=rlen(rng, [U.pct, U.px, U.c, U.rw]), v_offset=rlen(rng, [U.pct, U.px, U.c, U.rh]),
                              h_edge=rng.choice(list(s.PositionType.HEdge)), v_edge=rng.choice(list(s.PositionType.VEdge)))
    if n == "RubyAlign": return rng.choice(list(s.RubyAlignType))
    if n == "RubyPosition": return rng.choice(list(s.AnnotationPositionType))
    if n == "RubyReserve":
        return rng.choice([s.SpecialValues.none, s.RubyReserveType(rng.choice(list(s.RubyReserveType.Position)),
                                                                   rng.choice([None, rlen(rng, [U.pct, U.px, U.c, U.em, U.rh])]))])
    if n == "ShowBackground": return rng.choice(list(s.ShowBackgroundType))
    if n == "TextAlign": return rng.choice(list(s.TextAlignType))
    if n == "TextCombine": return rng.choice(list(s.TextCombineType))
    if n == "TextDecoration": return s.TextDecorationType(*[rng.choice([None, True, False]) for _ in range(3)])
    if n == "TextEmphasis":
        return rng.choice([s.SpecialValues.none, s.TextEmphasisType(rng.choice(list(s.TextEmphasisType.Style)), rng.choice([None] + COLORS),
                                                                    rng.choice(list(s.TextEmphasisType.Position)))])
    if n == "TextOutline": return rng.choice([s.SpecialValues.none, s.TextOutlineType(rlen(rng, [U.pct, U.px, U.c, U.em, U.rh]), rng.choice([None] + COLORS))])
    if n == "TextShadow":
        return rng.choice([s.SpecialValues.none, s.TextShadowType(tuple(
            s.TextShadowType.Shadow(rlen(rng, [U.pct, U.px, U.c, U.em]), rlen(rng, [U.pct, U.px, U.c, U.em]),
                                    rng.choice([None, rlen(rng, [U.px, U.c])]), rng.choice([None] + COLORS)) for _ in range(rng.randint(1, 2))))])
    if n == "UnicodeBidi": return rng.choice(list(s.UnicodeBidiType))
    if n == "Visibility": return rng.choice(list(s.VisibilityType))
    if n == "WrapOption": return rng.choice(list(s.WrapOptionType))
    if n == "WritingMode": return rng.choice(list(s.WritingModeType))
    raise KeyError(n)


def rtime(rng, maxv=12, none_p=0.35, minv=0):
    if rng.random() < none_p: return None
    if rng.random() < 0.03: return F(rng.randint(0, 10 ** 4), rng.choice([997, 1001, 30000]))
    d = rng.choice([1, 1, 1, 2, 3])
    return F(rng.randint(minv * d, maxv * d), d)


class Gen:
    def __init__(self, rng, style_density=0.0, anim_density=0.04, display_p=0.08, ruby_p=0.15, region_ref_p=0.3,
                 timing_p=0.4, own_begin_p=None, exclude_props=(), reveal_p=0.3):
        self.rng = rng; self.sd = style_density; self.ad = anim_density; self.dp = display_p
        self.ruby_p = ruby_p; self.rrp = region_ref_p; self.tp = timing_p; self.n = 0
        self.exclude = set(exclude_props); self.reveal_p = reveal_p

    def uid(self, prefix):
        self.n += 1; return f"{prefix}{self.n}"

    def deco(self, e, dens=None):
        rng = self.rng; dens = self.sd if dens is None else dens
        for p in ALL:
            if p.__name__ in self.exclude: continue
            # documents that override the initial direction leave tts:direction to the cascade (three times in four): the value a
            # region derives from its writing mode is then what every content element below it shows
            if p is SP.Direction and getattr(self, "force_initial_direction", False) and rng.random() < 0.75: continue
            if p is SP.Display:
                r = rng.random()
                if r < self.dp:
                    e.set_style(p, s.DisplayType.none)
                    if rng.random() < self.reveal_p:       # hidden by a specified value, revealed by a timed set step
                        e.add_animation_step(m.DiscreteAnimationStep(p, rtime(rng, 4, 0.2), rtime(rng, 9, 0.3, 2), s.DisplayType.auto))
                elif r < self.dp * 1.5: e.set_style(p, s.DisplayType.auto)
                if rng.random() < self.dp * 1.5:
                    e.add_animation_step(m.DiscreteAnimationStep(p, rtime(rng, 6), rtime(rng, 8), rng.choice(list(s.DisplayType))))
                continue
            if rng.random() < dens: e.set_style(p, rvalue(rng, p))
            if rng.random() < self.ad:
                # one time in three a step value-equal to one already used on another element (frozen dataclass: equal hash),
                # whose own time base differs: anything keyed by the step instead of by (element, step) shows
                pool = self.__dict__.setdefault("step_pool", {}).setdefault(p.__name__, [])
                if pool and rng.random() < 0.35: st = rng.choice(pool)
                else:
                    st = m.DiscreteAnimationStep(p, rtime(rng, 6), rtime(rng, 8), rvalue(rng, p)); pool.append(st)
                e.add_animation_step(m.DiscreteAnimationStep(st.style_property, st.begin, st.end, st.value))

    def timing(self, e):
        rng = self.rng
        if rng.random() < self.tp: e.set_begin(rtime(rng, 3))
        if rng.random() < self.tp: e.set_end(rtime(rng, 14, minv=(0 if rng.random() < 0.2 else 3)))

    def region(self, e, prefix="s"):
        # region references mostly on div/p (as real documents do), occasionally anywhere (conflicts)
        w = {"b": 0.4, "d": 1.6, "p": 1.2}.get(prefix, 0.15)
        if self.regs and self.rng.random() < self.rrp * w: e.set_region(self.rng.choice(self.regs))

    def common(self, e, prefix, timed=True):
        e.set_id(self.uid(prefix))
        if timed: self.timing(e)
        self.region(e, prefix); self.deco(e)
        if self.rng.random() < 0.25: e.set_space(m.WhiteSpaceHandling.PRESERVE)
        if self.rng.random() < 0.1: e.set_lang(self.rng.choice(["fr", "en-US", ""]))

    def text(self, parent):
        rng = self.rng; self.n += 1; k = self.n
        t = rng.choice(["T%d" % k, " T%d " % k, "  ", " a  b%d" % k, "x%d\n y" % k, "\tq%d" % k, "", "r%d \r\n" % k, " "])
        if rng.random() < 0.12:
            # characters that Unicode calls white space but XML does not (S ::= #x20 | #x9 | #xD | #xA): they are content and
            # must survive white-space handling untouched, at the edges of a text node as well as inside it
            u = rng.choice(["\u00a0", "\u3000", "\u2003", "\u202f", "\u2009", "\u0085", "\u000b", "\u000c", "\u001f", "\u2028"])
            t = rng.choice([u + t, t + u, u, "a" + u + u + "b%d" % k, " " + u + " ", t + " " + u])
        parent.push_child(m.Text(self.d, t))

    def span(self, depth, allow_nested=True):
        rng = self.rng; e = m.Span(self.d); self.common(e, "s")
        for _ in range(rng.randint(0, 3)):
            k = rng.random()
            if k < 0.6: self.text(e)
            elif k < 0.75: b = m.Br(self.d); b.set_id(self.uid("br")); e.push_child(b)
            elif depth < 3 and allow_nested: e.push_child(self.span(depth + 1))
        return e

    def wrap(self, cls, prefix):
        e = cls(self.d); self.common(e, prefix)
        for _ in range(self.rng.randint(0, 2)): e.push_child(self.span(2, allow_nested=False))
        return e

    def ruby(self):
        rng = self.rng; e = m.Ruby(self.d); self.common(e, "ruby")
        pat = rng.randrange(4)
        if pat == 0: cs = [self.wrap(m.Rb, "rb"), self.wrap(m.Rt, "rt")]
        elif pat == 1: cs = [self.wrap(m.Rb, "rb"), self.wrap(m.Rp, "rp"), self.wrap(m.Rt, "rt"), self.wrap(m.Rp, "rp")]
        else:
            rbc = m.Rbc(self.d); self.common(rbc, "rbc")
            for _ in range(rng.randint(0, 2)): rbc.push_child(self.wrap(m.Rb, "rb"))
            def rtc():
                x = m.Rtc(self.d); self.common(x, "rtc")
                kids = [self.wrap(m.Rt, "rt") for _ in range(rng.randint(0, 2))]
                if rng.random() < 0.4 and kids: kids = [self.wrap(m.Rp, "rp")] + kids + [self.wrap(m.Rp, "rp")]
                if kids: x.push_children(kids)
                return x
            cs = [rbc, rtc()] + ([rtc()] if pat == 3 else [])
        e.push_children(cs)
        return e

    def p(self):
        rng = self.rng; e = m.P(self.d); self.common(e, "p")
        if rng.random() < 0.06:
            # a paragraph whose only content is line breaks: content all the same (it keeps its region alive while it is active)
            for _ in range(rng.randint(1, 2)):
                b = m.Br(self.d); b.set_id(self.uid("br")); e.push_child(b)
            if rng.random() < 0.5: e.set_style(SP.BackgroundColor, rng.choice(COLORS))
            return e
        for _ in range(rng.randint(0, 3)):
            k = rng.random()
            if k < self.ruby_p: e.push_child(self.ruby())
            elif k < 0.8: e.push_child(self.span(0))
            else: b = m.Br(self.d); b.set_id(self.uid("br")); e.push_child(b)
        return e

    def div(self, depth):
        rng = self.rng; e = m.Div(self.d); self.common(e, "d")
        for _ in range(rng.randint(0, 3)):
            if depth < 2 and rng.random() < 0.25: e.push_child(self.div(depth + 1))
            else: e.push_child(self.p())
        return e

    def doc(self, nreg=None):
        rng = self.rng
        d = self.d = m.ContentDocument(); self.regs = []; self.step_pool = {}
        d.set_cell_resolution(m.CellResolutionType(rows=rng.choice([15, 15, 24, 1, 53]), columns=rng.choice([32, 32, 40, 1, 97])))
        d.set_px_resolution(m.PixelResolutionType(width=rng.choice([1920, 640, 1]), height=rng.choice([1080, 480, 7])))
        if rng.random() < 0.3: d.set_lang(rng.choice(["en", "fr-CA"]))
        if rng.random() < 0.2: d.set_active_area(m.ActiveAreaType(F(1, 10), F(1, 10), F(4, 5), F(4, 5)))
        if rng.random() < 0.2: d.set_display_aspect_ratio(F(16, 9))
        for p in ALL:
            if p.__name__ in self.exclude: continue
            if rng.random() < (0.06 if self.sd > 0 else 0.01) and p is not SP.Position:
                d.put_initial_value(p, rvalue(rng, p))
        if getattr(self, "force_initial_direction", False) and "Direction" not in self.exclude:
            d.put_initial_value(SP.Direction, rng.choice(list(s.DirectionType)))
        if nreg is None: nreg = rng.choice([0, 1, 1, 2, 3])
        for i in range(nreg):
            r = m.Region(f"r{i}", d)
            if rng.random() < 0.4: r.set_begin(rtime(rng, 4))
            if rng.random() < 0.4: r.set_end(rtime(rng, 14))
            if rng.random() < 0.5: r.set_style(SP.ShowBackground, rng.choice(list(s.ShowBackgroundType)))
            if r.get_style(SP.ShowBackground) is s.ShowBackgroundType.whenActive and rng.random() < 0.3 and "ShowBackground" not in self.exclude:
                # a background that is painted only while a timed step says "always" (and is opaque then): times at which no content is active
                r.add_animation_step(m.DiscreteAnimationStep(SP.ShowBackground, rtime(rng, 6, 0.2), rtime(rng, 12, 0.3, 2), s.ShowBackgroundType.always))
                if "BackgroundColor" not in self.exclude and rng.random() < 0.7: r.set_style(SP.BackgroundColor, rng.choice(COLORS))
            self.deco(r, dens=self.sd * 2)
            if d.has_initial_value(SP.Direction) and rng.random() < 0.85 and "WritingMode" not in self.exclude:
                # direction special semantics against the document's initial value
                r.set_style(SP.WritingMode, rng.choice([s.WritingModeType.lrtb, s.WritingModeType.rltb, s.WritingModeType.lrtb, s.WritingModeType.tbrl]))
                if rng.random() < 0.8: r.set_style(SP.Direction, None)
            if rng.random() < 0.2: r.set_lang("de")
            d.put_region(r); self.regs.append(r)
        if rng.random() < 0.05: return d
        b = m.Body(d); self.common(b, "b")
        for _ in range(rng.randint(0, 3)): b.push_child(self.div(0))
        d.set_body(b)
        return d


def boundary_times(d):
    """absolute begin/end of every element, region and animation step, computed here from the raw offsets
    (independently of ISD.significant_times)"""
    out = set()
    def walk(e, pb, pe):
        b = pb + (e.get_begin() or 0)
        en = None if e.get_end() is None else pb + e.get_end()
        if en is None: en = pe
        elif pe is not None: en = min(en, pe)
        out.add(b)
        if en is not None: out.add(en)
        for a in e.iter_animation_steps():
            ab = b + (a.begin or 0); ae = None if a.end is None else b + a.end
            if ae is None: ae = en
            elif en is not None: ae = min(ae, en)
            out.add(ab)
            if ae is not None: out.add(ae)
        for c in e: walk(c, b, en)
    for r in d.iter_regions(): walk(r, F(0), None)
    if d.get_body() is not None: walk(d.get_body(), F(0), None)
    return sorted(out)


def query_times(rng, d, max_n=24):
    bt = boundary_times(d)
    qs = set(bt)
    eps = F(1, 1000)
    for x in bt:
        if x - eps >= 0: qs.add(x - eps)
        qs.add(x + eps)
    for a, b in zip(bt, bt[1:]): qs.add((a + b) / 2)
    qs.add(F(0)); qs.add((bt[-1] if bt else F(0)) + 1)
    qs = sorted(q for q in qs if q >= 0)
    if len(qs) > max_n: qs = sorted(rng.sample(qs, max_n))
    return qs
