"""C12: coq/Gen/TimeCodeSrc.v, the Gallina model regenerated from ttconv/time_code.py by harness/pytrans.py
(picked up by gen_tables.py / tools/setup.sh; fail-closed: a construct outside the subset removes the file)."""
import pytrans

GENERATORS = {"TimeCodeSrc": pytrans.gen_timecode_src}
