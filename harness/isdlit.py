"""Gallina literals for canonical-model documents, style values and snapshots (Model/Doc.v types).
Literals are produced by walking the real Python objects, so what Coq sees is what the code holds."""
from fractions import Fraction
import common as C

UNITS = {"em": "Uem", "pct": "Upct", "rh": "Urh", "rw": "Urw", "c": "Uc", "px": "Upx"}
KINDS = ["Region", "Body", "Div", "P", "Span", "Br", "Text", "Ruby", "Rb", "Rt", "Rp", "Rbc", "Rtc"]


class LitError(Exception):
    pass


def _mods():
    import ttconv.style_properties as s, ttconv.model as m
    return s, m


def prop_list():
    s, _ = _mods()
    return sorted(s.StyleProperties.ALL, key=lambda p: p.__name__)


def prop_id(p):
    return prop_list().index(p)


def enum_tag(v):
    return list(type(v)).index(v)


def qlit(x):
    if isinstance(x, bool): raise LitError("bool as number")
    return C.q(Fraction(x))


def len_lit(l):
    s, _ = _mods()
    if not isinstance(l, s.LengthType): raise LitError(f"not a length: {l!r}")
    return f"(mkLen {qlit(l.value)} {UNITS[l.units.name]})"


def color_packed(c):
    s, _ = _mods()
    if not isinstance(c, s.ColorType) or c.ident is not s.ColorType.Colorimetry.RGBA8: raise LitError(f"colour {c!r}")
    r, g, b, a = c.components
    return (r << 24) | (g << 16) | (b << 8) | a


def val_lit(v):
    """Python style value -> Gallina `value`"""
    s, _ = _mods()
    import enum
    if isinstance(v, bool): return f"(VEnum {int(v)})"
    if isinstance(v, s.SpecialValues): return f"(VSpecial {0 if v is s.SpecialValues.none else 1})"
    if isinstance(v, enum.Enum): return f"(VEnum {enum_tag(v)})"
    if isinstance(v, s.ColorType): return f"(VColor {color_packed(v)})"
    if isinstance(v, (int, float, Fraction)): return f"(VNum {qlit(v)})"
    if isinstance(v, s.LengthType): return f"(VLen {len_lit(v)})"
    if isinstance(v, s.ExtentType): return f"(VExtent {len_lit(v.height)} {len_lit(v.width)})"
    if isinstance(v, s.CoordinateType): return f"(VCoord {len_lit(v.x)} {len_lit(v.y)})"
    if isinstance(v, s.PositionType):
        return f"(VPos {len_lit(v.h_offset)} {enum_tag(v.h_edge)} {len_lit(v.v_offset)} {enum_tag(v.v_edge)})"
    if isinstance(v, s.PaddingType): return f"(VPad {len_lit(v.before)} {len_lit(v.end)} {len_lit(v.after)} {len_lit(v.start)})"
    if isinstance(v, tuple):
        items = []
        for f in v:
            if isinstance(f, s.GenericFontFamilyType): items.append(f"({enum_tag(f)}, [])")
            elif isinstance(f, str): items.append(f"(-1, {C.text(f)})")
            else: raise LitError(f"font family item {f!r}")
        return "(VFonts [" + "; ".join(items) + "])"
    if isinstance(v, s.TextDecorationType):
        t = lambda b: C.z(-1 if b is None else int(bool(b)))
        return f"(VTextDec {t(v.underline)} {t(v.line_through)} {t(v.overline)})"
    if isinstance(v, s.TextEmphasisType):
        return f"(VEmph {enum_tag(v.style)} {C.opt(v.color, lambda c: str(color_packed(c)))} {enum_tag(v.position)})"
    if isinstance(v, s.TextOutlineType):
        return f"(VOutline {C.opt(v.color, lambda c: str(color_packed(c)))} {len_lit(v.thickness)})"
    if isinstance(v, s.TextShadowType):
        sh = ["(" + ", ".join([len_lit(x.x_offset), len_lit(x.y_offset), C.opt(x.blur_radius, len_lit),
                               C.opt(x.color, lambda c: str(color_packed(c)))]) + ")" for x in v.shadows]
        return "(VShadow [" + "; ".join(sh) + "])"
    if isinstance(v, s.RubyReserveType):
        return f"(VReserve {enum_tag(v.position)} {C.opt(v.length, len_lit)})"
    raise LitError(f"unknown style value {v!r}")


def smap_lit(pairs):
    return "[" + "; ".join(f"({k}, {v})" for k, v in pairs) + "]"


def styles_lit(e, sort=False):
    pl = prop_list()
    items = [(pl.index(p), val_lit(e.get_style(p))) for p in e.iter_styles()]
    if sort: items.sort(key=lambda kv: kv[0])
    return smap_lit(items)


def otext(sv):
    return "None" if sv is None else f"(Some {C.text(sv)})"


def elem_lit(e, isd=False):
    _, m = _mods()
    k = type(e).__name__
    if k not in KINDS: raise LitError(f"element kind {k}")
    is_text = isinstance(e, m.Text); is_br = isinstance(e, m.Br)
    anims = "[]"
    if not isd:
        pl = prop_list()
        anims = "[" + "; ".join(f"(mkAnim {pl.index(a.style_property)} {C.opt(a.begin, qlit)} {C.opt(a.end, qlit)} {val_lit(a.value)})"
                                for a in e.iter_animation_steps()) + "]"
    region = None
    if not isd and not isinstance(e, m.Region) and e.get_region() is not None: region = e.get_region().get_id()
    begin = None if isd else e.get_begin(); end = None if isd else e.get_end()
    if isd and (e.get_begin() is not None or e.get_end() is not None): begin, end = e.get_begin(), e.get_end()   # shown so that C13 sees it
    preserve = e.get_space().name == "PRESERVE"
    lang = e.get_lang() or ""
    txt = e.get_text() if is_text else ""
    a = (f"(mkAttrs K{k} {otext(e.get_id())} {C.opt(begin, qlit)} {C.opt(end, qlit)} {otext(region)} "
         f"{styles_lit(e, sort=isd)} {anims} {C.boolean(preserve)} {C.text(lang)} {C.text(txt)})")
    return f"(Elem {a} [" + "; ".join(elem_lit(c, isd) for c in e) + "])"


def doc_params(d):
    cr = d.get_cell_resolution(); px = d.get_px_resolution(); aa = d.get_active_area()
    aal = "None" if aa is None else f"(Some ({qlit(aa.left_offset)}, {qlit(aa.top_offset)}, {qlit(aa.width)}, {qlit(aa.height)}))"
    return f"{cr.rows} {cr.columns} {px.height} {px.width} {aal} {C.opt(d.get_display_aspect_ratio(), qlit)} {C.text(d.get_lang() or '')}"


def doc_lit(d):
    pl = prop_list()
    regions = "[" + "; ".join(elem_lit(r) for r in d.iter_regions()) + "]"
    body = "None" if d.get_body() is None else f"(Some {elem_lit(d.get_body())})"
    inits = smap_lit([(pl.index(p), val_lit(v)) for p, v in d.iter_initial_values()])
    return f"(mkDoc {regions} {body} {inits} {doc_params(d)})"


def isd_lit(isd):
    """snapshot -> (list of region elems)"""
    return "[" + "; ".join(elem_lit(r, isd=True) for r in isd.iter_regions()) + "]"
