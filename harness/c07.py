"""C07 — SRT/WebVTT outputs are grammatical and tags reflect the computed styles.

Theorems: coq/Properties/C07.v; refuted statements: coq/Findings/C07.v.  The model, the specification, the generator and the
machinery are shared with C06 (harness/c06.py): one document x SRT {text_formatting on, off} x the 8 WebVTT configurations, with
arbitrary per-span style combinations and text containing & < > --> tags-as-text, CR/LF and blank-looking lines.
  * M = code: the string Model/CueWriter.v computes equals the string the implementation returned (or both fail at the same stage);
  * S on the code: Spec/CueSpec.v srt_wf / vtt_wf, evaluated in Coq, accept the implementation's output;
  * S on the code: `runs` (Spec/CueSpec.v) of every payload of the implementation's output, evaluated in Coq, gives every visible
    character the style the snapshot prescribes (WebVTT classes resolved through the STYLE block of the same output);
  * S on the code: the line / align cue settings of every WebVTT cue are those Spec/CueSettings.v prescribes for its scope.
"""
import sys
import c06


def main():
    return c06.check("C07", ["Proofs/C07/Tags.vo", "Proofs/C07/Order.vo", "Proofs/C07/Settings.vo", "Proofs/C07/Escape.vo", "Proofs/C07/Single.vo", "Proofs/C07/Runs.vo", "Proofs/C07/Wf.vo", "Proofs/C07/Flags.vo", "Proofs/C07/VttWf.vo", "Proofs/C06/Fixed.vo",
                             "Model/CueCases.vo"],
                     "Each output is compared with M as a string, judged by the grammar recognisers srt_wf / vtt_wf and, character by "
                     "character, by runs against the computed styles of the snapshot, all evaluated in Coq.")


if __name__ == "__main__":
    sys.exit(main())
