"""C02 — the presentation changes only at the reported significant times.  Theorems: coq/Properties/C02.v.
Tie: M (Model/SigTimes.v `sig`) against ISD.significant_times on generated documents (animation-dense, elements
starting at non-zero offsets); M's snapshots are tied under C01.  S on the code: strictly increasing; no content
before the first time; the snapshot at probes strictly between consecutive significant times (midpoints and the
true change points computed by the harness) equals the snapshot at the earlier time; the generated sequence equals
the snapshots at the significant times."""
import logging, sys
from fractions import Fraction as F
import common as C
import isdlit as L
import docgen, isdcore, gen_tables

HEADER = ("From TT Require Import Model.Doc Gen.StyleTables Model.Isd Model.SigTimes Model.IsdCases Model.SigCases.\n"
          "Open Scope Z_scope.\n")


def main():
    run = C.Run("C02", "proof")
    run.hygiene()
    sys.path.insert(0, C.SRC)
    changed, errors = gen_tables.generate({"StyleTables"})
    if errors:
        run.violation("table translator failed closed: " + "; ".join(errors), dict(kind="translator", errors=errors), False)
        return run.finish()
    ok, log = run.build(["Proofs/C02/BeforeFirst.vo", "Proofs/C02/Complete.vo", "Proofs/C02/Timeline.vo", "Model/SigCases.vo"], clean=(run.tier == "thorough"))
    proofs_ok = ok and run.theorems()
    if not ok: run.proof_log = log[-2500:]
    run.witnesses()
    logging.disable(logging.CRITICAL)
    from ttconv.isd import ISD

    ndocs = 300 if run.tier == "quick" else 5000
    rng = run.rng
    blocks, docs = [], {}
    s_fail = []        # (doc index, clause, detail)
    n_probe, n_sig_raise, n_changes, lens = 0, 0, 0, []
    n_eqsets = 0
    for k in range(ndocs):
        g = docgen.Gen(rng, style_density=0.02, anim_density=(0.05 if k % 2 else 0.015), display_p=0.05, ruby_p=0.05, region_ref_p=0.3)
        d = g.doc(); docs[k] = d
        if k % 5 == 2:
            import c14 as _c14
            n_eqsets += _c14.inject_equal_sets(rng, d)     # value-equal <set> steps on elements with different time bases
        try:
            st = ISD.significant_times(d); sig = list(st)
        except Exception as e:
            sig = None; n_sig_raise += 1
        lit = "None" if sig is None else "(Some [" + "; ".join(L.qlit(x) for x in sig) + "])"
        defs = f"Definition d{k} := {L.doc_lit(d)}."
        blocks.append((k, defs, [f"[sig_close (sig d{k}) {lit}]", f"[negb (sig_misses d{k})]"], [1, 1]))
        if sig is None: continue
        lens.append(len(sig))
        # ---- S on the code ----
        if any(not (a < b) for a, b in zip(sig, sig[1:])): s_fail.append((k, "sorted", str(sig)))
        snap = lambda t, cached: isdcore.snapshot(d, t, st if cached else None)[0]
        if sig and sig[0] > 0:
            lit0, obj = isdcore.snapshot(d, sig[0] / 2)
            if lit0 is not None and any(len(list(r)) for r in obj.iter_regions()): s_fail.append((k, "before_first", str(sig[0] / 2)))
        truth = [t for t in docgen.boundary_times(d)]
        ends = sig + [sig[-1] + 2] if sig else []
        for a, b in zip(ends, ends[1:]):
            base = snap(a, False); base_c = snap(a, True)
            probes = {(a + b) / 2, a + (b - a) / 7} | {t for t in truth if a < t < b}
            if len(probes) > 5: probes = set(rng.sample(sorted(probes), 5))
            for t in sorted(probes):
                n_probe += 1
                for cached in (False, True):
                    if snap(t, cached) != (base_c if cached else base):
                        s_fail.append((k, "stable", f"snapshot at {t} ({'cached' if cached else 'uncached'}) differs from the snapshot at {a}")); break
            nxt = snap(b, False)
            if nxt != base: n_changes += 1
        if k % 3 == 0:
            try:
                seq = ISD.generate_isd_sequence(d, is_multithreaded=False)
                if [x for x, _ in seq] != sig: s_fail.append((k, "sequence", "times differ from significant_times"))
                from ttconv.isd import ISD as _I
                for x, i in seq:
                    if L.isd_lit(i) != snap(x, True): s_fail.append((k, "sequence", f"entry at {x} is not the snapshot at {x}")); break
                    try:
                        plain = _I.from_model(d, x)
                    except Exception:
                        continue
                    if isdcore.render_lit(i) != isdcore.render_lit(plain):
                        s_fail.append((k, "sequence", f"entry at {x} does not render like the snapshot ISD.from_model(doc, {x})")); break
            except Exception as e:
                if not any(snap(x, True) is None for x in sig): s_fail.append((k, "sequence", f"raised {type(e).__name__}"))
    files = isdcore.write_shards("Cases_C02_", HEADER, blocks)
    bad, broken = isdcore.eval_shards(files)
    C.clean_cases("Cases_C02_")
    m_bad = [c for c, _ in bad.get(0, [])]; trig = {c for c, _ in bad.get(1, [])}
    run.log(f"{ndocs} documents ({n_sig_raise} raise in significant_times), {n_probe} probes between significant times, "
            f"{n_changes} intervals where the snapshot changes: model/code mismatches {len(m_bad)}, S failures {len(s_fail)}, "
            f"documents where the recorded trigger fires {len(trig)}, broken case files {len(broken)}")
    unlisted = []
    for k, clause, detail in s_fail:
        if clause == "stable" and k in trig:
            run.known("anim-offset-parent-interval", f"document {k}: {detail}")
        else:
            unlisted.append((k, clause, detail))
    # the recorded witness must still fail on the code
    import ttconv.model as m, ttconv.style_properties as s
    d = m.ContentDocument(); r = m.Region("r1", d); d.put_region(r); b = m.Body(d); d.set_body(b); b.set_region(r)
    dv = m.Div(d); b.push_child(dv); p = m.P(d); dv.push_child(p); p.set_begin(F(10)); p.set_end(F(20))
    p.add_animation_step(m.DiscreteAnimationStep(s.StyleProperties.BackgroundColor, F(2), F(4), s.NamedColors.red.value))
    sp = m.Span(d); p.push_child(sp); sp.push_child(m.Text(d, "x"))
    sg = list(ISD.significant_times(d))
    if F(12) not in sg and isdcore.snapshot(d, F(11))[0] != isdcore.snapshot(d, F(13))[0]:
        run.known("anim-offset-parent-interval", "witness <p begin=10 end=20><set begin=2 end=4>: significant times " + str([str(x) for x in sg]))
    else:
        run.cov["stale_findings"] = ["anim-offset-parent-interval: witness no longer fails"]
    if unlisted:
        k, clause, detail = unlisted[0]
        run.violation(f"{clause}: {detail} (document {k})",
                      dict(kind="S-on-code", clause=clause, detail=detail, document=L.doc_lit(docs[k]),
                           significant_times=[str(x) for x in ISD.significant_times(docs[k])], others=[(a, b_, c) for a, b_, c in unlisted[1:8]]))
    if (m_bad or broken or not proofs_ok) and not unlisted:
        what = []
        if not proofs_ok: what.append("theorems of coq/Properties/C02.v no longer check: " + getattr(run, "proof_log", "")[-500:])
        if m_bad: what.append(f"correspondence Model/SigTimes.v sig vs ISD.significant_times disagrees on {len(m_bad)} documents")
        if broken: what.append(f"case files did not evaluate: {broken[0]}")
        run.violation("; ".join(what), dict(kind="broken-tie", theorem_file="coq/Properties/C02.v", proofs_ok=proofs_ok,
                                            correspondence="Model/SigTimes.v sig vs ttconv.isd.ISD.significant_times",
                                            first_document=L.doc_lit(docs[m_bad[0]]) if m_bad else None), found_input=False)
    run.cov.update(evaluations=ndocs + n_probe, distinct_nontrivial=n_changes,
                   rule="random documents with timed animation steps on elements and regions that start at non-zero offsets (every 5th with "
                        "value-equal set steps — same property, value, begin, end, shared object or equal copies — on 2-4 elements whose time bases differ); "
                        "significant_times compared with M; for every pair of consecutive significant times up to 5 probes strictly "
                        "between them (midpoint, 1/7 point, and the true change points computed by the harness from each element's own "
                        "interval), cached and uncached, must equal the snapshot at the earlier time. distinct_nontrivial = intervals at "
                        "whose end the snapshot really changes.",
                   samples=[dict(document=L.doc_lit(docs[0])[:1200])], documents=ndocs, probes=n_probe, value_equal_set_steps=n_eqsets,
                   sig_times_per_document=dict(min=min(lens or [0]), max=max(lens or [0]), mean=round(sum(lens) / max(1, len(lens)), 1)),
                   documents_where_trigger_fires=len(trig), model_code_mismatches=len(m_bad), s_failures_on_code=len(s_fail))
    run.assumptions += ["snapshots (isd) are tied to the code under C01 with the same generator family",
                        "the multiprocessing branch of generate_isd_sequence is not exercised (ISD_NO_MULTIPROC / is_multithreaded=False)"]
    return run.finish(["harness/isdlit.py", "harness/gen_core.py"])


if __name__ == "__main__":
    sys.exit(main())
