"""C17: harness/pytrans.py extended by the vocabulary ttconv/scc/word.py needs -> coq/Gen/SccWordSrc.v.

Added to the numeric subset: a constructor whose fields are computed (`__init__` is translated as a method that
fills a blank record; reading a field before its assignment is rejected), Optional values (`None`, `a or b` over
`<Enum>.find(...)` calls, `if x.f is None: return ...` with the field narrowed afterwards),
`isinstance(code, SccPreambleAddressCode)`, `value.to_bytes(2, byteorder='big')` with `data[0]` / `data[1]`, `chr`,
and the calls into ttconv/scc/codes/*.py, which become the hand-written externs of coq/Model/SccWordExt.v
(`ext_<Enum>_find`, `ext_code_get_channel_<arity>`, `ext_SCC_STANDARD_CHARACTERS_MAPPING_get`).  Fail-closed as
pytrans.py: anything else raises TransError naming the construct."""
import ast
import pytrans
from pytrans import Translator, TransError, coq_text

CODE = ("ext", "code")
OPT_CODE = ("opt", CODE)
OPT_CHAN = ("opt", "chan")
FINDS = {"SccControlCode": ("ttconv.scc.codes.control_codes", 1), "SccAttributeCode": ("ttconv.scc.codes.attribute_codes", 1),
         "SccMidRowCode": ("ttconv.scc.codes.mid_row_codes", 1), "SccPreambleAddressCode": ("ttconv.scc.codes.preambles_address_codes", 2),
         "SccSpecialCharacter": ("ttconv.scc.codes.special_characters", 1), "SccExtendedCharacter": ("ttconv.scc.codes.extended_characters", 1)}
MAPPING = ("SCC_STANDARD_CHARACTERS_MAPPING", "ttconv.scc.codes.standard_characters")
UNITS = [("src_is_code", "SccWord", "SccWord", "is_code", ["self"], False),
         ("src_find_code", "SccWord", "SccWord", "_find_code", ["self"], False),
         ("src_SccWord_init", "SccWord", "SccWord", "__init__", ["self", "byte_1", "byte_2"], False),
         ("src_decipher_parity_bit", None, "SccWord", "_decipher_parity_bit", ["byte"], True),
         ("src_from_bytes", None, "SccWord", "from_bytes", ["byte_1", "byte_2"], True),
         ("src_from_value", None, "SccWord", "from_value", ["value"], True),
         ("src_get_channel", "SccWord", "SccWord", "get_channel", ["self"], False),
         ("src_to_text", "SccWord", "SccWord", "to_text", ["self"], False)]


class SccTranslator(Translator):
    imports = "From TT Require Import Base.Prelude Base.PyNum Model.SccWordExt."
    math_imports = {}

    def __init__(self, source, filename):
        super().__init__(source, filename)
        self.cur = "module level"
        for name, (mod, _) in list(FINDS.items()) + [(MAPPING[0], (MAPPING[1], 0))]:
            if self.imported.get(name) != f"{mod}.{name}": self.fail(name, f"{name} is not imported from {mod}")
        self.tmpv = 0

    def coq_type(self, t):
        if t == CODE: return "scc_code"
        if t == "bytes2": return "(num * num)"
        if isinstance(t, tuple) and t[0] == "opt": return "option " + ("num" if t[1] == "chan" else self.coq_type(t[1]))
        return super().coq_type(t)

    def ret_ok(self, want, rt):
        if want.startswith("Optional["): return rt == "none" or (isinstance(rt, tuple) and rt[0] == "opt")
        return super().ret_ok(want, rt)

    # ---- the class: fields from the assignments of __init__, constructor = __init__ applied to a blank record --------
    def emit_class(self, cls):
        _, fn = self.method(cls, "__init__")
        params = [a.arg for a in fn.args.args[1:]]
        env = {p: self.annot(a.annotation, fn) for p, a in zip(params, fn.args.args[1:])}
        fields = []
        for st in fn.body:
            if isinstance(st, ast.Expr) and isinstance(st.value, ast.Constant) and isinstance(st.value.value, str): continue
            if isinstance(st, ast.AnnAssign) and st.value is not None:
                tgt = st.target
                ty = {"int": "int", "Optional[SccCode | SccPreambleAddressCode]": OPT_CODE}.get(ast.unparse(st.annotation)) or \
                     self.fail(st, "field annotation not understood")
            elif isinstance(st, ast.Assign) and len(st.targets) == 1:
                tgt = st.targets[0]; ty = self.expr(st.value, env)[1]          # an expression over the parameters only
            else: self.fail(st, "statement kind not supported in __init__")
            if not (isinstance(tgt, ast.Attribute) and isinstance(tgt.value, ast.Name) and tgt.value.id == "self") or tgt.attr in dict(fields):
                self.fail(st, "__init__ assigns something other than a fresh field of self")
            fields.append((tgt.attr, ty))
        self.fields[cls] = fields; self.ctor[cls] = len(params); self.blank = cls
        self.emit_record(cls, params, None)
        dflt = lambda t: "None" if isinstance(t, tuple) and t[0] == "opt" else "(inj 0)" if t in pytrans.NUMERIC else self.fail(str(t), "no blank value")
        self.out.append(f"Definition {cls}_blank : {cls} := {cls}_mk " + " ".join(dflt(t) for _, t in fields) + ".\n")

    def unit(self, name, selfcls, cls, fname, params, static):
        self.init_assigned = set() if fname == "__init__" else None
        self.narrowed = {}
        super().unit(name, selfcls, cls, fname, params, static)
        if fname == "__init__":
            missing = [f for f, _ in self.fields[cls] if f not in self.init_assigned]
            if missing or self.done[(cls, fname)][3]: self.fail(cls, f"__init__ leaves fields unassigned on some path ({missing}) or raises")
            self.out.append(f"Definition {cls}_new ({' '.join(params[1:])} : num) : {cls} := {name} {cls}_blank {' '.join(params[1:])}.\n")
        self.init_assigned = None

    # ---- expressions ----------------------------------------------------------------------------------------------------
    def is_find(self, e):
        return isinstance(e, ast.Call) and isinstance(e.func, ast.Attribute) and e.func.attr == "find" and \
            isinstance(e.func.value, ast.Name) and e.func.value.id in FINDS

    def expr_ext(self, e, env):
        if isinstance(e, ast.Constant) and e.value is None: return "None", "none"
        if isinstance(e, ast.Attribute) and ast.unparse(e) in self.narrowed: return self.narrowed[ast.unparse(e)]
        if isinstance(e, ast.BoolOp) and isinstance(e.op, ast.Or) and all(self.is_find(v) for v in e.values):
            # `a or b` on Optional[enum member / PAC object]: such objects are truthy (no __bool__/__len__; checked at run time by c17.py)
            ts = [self.expr(v, env)[0] for v in e.values]; r = ts[-1]
            for t in reversed(ts[:-1]): r = f"(py_or_else {t}\n  {r})"
            return r, OPT_CODE
        if isinstance(e, ast.Subscript):
            t, ty = self.expr(e.value, env)
            if ty == "bytes2" and isinstance(e.slice, ast.Constant) and e.slice.value in (0, 1):
                return f"({'fst' if e.slice.value == 0 else 'snd'} {t})", "int"
            self.fail(e, "subscript other than [0] / [1] of a 2-byte to_bytes result")
        return None

    def call_ext(self, e, env):
        f = e.func
        if isinstance(f, ast.Name) and f.id in self.ctor and ("SccWord", "__init__") not in self.done:
            self.fail(e, "constructor call before __init__ is translated")
        if isinstance(f, ast.Name) and f.id == "chr" and len(e.args) == 1 and not e.keywords:
            t, ty = self.expr(e.args[0], env)
            if ty != "int": self.fail(e, "chr of a value not known to be an int")
            return f"(py_chr {t})", "str"
        if isinstance(f, ast.Name) and f.id == "isinstance" and len(e.args) == 2 and not e.keywords and ast.unparse(e.args[0]) in self.narrowed:
            t, ty = self.narrowed[ast.unparse(e.args[0])]
            if ty == CODE and ast.unparse(e.args[1]) == "SccPreambleAddressCode": return f"(ext_isinstance_SccPreambleAddressCode {t})", "bool"
            self.fail(e, "isinstance test not in the extern vocabulary")
        if not isinstance(f, ast.Attribute): return None
        if self.is_find(e):
            if e.keywords or len(e.args) != FINDS[f.value.id][1]: self.fail(e, "arity of find changed")
            args = [self.expr(a, env) for a in e.args]
            if any(ty != "int" for _, ty in args): self.fail(e, "find on a value not known to be an int")
            return f"(ext_{f.value.id}_find {' '.join(t for t, _ in args)})", OPT_CODE
        if f.attr == "to_bytes":
            if not (len(e.args) == 1 and isinstance(e.args[0], ast.Constant) and e.args[0].value == 2 and len(e.keywords) == 1 and
                    e.keywords[0].arg == "byteorder" and isinstance(e.keywords[0].value, ast.Constant) and e.keywords[0].value.value == "big"):
                self.fail(e, "to_bytes other than to_bytes(2, byteorder='big')")
            t, ty = self.expr(f.value, env)
            if ty != "int": self.fail(e, "to_bytes of a value not known to be an int")
            self.notes.append(f"{self.cur}: to_bytes raises OverflowError for a negative value: not modelled (the theorems are about 0 <= value)")
            return f"(py_to_bytes2 {t})", "bytes2"
        if isinstance(f.value, ast.Name) and f.value.id == MAPPING[0] and f.attr == "get" and len(e.args) == 2 and not e.keywords:
            (k, kt), (d, dt) = self.expr(e.args[0], env), self.expr(e.args[1], env)
            if kt != "int" or dt != "str": self.fail(e, "mapping look-up with a key/default of an unexpected type")
            return f"(ext_{MAPPING[0]}_get {k} {d})", "str"
        if ast.unparse(f.value) in self.narrowed and self.narrowed[ast.unparse(f.value)][1] == CODE:
            if f.attr != "get_channel" or e.keywords or len(e.args) > 1: self.fail(e, "method of a code object outside the extern vocabulary")
            args = [self.expr(a, env) for a in e.args]
            if any(ty != "int" for _, ty in args): self.fail(e, "get_channel on a value not known to be an int")
            return f"(ext_code_get_channel_{len(args)} {' '.join([self.narrowed[ast.unparse(f.value)][0]] + [t for t, _ in args])})", OPT_CHAN
        return None

    # ---- `if self.f is None: return ...` narrows self.f in what follows -----------------------------------------------
    def if_ext(self, s, rest, env, tail):
        t = s.test
        if not (isinstance(t, ast.Compare) and len(t.ops) == 1 and isinstance(t.ops[0], ast.Is) and isinstance(t.comparators[0], ast.Constant)
                and t.comparators[0].value is None and isinstance(t.left, ast.Attribute)): return None
        e, ty = self.expr(t.left, env)
        if not (isinstance(ty, tuple) and ty[0] == "opt") or not self.terminates(s.body) or s.orelse:
            self.fail(s, "`is None` test outside the pattern `if <Optional field> is None: return ...`")
        key = ast.unparse(t.left)
        for st in rest:
            for n in ast.walk(st):
                if isinstance(n, ast.Attribute) and isinstance(n.ctx, ast.Store) and ast.unparse(n) == key:
                    self.fail(st, "narrowed field is assigned again")
        self.tmpv += 1; v = f"v{self.tmpv}_"
        a = self.block(s.body, env, tail)
        saved = dict(self.narrowed); self.narrowed[key] = (v, ty[1])
        b = self.block(rest, env, tail)
        self.narrowed = saved
        return f"match {e} with\n| None => {a}\n| Some {v} =>\n{b}\nend"


def translate(path):
    return pytrans.translate(path, UNITS, ["SccWord"], SccTranslator, "ttconv/scc/word.py")


def gen_sccword_src():
    import common as C
    return translate(C.SRC + "/ttconv/scc/word.py")[0]


if __name__ == "__main__":
    import sys
    sys.stdout.write(translate(sys.argv[1])[0])
