"""C05 - writing a document as IMSC and reading it back presents identically.

Theorems: coq/Properties/C05.v (time printing laws, attribute round trips).  Ties, evaluated inside Coq on literals
generated here (coq/Gen/Cases_C05_*.v):
  (a) M = code: Model/ImscWrite.v print_style / has_px / format_g / to_time_format / print_frame_rate against
      StyleProperties.*.from_model, has_px, format(x, "g"), attributes.to_time_format, FrameRateAttribute.set, and against the
      attributes of the ElementTree that imsc.writer.from_model builds for whole documents; extract_style against
      StyleProperties.*.extract on written and perturbed strings;
  (b) S on the code (Spec/ImscRoundTripSpec.v): every document x {no config, clock_time, frames, clock_time_with_frames} x frame
      rate is written, serialised, parsed and re-read; document parameters, the element tree, every begin/end offset
      (exact when representable, < 1 unit otherwise, order kept), every specified style value (six significant digits) and the
      snapshots at probe times (documents whose offsets are all representable) are compared;
  (c) the re-read must not log."""
import io, os, re, sys, time, dataclasses, enum, math, collections
from fractions import Fraction as F
import xml.etree.ElementTree as et
import common as C
import gen_tables
import imsc_common as IC
import imsc_docgen as DG

PROP = "C05"
TARGETS = ["Model/ImscWriteCases.vo", "Model/ImscWriteTree.vo", "Proofs/C05/Times.vo", "Proofs/C05/Values.vo", "Proofs/C05/Tree.vo", "Proofs/C05/Params.vo"]
HEADER = ("From TT Require Import Base.Prelude Base.ImscXml Model.ImscTime Model.TimeCode Model.ImscWrite Spec.ImscRoundTripSpec Model.ImscWriteCases Model.ImscWriteTree.\n"
          "From Coq Require Import QArith.\nLocal Open Scope Z_scope.\n")
FPS = [F(24), F(25), F(30), F(50), F(60), F(24000, 1001), F(30000, 1001)]
EXC = {"AttributeError": 3, "TypeError": 4}


def load_proposed(run):
    pend = []
    try:
        for line in open(C.VERIF + f"/findings_proposed/{PROP}.txt", encoding="utf-8"):
            mt = re.match(r"finding\s+property=(\S+)\s+id=(\S+)\s+what=(.*)", line.strip())
            if mt and mt.group(1) == PROP and mt.group(2) not in {f["id"] for f in run.findings}:
                run.findings.append(dict(property=PROP, id=mt.group(2), what=mt.group(3))); pend.append(mt.group(2))
    except FileNotFoundError:
        pass
    if pend: run.cov["findings_pending_merge"] = pend


def shards(prefix, defs, nlines, cap=160000):
    """defs: list of (name list per line, text); writes files each ending with one check_all line per `line`; returns bad index lists"""
    files = []; cur = []; size = 0
    def flush():
        nonlocal cur, size
        if not cur: return
        p = f"{C.GEN}/{prefix}{len(files)}.v"
        body = "".join(t for _, t in cur)
        lines = []
        for k in range(nlines):
            lines.append("Eval vm_compute in check_all [" + ";".join(f"c{k}_{i}" for i, _ in cur) + "].")
        with open(p, "w") as f: f.write(HEADER + body + "\n".join(lines) + "\n")
        files.append((p, [i for i, _ in cur])); cur = []; size = 0
    for i, t in defs:
        cur.append((i, t)); size += len(t)
        if size >= cap: flush()
    flush()
    res = C.coqc_many([p for p, _ in files], 1500)
    bad = [[] for _ in range(nlines)]; broken = []
    for p, idx in files:
        rc, out = res[p]
        ms = re.findall(r"=\s*\(\s*(\d+)\s*,\s*(\[[^\]]*\]|nil)\s*\)", " ".join(out.split()))
        if rc != 0 or len(ms) != nlines:
            broken.append((p, out[-500:])); continue
        for k, (n, b) in enumerate(ms):
            if int(n) != len(idx): broken.append((p, "count"))
            bad[k] += [idx[int(x)] for x in re.findall(r"\d+", b)]
    return bad, broken


# ---------------------------------------------------------------------------------------------- flattening for S
def atoms(v):
    """flat list of atoms of a style value / parameter for Spec/ImscRoundTripSpec.v (generic default == monospaceSerif)"""
    import ttconv.style_properties as s
    out = []
    def go(x):
        if x is None: out.append("(AT [78])")
        elif isinstance(x, bool): out.append(f"(AI {int(x)})")
        elif isinstance(x, enum.Enum):
            if x is s.GenericFontFamilyType.default: x = s.GenericFontFamilyType.monospaceSerif
            out.append(f"(AT {C.text(type(x).__name__ + '.' + x.name)})")
        elif isinstance(x, int): out.append(f"(AI {C.z(x)})")
        elif isinstance(x, (float, F)): out.append(f"(AQ {C.q(F(x))})")
        elif isinstance(x, str): out.append(f"(AT {C.text('s:' + x)})")
        elif dataclasses.is_dataclass(x):
            out.append(f"(AT {C.text(type(x).__name__)})")
            for f in dataclasses.fields(x): go(getattr(x, f.name))
        elif isinstance(x, tuple):
            out.append(f"(AI {len(x)})")
            for y in x: go(y)
        else: raise ValueError(f"atoms of {x!r}")
    go(v)
    return "[" + ";".join(out) + "]"


# ---------------------------------------------------------------------------------------------- triggers of the recorded findings
def no_component(v):
    import ttconv.style_properties as s
    return isinstance(v, s.TextDecorationType) and v.underline is None and v.line_through is None and v.overline is None


def value_triggers(prop, v, out, on_element=False):
    """finding ids whose trigger the value (of model property prop) meets"""
    import ttconv.style_properties as s
    SP = s.StyleProperties
    if prop is SP.Shear and abs(v) > 100: out.add("shear-clamped")
    if prop is SP.LinePadding and isinstance(v, s.LengthType) and v.units is not s.LengthType.Units.c: out.add("linepadding-units")
    if prop is SP.FontFamily and (len(v) == 0 or any(isinstance(x, str) and x == "" for x in v)): out.add("fontfamily-empty")
    if prop is SP.BackgroundColor and v == s.NamedColors.transparent.value: out.add("transparent-background")
    # specified on an element the value changes nothing (every component is inherited) and is not written; as an animation or initial value it is lost
    if prop is SP.TextDecoration and no_component(v) and not on_element: out.add("textdecoration-no-component")


def doc_triggers(doc):
    import ttconv.model as m
    out = set()
    def el(e):
        if isinstance(e, m.Text): return
        for p in e.iter_styles(): value_triggers(p, e.get_style(p), out, True)
        for a in e.iter_animation_steps():
            value_triggers(a.style_property, a.value, out)
            for t in (a.begin, a.end):
                if t is not None and t < 0: out.add("negative-time")
        if not isinstance(e, m.Br):
            for t in (e.get_begin(), e.get_end()):
                if t is not None and t < 0: out.add("negative-time")
        if not isinstance(e, m.Br) and e.get_lang() != doc.get_lang(): out.add("lang-not-written")
        for c in e: el(c)
    for r in doc.iter_regions(): el(r)
    if doc.get_body() is not None: el(doc.get_body())
    for p, v in doc.iter_initial_values(): value_triggers(p, v, out)
    return out


def float_lit(fs):
    """what float() makes of a string over the characters 0-9 + - . : None (ValueError) or the exact decimal value"""
    try:
        float(fs)
    except ValueError:
        return "None"
    neg = fs.startswith("-"); ip, _, fp = fs.lstrip("+-").partition(".")
    v = F(int(ip or "0")) + (F(int(fp), 10 ** len(fp)) if fp else 0)
    return f"(Some {C.q(-v if neg else v)})"


class MergedText:
    """adjacent Text children are one run of characters: the writer concatenates them and the reader returns one Text"""
    def __init__(self, texts): self.t = "".join(x.get_text() for x in texts)
    def get_text(self): return self.t


def merge_texts(children):
    import ttconv.model as m
    out = []; run = []
    for c in children:
        if isinstance(c, m.Text): run.append(c); continue
        if run: out.append(run[0] if len(run) == 1 else MergedText(run)); run = []
        out.append(c)
    if run: out.append(run[0] if len(run) == 1 else MergedText(run))
    return out


# ---------------------------------------------------------------------------------------------- round trip comparison
def snap(doc, t):
    import ttconv.isd as I, ttconv.model as m
    isd = I.ISD.from_model(doc, t); out = []
    def walk(e):
        out.append((type(e).__name__, None, {p.__name__: e.get_style(p) for p in e.iter_styles()}))
        run = None
        for c in e:
            if isinstance(c, m.Text):
                # adjacent Text children are one run of characters (they carry no styles of their own)
                if run is None: run = [c.get_text()]; out.append(run)
                else: run.append(c.get_text())
            else:
                run = None; walk(c)
    for r in isd.iter_regions(): walk(r)
    return [("Text", "".join(x), {}) if isinstance(x, list) else x for x in out]


def approx(a, b, abs_tol=None):
    """numbers equal to six significant digits (what the writer keeps); with abs_tol, also when they differ by less than abs_tol:
    used for COMPUTED snapshot values, where a length near zero is the difference of written lengths near 100 (tts:position from the
    right/bottom edge) and inherits their absolute, not their relative, rounding error"""
    import ttconv.style_properties as s
    if a is s.GenericFontFamilyType.default: a = s.GenericFontFamilyType.monospaceSerif
    if b is s.GenericFontFamilyType.default: b = s.GenericFontFamilyType.monospaceSerif
    if isinstance(a, (int, float, F)) and isinstance(b, (int, float, F)) and not isinstance(a, bool) and not isinstance(b, bool):
        a = F(a); b = F(b)
        if abs_tol is not None and abs(a - b) <= abs_tol: return True
        return abs(a - b) <= F(1, 10 ** 5) * max(F(1, 10 ** 6), abs(a), abs(b))
    if dataclasses.is_dataclass(a) and type(a) is type(b):
        return all(approx(getattr(a, f.name), getattr(b, f.name), abs_tol) for f in dataclasses.fields(a))
    if isinstance(a, tuple) and isinstance(b, tuple): return len(a) == len(b) and all(approx(x, y, abs_tol) for x, y in zip(a, b))
    return a == b


def same_snap(a, b):
    if len(a) != len(b): return f"{len(a)} vs {len(b)} elements"
    for x, y in zip(a, b):
        if x[0] != y[0] or x[1] != y[1]: return f"node {x[:2]} vs {y[:2]}"
        for k in x[2]:
            if k not in y[2] or not approx(x[2][k], y[2][k], F(5, 1000)): return f"style {k}: {x[2][k]} vs {y[2].get(k)}"
    return None


def eff_end(e):
    """end of a model element relative to its parent's begin as the TTML timing semantics give it (None = indefinite): the explicit end,
    else begin + the latest end of its children and animation steps (text and br are indefinite)"""
    import ttconv.model as m
    if isinstance(e, (m.Text, m.Br, MergedText)): return None
    b = e.get_begin() or F(0)
    if e.get_end() is not None: return e.get_end()
    if isinstance(e, m.Region): return None
    acc = F(0)
    for a in e.iter_animation_steps():
        if a.end is None: return None
        acc = max(acc, a.end)
    for c in e:
        ce = eff_end(c)
        if ce is None: return None
        acc = max(acc, ce)
    return b + acc


def never_active(e):
    """the element's interval is empty: it is never presented, and the reader omits it"""
    import ttconv.model as m
    if isinstance(e, (m.Text, m.Br, m.Region, m.Body, MergedText)): return False
    return eff_end(e) == (e.get_begin() or F(0))


def shorter_than(e, unit):
    """the element lasts less than one unit of the written syntax: its written begin and end may coincide, in which case the reader omits it"""
    import ttconv.model as m
    if isinstance(e, (m.Text, m.Br, m.Region, m.Body, MergedText)): return False
    en = eff_end(e)
    return en is not None and en - (e.get_begin() or F(0)) < unit


def align(c1, c2, unit):
    """pair the children of the original with those of the re-read element, skipping only originals shorter than one unit"""
    if len(c1) == len(c2): return list(zip(c1, c2))
    if len(c1) < len(c2): return None
    def go(i, j):
        if j == len(c2):
            return [] if all(shorter_than(c, unit) for c in c1[i:]) else None
        if i == len(c1): return None
        if type(c1[i]) is type(c2[j]) or {type(c1[i]).__name__, type(c2[j]).__name__} <= {"Text", "MergedText"}:
            r = go(i + 1, j + 1)
            if r is not None: return [(c1[i], c2[j])] + r
        if shorter_than(c1[i], unit): return go(i + 1, j)
        return None
    return go(0, 0)


def compare_docs(d1, d2, diffs, times, groups, values, exact=True, unit=F(0)):
    """structural comparison of the original d1 and the re-read d2; appends (kind, detail) to diffs, (t, t') pairs to times,
    sibling groups to groups, (atoms, atoms) to values"""
    import ttconv.model as m, ttconv.style_properties as s
    SP = s.StyleProperties
    def sty(e1, e2, where):
        s1 = {p: e1.get_style(p) for p in e1.iter_styles()}; s2 = {p: e2.get_style(p) for p in e2.iter_styles()}
        for p, v in s1.items():
            if p not in s2:
                if no_component(v): continue        # specified without any component: nothing to write, nothing changes
                diffs.append(("style-lost", p.__name__, v)); continue
            values.append((p, v, s2[p]))
        for p in s2:
            if p not in s1: diffs.append(("style-appeared", p.__name__, s2[p]))
        a1 = list(e1.iter_animation_steps()); a2 = list(e2.iter_animation_steps())
        if len(a1) != len(a2): diffs.append(("animation-steps", len(a1), len(a2), [(a.style_property.__name__, a.value) for a in a1]))
        else:
            for x, y in zip(a1, a2):
                if x.style_property is not y.style_property: diffs.append(("animation-property", x.style_property.__name__, y.style_property.__name__))
                else: values.append((x.style_property, x.value, y.value))
                tpair(x.begin, y.begin, True); tpair(x.end, y.end, False)
    def tpair(a, b, is_begin):
        if is_begin:
            a = a if a is not None else F(0); b = b if b is not None else F(0)
        if a is None and b is not None: return None        # an indefinite end re-read as the computed implicit end: checked by implicit_end below
        if (a is None) != (b is None): diffs.append(("time-presence", a, b)); return None
        if a is not None:
            times.append((a, b)); return (a, b)
        return None
    def el(e1, e2):
        if isinstance(e1, (MergedText, m.Text)) and isinstance(e2, (MergedText, m.Text)):
            if e1.get_text() != e2.get_text(): diffs.append(("text", e1.get_text(), e2.get_text()))
            return
        if type(e1) is not type(e2): diffs.append(("kind", type(e1).__name__, type(e2).__name__)); return
        if isinstance(e1, m.Text):
            if e1.get_text() != e2.get_text(): diffs.append(("text", e1.get_text(), e2.get_text()))
            return
        if not isinstance(e1, m.Br):
            tpair(e1.get_begin(), e2.get_begin(), True); tpair(e1.get_end(), e2.get_end(), False)
            if e1.get_end() is None and exact and e2.get_end() != eff_end(e1) and not isinstance(e1, m.Body):
                diffs.append(("implicit-end", eff_end(e1), e2.get_end()))
            r1 = e1.get_region().get_id() if not isinstance(e1, m.Region) and e1.get_region() else None
            r2 = e2.get_region().get_id() if not isinstance(e2, m.Region) and e2.get_region() else None
            if r1 != r2: diffs.append(("region", r1, r2))
        if e1.get_space() != e2.get_space(): diffs.append(("space", e1.get_space(), e2.get_space()))
        if e1.get_lang() != e2.get_lang(): diffs.append(("lang", e1.get_lang(), e2.get_lang()))
        sty(e1, e2, e1)
        c1 = merge_texts([c for c in e1 if not never_active(c)]); c2 = merge_texts(list(e2))
        pairs = list(zip(c1, c2)) if len(c1) == len(c2) else (None if exact else align(c1, c2, unit))
        if pairs is None:
            diffs.append(("children", [type(c).__name__ for c in c1], [type(c).__name__ for c in c2])); return
        g = []
        for a, b in pairs:
            if not isinstance(a, (m.Text, m.Br, MergedText)) and type(a) is type(b):
                ba = a.get_begin() or F(0); bb = b.get_begin() or F(0); g.append((ba, bb))
            el(a, b)
        if len(g) > 1: groups.append(g)
    if d1.get_lang() != d2.get_lang(): diffs.append(("doc-lang", d1.get_lang(), d2.get_lang()))
    if d1.get_cell_resolution() != d2.get_cell_resolution(): diffs.append(("cell-resolution", d1.get_cell_resolution(), d2.get_cell_resolution()))
    if d1.get_display_aspect_ratio() != d2.get_display_aspect_ratio(): diffs.append(("dar", d1.get_display_aspect_ratio(), d2.get_display_aspect_ratio()))
    a1, a2 = d1.get_active_area(), d2.get_active_area()
    if (a1 is None) != (a2 is None): diffs.append(("active-area", a1, a2))
    elif a1 is not None: values.append((None, a1, a2))
    r1 = list(d1.iter_regions()); r2 = list(d2.iter_regions())
    if [r.get_id() for r in r1] != [r.get_id() for r in r2]: diffs.append(("regions", [r.get_id() for r in r1], [r.get_id() for r in r2]))
    else:
        for a, b in zip(r1, r2): el(a, b)
    i1 = dict(d1.iter_initial_values()); i2 = dict(d2.iter_initial_values())
    for p, v in i1.items():
        if p not in i2: diffs.append(("initial-lost", p.__name__, v))
        else: values.append((p, v, i2[p]))
    b1, b2 = d1.get_body(), d2.get_body()
    if (b1 is None) != (b2 is None): diffs.append(("body", b1, b2))
    elif b1 is not None: el(b1, b2)


def uses_px(doc):
    import ttconv.model as m, ttconv.style_properties as s
    def lens(x):
        if isinstance(x, s.LengthType): yield x
        elif dataclasses.is_dataclass(x):
            for f in dataclasses.fields(x): yield from lens(getattr(x, f.name))
        elif isinstance(x, tuple):
            for y in x: yield from lens(y)
    def el(e):
        if isinstance(e, m.Text): return False
        for p in e.iter_styles():
            if any(l.units is s.LengthType.Units.px for l in lens(e.get_style(p))): return True
        for a in e.iter_animation_steps():
            if any(l.units is s.LengthType.Units.px for l in lens(a.value)): return True
        return any(el(c) for c in e)
    return any(el(r) for r in doc.iter_regions()) or (doc.get_body() is not None and el(doc.get_body()))


LOSSY = ("linepadding-units", "fontfamily-empty", "transparent-background", "textdecoration-no-component")


def classify_diff(d, trig):
    """the finding that explains one difference of the round trip, given the triggers the document meets; None = unexplained"""
    k = d[0]
    if k == "lang" and "lang-not-written" in trig: return "lang-not-written"
    if k in ("style-lost", "initial-lost"):
        import ttconv.style_properties as s
        t = set(); value_triggers(getattr(s.StyleProperties, d[1]), d[2], t)
        for f in LOSSY:
            if f in t: return f
    if k == "animation-steps":
        import ttconv.style_properties as s
        for name, v in d[3]:
            t = set(); value_triggers(getattr(s.StyleProperties, name), v, t)
            for f in LOSSY:
                if f in t: return f
    # a negative offset is printed as "-24f" / "-1:59:59:24" by the frame syntaxes; the reader rejects it, the element then begins with
    # its parent and may no longer have (or now have) an empty interval, so elements are kept or pruned differently
    if k in ("implicit-end", "time-presence", "children") and "negative-time" in trig: return "negative-time"
    return None


def main():
    run = C.Run(PROP, "proof")
    run.hygiene()
    sys.path.insert(0, C.SRC)
    load_proposed(run)
    changed, errors = gen_tables.generate({"ImscTables"})
    if errors:
        run.violation("table translator failed closed: " + "; ".join(errors), dict(kind="translator", errors=errors), False)
        return run.finish()
    ok, log = run.build(TARGETS, clean=(run.tier == "thorough"))
    proofs_ok = ok and run.theorems()
    if not ok: run.proof_log = log[-3000:]
    run.witnesses()
    import logging
    logging.getLogger("ttconv").addHandler(logging.NullHandler()); logging.getLogger("ttconv").propagate = False
    import ttconv.model as m, ttconv.style_properties as s
    import ttconv.imsc.style_properties as isp, ttconv.imsc.attributes as at
    import ttconv.imsc.writer as iw, ttconv.imsc.reader as ir
    from ttconv.imsc.utils import to_ttml_number
    from ttconv.imsc.config import IMSCWriterConfiguration
    TE = at.TimeExpressionSyntaxEnum
    rng = run.rng; thorough = run.tier == "thorough"
    C.clean_cases("Cases_C05_")
    names = DG.prop_names()
    pid = {p: names.index(p.__name__) for p in s.StyleProperties.ALL}
    vg = DG.ValueGen(rng, 0.15)
    props = sorted(s.StyleProperties.ALL, key=lambda p: p.__name__)
    unlisted = []; known_hits = {}
    def hit(fid, what): known_hits.setdefault(fid, []).append(what)

    # ---------------------------------------------------------------- (a1) style values: from_model, has_px
    nval = 30000 if thorough else 3000
    defs = []; vinfo = []; written = []
    for i in range(nval):
        p = props[i % len(props)] if i < 20 * len(props) else rng.choice(props)
        v = vg.value(p)
        cls = isp.StyleProperties.BY_MODEL_PROP[p]
        e = et.Element("x")
        try:
            cls.from_model(e, v)
            got = e.get(f"{{{cls.ns}}}{cls.local_name}")
            exp = "WSkip" if got is None else f"(WAttr {C.text(got)})"
            if got is not None: written.append((p, got, v))
        except (AttributeError, TypeError) as ex:
            got = None; exp = f"(WErr {EXC[type(ex).__name__]})"
        try:
            hp = C.boolean(bool(cls.has_px(v)))
        except AttributeError as ex:
            hp = "false"; unlisted.append(("has_px-raises", p.__name__, repr(v), str(ex)))
        lit = DG.sval_lit(p, v)
        if lit is None:
            defs.append((i, f"Definition c0_{i} := true.\nDefinition c1_{i} := true.\n")); vinfo.append((p, v, got, False)); continue
        defs.append((i, f"Definition c0_{i} := case_print {pid[p]} {lit} {exp}.\nDefinition c1_{i} := case_has_px {pid[p]} {lit} {hp}.\n"))
        vinfo.append((p, v, got, True))
        if exp.startswith("(WErr"): unlisted.append(("writer-exception", p.__name__, repr(v)))
    (bad_print, bad_px), broken1 = shards("Cases_C05_val_", defs, 2)
    run.log(f"style values: {nval} (property, value) pairs ({sum(1 for x in vinfo if x[3])} in the model's value forms): print mismatches {len(bad_print)}, has_px mismatches {len(bad_px)}")

    # ---------------------------------------------------------------- (a1b) format(x, 'g')
    ng = 20000 if thorough else 3000
    defs = []; ginfo = []
    for i in range(ng):
        r = rng.random()
        if r < 0.3: x = F(rng.randrange(-10 ** 7, 10 ** 7), rng.choice([1, 2, 3, 7, 10, 100, 1000, 10 ** 6, 10 ** 9, 999999]))
        elif r < 0.5: x = F(rng.uniform(-1, 1) * 10 ** rng.randint(-8, 8))
        elif r < 0.7:
            # around rounding ties and around the notation switches
            k = rng.randint(-7, 7); base = rng.randrange(100000, 1000000)
            x = (F(2 * base + 1, 2) + rng.choice([0, 0, F(1, 10 ** 9), -F(1, 10 ** 9)])) * F(10) ** k
        elif r < 0.85: x = F(rng.choice([999999, 9999995, 99999949, 1000000, 999999.5, 0.0001, 0.00009999995, 0.000099999949, 100000, 123456.5, 0, 1, -1, 0.5]))
        else: x = F(rng.randrange(1, 10 ** 6)) / 10 ** rng.randint(0, 12)
        if rng.random() < 0.1: x = -x
        want = format(x, "g")
        if rng.random() < 0.5 and x.denominator.bit_length() < 60:
            fl = float(x)
            if F(fl) == x and x != 0 and format(fl, "g") != want:
                # the model identifies a float with the rational it denotes: both must format alike
                unlisted.append(("float-and-fraction-format-differently", str(x), want, format(fl, "g")))
        num = to_ttml_number(x)
        if "e" in num.lower(): unlisted.append(("to_ttml_number-writes-an-exponent", str(x), num))
        # float() on what the writer writes and on perturbed strings of the transcribed fragment ([sign] digits [. digits])
        fs = num if rng.random() < 0.7 else rng.choice(["", "+", "-", ".", "1.", ".5", "-.5", "+1.25", "1..2", "1.2.3", "--1", "1-", "007", "0.0", "-0"])
        fl = float_lit(fs)
        defs.append((i, f"Definition c0_{i} := case_g {C.q(x)} {C.text(want)}.\nDefinition c1_{i} := case_num {C.q(x)} {C.text(num)}.\n"
                        f"Definition c2_{i} := case_float {C.text(fs)} {fl}.\n")); ginfo.append((x, want, num, fs))
    (bad_g, bad_num, bad_float), broken2 = shards("Cases_C05_g_", defs, 3)
    run.log(f"format(x,'g') / to_ttml_number / float(): {ng} rationals, mismatches {len(bad_g)} / {len(bad_num)} / {len(bad_float)}"
            + (f", first {ginfo[(bad_g + bad_num + bad_float)[0]]}" if bad_g + bad_num + bad_float else ""))

    # ---------------------------------------------------------------- (a2) time printing and frame-rate attributes
    nt = 20000 if thorough else 3000
    defs = []; tinfo = []
    SYN = {TE.clock_time: "SyClock", TE.frames: "SyFrames", TE.clock_time_with_frames: "SyClockFrames"}
    for i in range(nt):
        syn = rng.choice(list(SYN)); fps = rng.choice(FPS + [None])
        if syn is TE.clock_time_with_frames and fps is not None and fps.denominator != 1: fps = F(rng.choice([24, 25, 30, 50, 60]))
        r = rng.random()
        if r < 0.3: t = F(rng.randrange(0, 400000 * 1000), 1000)
        elif r < 0.5 and fps: t = F(rng.randrange(0, 10 ** 7)) / fps
        elif r < 0.6: t = F(rng.randrange(0, 10 ** 6), rng.choice([3, 7, 1001, 2000, 4000, 30000]))
        elif r < 0.7: t = F(2 * rng.randrange(0, 10 ** 6) + 1, 2000)
        elif r < 0.75: t = -F(rng.randrange(1, 10 ** 4), rng.choice([1, 3, 1000]))
        else: t = F(rng.randrange(0, 4 * 10 ** 5 * 10 ** 3), 10 ** 3) + F(rng.randrange(0, 1000), 10 ** 6)
        ctx = at.TemporalAttributeWritingContext(frame_rate=fps, time_expression_syntax=syn)
        try:
            got = at.to_time_format(ctx, t)
        except ValueError:
            got = None
        if t < 0 and got is not None:
            got = None          # frames syntaxes print something the reader rejects: outside the model, finding negative-time
            hit("negative-time", f"to_time_format({syn.name}, {fps}, {t})")
        elif t < 0: hit("negative-time", f"to_time_format({syn.name}, {fps}, {t}) raises ValueError")
        defs.append((i, f"Definition c0_{i} := case_time_print {SYN[syn]} {C.opt(fps, C.q)} {C.q(t)} {C.opt(got, C.text)}.\n"))
        tinfo.append((syn.name, fps, t, got))
    k0 = nt
    for j, fps in enumerate(FPS + [F(48), F(120), F(60000, 1001), F(12)]):
        e = et.Element("x"); at.FrameRateAttribute.set(e, fps)
        defs.append((k0 + j, f"Definition c0_{k0 + j} := case_frame_rate {C.q(fps)} {C.text(e.get(at.FrameRateAttribute.frame_rate_qn))} {C.opt(e.get(at.FrameRateAttribute.frame_rate_multiplier_qn), C.text)}.\n"))
        tinfo.append(("frameRate", fps, None, None))
    (bad_t,), broken3 = shards("Cases_C05_time_", defs, 1)
    run.log(f"time printing: {nt} (syntax, frame rate, time) triples, mismatches {len(bad_t)}" + (f", first {tinfo[bad_t[0]]}" if bad_t else ""))

    # ---------------------------------------------------------------- (a3) extract on written and perturbed strings
    nx = 30000 if thorough else 4000
    defs = []; xinfo = []
    hand = ["", "none", "normal", "auto", "1px", "1.5em 2c", "10% 10% 10% 10%", "left 10px top 5%", "center", "right 1c", "bottom", "1px 2px 3px #ff0000",
            "1px 2px, 3px 4px red", "#FFFFFF", "#ffffff80", "rgb(1, 2, 3)", "rgba(1,2,3,4)", "Red", "transparent", "underline noOverline", "filled circle before",
            "open sesame #010203 after", "both 1em", "outside", "red 2px", "1px", "true", "false", "left", "right", "lr", "tb", "-1.5%", "+2c", ".5em", "5.px", "1e3px",
            "1 px", "px", "1px\n", "12rh", "12rw", "100%", "250%", "-250%", "center center", "top left", "10px 20px 30px", "left 10px", "bottom 5% right 1c"]
    ctx = None
    colgen = IC.ColorGen(rng); color_cats = collections.Counter(); ncolor = 0
    for i in range(nx):
        r = rng.random()
        if r < 0.5 and written:
            p, sv, _ = rng.choice(written)
        elif r < 0.75 and written:
            p, sv, _ = rng.choice(written)
            k = rng.random()
            if k < 0.5 and sv:
                j = rng.randrange(len(sv)); sv = sv[:j] + rng.choice("0123456789.# ,-+ex%pcAFz\u0663\uff15\u00a0") + sv[j + (rng.random() < 0.5):]
            elif k < 0.7: sv = sv + rng.choice([" ", "x", "0", " 1px", ",", "\n"])
            elif k < 0.85: sv = sv[:rng.randrange(len(sv) + 1)]
            else: sv = " " + sv
        elif r < 0.9:
            p = rng.choice(props); sv = rng.choice(hand)
        else:
            # colour expressions and their near misses (harness/imsc_common.py ColorGen: trailing characters, components above 255, digits and
            # white space outside ASCII, inner white space, ...), alone and inside the values that contain a colour
            _, cs, cats = colgen.sample(); color_cats.update(cats); ncolor += 1
            p, sv = rng.choice([(s.StyleProperties.Color, cs), (s.StyleProperties.BackgroundColor, cs), (s.StyleProperties.Color, cs),
                                (s.StyleProperties.TextOutline, cs + " 2px"), (s.StyleProperties.TextShadow, "1px 2px " + cs),
                                (s.StyleProperties.TextShadow, "1px 2px 3px " + cs + ", 1em 1em"), (s.StyleProperties.TextEmphasis, "filled circle " + cs),
                                (s.StyleProperties.TextEmphasis, cs + " open after")])
        if p is s.StyleProperties.FontFamily or (p in (s.StyleProperties.Opacity, s.StyleProperties.LuminanceGain) and any(c not in "0123456789+-." for c in sv)):
            # parse_font_families is not transcribed; float() only on the fragment [sign] digits [. digits]
            p = rng.choice([s.StyleProperties.FontSize, s.StyleProperties.Color, s.StyleProperties.Padding, s.StyleProperties.Position, s.StyleProperties.TextShadow])
        cls = isp.StyleProperties.BY_MODEL_PROP[p]
        try:
            v = cls.extract(ctx, sv)
            if not p.validate(v): exp = "None"; kind = "invalid"      # set_style / DiscreteAnimationStep reject it: ValueError, logged
            else:
                lit = DG.sval_lit(p, v, DG.qrepr); exp = f"(Some {lit})"; kind = "value"
                if isinstance(v, float) and (v != v or v in (float("inf"), float("-inf"))): continue
        except (ValueError, KeyError):
            exp = "None"; kind = "rejected"
        except Exception as ex:
            unlisted.append(("extract-exception", p.__name__, sv, type(ex).__name__)); continue
        defs.append((i, f"Definition c0_{i} := case_extract {pid[p]} {C.text(sv)} {exp}.\n")); xinfo.append((i, p.__name__, sv, kind))
    (bad_x,), broken4 = shards("Cases_C05_ext_", defs, 1)
    xi = {a: (b, c, d) for a, b, c, d in xinfo}
    run.log(f"extract: {len(defs)} (property, string) pairs ({sum(1 for x in xinfo if x[3] == 'value')} accepted; {ncolor} with a colour expression or a near miss: {dict(sorted(color_cats.items()))}), "
            f"mismatches {len(bad_x)}" + (f", first {xi[bad_x[0]]}" if bad_x else ""))

    # ---------------------------------------------------------------- (b), (c) documents: write, re-read, compare
    ndoc = 5000 if thorough else 300
    cfgs = [("none", None, None), ("clock_time", TE.clock_time, None)]
    rt_defs = []; rt_info = []; nsnap = 0; nrt = 0; wrote = 0; stats = dict(exact=0, inexact=0); wt_defs = []
    tree_print = set(); tree_time = set()
    t0 = time.time()
    for i in range(ndoc):
        r = rng.random()
        if r < 0.25: name, tf, fps = "none", None, None
        elif r < 0.45: name, tf, fps = "clock_time", TE.clock_time, rng.choice(FPS + [None])
        elif r < 0.7: name, tf, fps = "frames", TE.frames, rng.choice(FPS)
        elif r < 0.8: name, tf, fps = "fps-only", None, rng.choice(FPS)
        else: name, tf, fps = "clock_time_with_frames", TE.clock_time_with_frames, F(rng.choice([24, 25, 30, 50, 60]))
        cfg = None if name == "none" else IMSCWriterConfiguration(time_format=tf, fps=fps)
        syn = "Clock" if name in ("none", "clock_time") else ("Frames" if name in ("frames", "fps-only") else "ClockFrames")
        unit = F(1, 1000) if syn == "Clock" else 1 / fps
        exact = rng.random() < 0.7
        # representable documents use a multiple of the unit near 1/4 s
        du = unit * max(1, round(F(1, 4) / unit)) if exact else unit
        doc = DG.ModelDocGen(rng, unit=du, exact=exact, p_finding=0.02 if rng.random() < 0.5 else 0.0).document()
        trig = doc_triggers(doc)
        stats["exact" if exact else "inexact"] += 1
        rec = dict(i=i, config=name, fps=str(fps), exact=exact, triggers=sorted(trig))
        try:
            tree = iw.from_model(doc, cfg)
            buf = io.BytesIO(); tree.write(buf, encoding="utf-8"); data = buf.getvalue()
        except Exception as ex:
            kind = type(ex).__name__
            if kind == "ValueError" and "negative-time" in trig: hit("negative-time", f"document {i}: writer raises ValueError")
            else: unlisted.append(("writer-raises", i, kind, str(ex)[:100]))
            continue
        wrote += 1
        # (a) the whole tree the writer built against Model/ImscWriteTree.v write_doc (documents with negative times are outside its domain)
        if "negative-time" not in trig:
            wt_defs.append((i, f"Definition c0_{i} := case_write {C.opt(tf, lambda x: SYN[x])} {C.opt(fps, C.q)} {DG.wdoc_lit(doc)} (Some {IC.Lit().xml(tree.getroot())}).\n"))
        # (a) on the tree the writer built: every style attribute and time expression of the tree against M's printers
        def tree_cases(me, xe):
            if isinstance(me, m.Text): return
            for pr in me.iter_styles():
                cls = isp.StyleProperties.BY_MODEL_PROP[pr]; got = xe.get(f"{{{cls.ns}}}{cls.local_name}")
                lit_ = DG.sval_lit(pr, me.get_style(pr))
                if lit_ is not None: tree_print.add((pid[pr], lit_, "WSkip" if got is None else f"(WAttr {C.text(got)})"))
            if not isinstance(me, m.Br):
                for nm, tv in (("begin", me.get_begin()), ("end", me.get_end())):
                    if tv is not None and tv >= 0 and xe.get(nm) is not None:
                        tree_time.add((SYN[tf] if tf is not None else ("SyFrames" if fps is not None else "SyClock"), C.opt(fps, C.q), C.q(tv), C.text(xe.get(nm))))
            sets = [c for c in xe if c.tag == IC.q(IC.NS_TT, "set")]
            for st, xs in zip(me.iter_animation_steps(), sets):
                cls = isp.StyleProperties.BY_MODEL_PROP[st.style_property]; got = xs.get(f"{{{cls.ns}}}{cls.local_name}")
                lit_ = DG.sval_lit(st.style_property, st.value)
                if lit_ is not None: tree_print.add((pid[st.style_property], lit_, "WSkip" if got is None else f"(WAttr {C.text(got)})"))
            kids = [c for c in xe if c.tag != IC.q(IC.NS_TT, "set")]
            mk = [c for c in me if not isinstance(c, m.Text)]
            if len(kids) == len(mk):
                for a, b in zip(mk, kids): tree_cases(a, b)
        root = tree.getroot()
        xb = root.find(IC.q(IC.NS_TT, "body"))
        if xb is not None and doc.get_body() is not None and "negative-time" not in trig: tree_cases(doc.get_body(), xb)
        for xr in root.iter(IC.q(IC.NS_TT, "region")):
            mr = doc.get_region(xr.get(IC.q(IC.NS_XML, "id")))
            if mr is not None and "negative-time" not in trig: tree_cases(mr, xr)
        h = IC.LogCapture(); lg = logging.getLogger("ttconv"); lg.addHandler(h); lg.setLevel(logging.DEBUG)
        try:
            doc2 = ir.to_model(et.ElementTree(et.fromstring(data)))
        except Exception as ex:
            lg.removeHandler(h)
            unlisted.append(("reread-raises", i, type(ex).__name__, data.decode()[:400])); continue
        lg.removeHandler(h)
        logs = [x for x in h.records if x[0] in ("ERROR", "WARNING", "CRITICAL")]
        diffs = []; times = []; groups = []; values = []
        compare_docs(doc, doc2, diffs, times, groups, values, exact, unit)
        if doc.get_px_resolution() != doc2.get_px_resolution() and uses_px(doc): diffs.append(("px-resolution", doc.get_px_resolution(), doc2.get_px_resolution()))
        nrt += 1
        if any(a >= 86400 for a, _ in times): stats["with_times_of_24h_and_more"] = stats.get("with_times_of_24h_and_more", 0) + 1
        if any(a >= 360000 for a, _ in times): stats["with_times_of_100h_and_more"] = stats.get("with_times_of_100h_and_more", 0) + 1
        # differences and log records must be explained by a finding whose trigger the document meets
        for d in diffs:
            fid = classify_diff(d, trig)
            if fid: hit(fid, f"document {i}: {d[0]}")
            else: unlisted.append(("round-trip-difference", i, d[0], str(d[1:])[:200], data.decode()[:600]))
        if logs:
            expl = trig & {"linepadding-units", "fontfamily-empty", "negative-time"}
            if expl:
                for f in expl: hit(f, f"document {i}: re-read logs {logs[0][1]}")
            else: unlisted.append(("reread-logs", i, logs[:3], data.decode()[:600]))
        # S in Coq: offsets, order, values
        neg = "negative-time" in trig
        tl = "[" + ";".join(f"({C.q(a)},{C.q(b)})" for a, b in times if not neg) + "]"
        gl = "[" + ";".join("[" + ";".join(f"({C.q(a)},{C.q(b)})" for a, b in g) + "]" for g in groups if not neg) + "]"
        vl = []
        for p, v1, v2 in values:
            t = set()
            if p is not None: value_triggers(p, v1, t, True)
            if "shear-clamped" in t:
                if not approx(v1, v2): hit("shear-clamped", f"document {i}: shear {v1} re-read as {v2}")
                continue
            if "fontfamily-empty" in t:          # an empty family name next to others: the others are re-read, the empty one is lost
                if not approx(v1, v2): hit("fontfamily-empty", f"document {i}: font families {v1} re-read as {v2}")
                continue
            vl.append(f"({atoms(v1)},{atoms(v2)})")
        fq = C.q(fps) if fps is not None else "(Qmake 1 1)"
        rt_defs.append((i, f"Definition c0_{i} := case_rt_times {syn} {fq} {tl}.\nDefinition c1_{i} := case_rt_order {gl}.\n"
                           f"Definition c2_{i} := case_rt_values [{';'.join(vl)}].\n"))
        rec["values"] = [(p.__name__ if p is not None else None, repr(v1), repr(v2)) for p, v1, v2 in values if not approx(v1, v2)][:6]
        rt_info.append(rec)
        # snapshots: only when every offset is representable and nothing structural differs
        if exact and not diffs and not neg and not (trig & {"transparent-background", "shear-clamped", "textdecoration-no-component"}):
            import ttconv.isd as I
            try:
                ts = sorted(set(I.ISD.significant_times(doc)))
            except Exception:
                ts = []
            pr = sorted(set(ts) | {(a + b) / 2 for a, b in zip(ts, ts[1:])})[:14] or [F(0)]
            for t in pr:
                try:
                    a = snap(doc, t)
                except Exception:
                    continue            # the original itself has no snapshot here (C18)
                try:
                    why = same_snap(a, snap(doc2, t))
                except Exception as ex:
                    why = f"snapshot of the re-read document raises {type(ex).__name__}"
                nsnap += 1
                if why:
                    unlisted.append(("snapshot-differs", i, str(t), why, data.decode()[:600])); break
    (bad_rt_t, bad_rt_o, bad_rt_v), broken5 = shards("Cases_C05_rt_", rt_defs, 3)
    tdefs2 = [(j, f"Definition c0_{j} := case_print {a} {b} {c}.\n") for j, (a, b, c) in enumerate(sorted(tree_print))]
    n1 = len(tdefs2)
    tdefs2 += [(n1 + j, f"Definition c0_{n1 + j} := case_time_print {a} {b} {c} (Some {d}).\n") for j, (a, b, c, d) in enumerate(sorted(tree_time))]
    (bad_tree,), broken6 = shards("Cases_C05_tree_", tdefs2, 1)
    # configurations the writer refuses (ValueError): the model's select_format says the same
    for j, (tf_, fps_) in enumerate([(TE.frames, None), (TE.clock_time_with_frames, None), (TE.clock_time_with_frames, F(30000, 1001)), (TE.clock_time_with_frames, F(25)), (TE.clock_time, None)]):
        try:
            tr_ = iw.from_model(m.ContentDocument(), IMSCWriterConfiguration(time_format=tf_, fps=fps_)); exp_ = f"(Some {IC.Lit().xml(tr_.getroot())})"
        except ValueError:
            exp_ = "None"
        wt_defs.append((ndoc + j, f"Definition c0_{ndoc + j} := case_write (Some {SYN[tf_]}) {C.opt(fps_, C.q)} {DG.wdoc_lit(m.ContentDocument())} {exp_}.\n"))
    (bad_wtree,), broken7 = shards("Cases_C05_wtree_", wt_defs, 1)
    run.log(f"writer trees, whole: {len(wt_defs)} documents through Model/ImscWriteTree.v write_doc against the ElementTree built by imsc.writer.from_model, mismatches {len(bad_wtree)}"
            + (f", first document #{bad_wtree[0]}" if bad_wtree else ""))
    run.log(f"writer trees: {len(tree_print)} distinct style attributes and {len(tree_time)} distinct time expressions of the written trees against the model's printers, mismatches {len(bad_tree)}"
            + (f", first {tdefs2[bad_tree[0]][1][:300]}" if bad_tree else ""))
    run.log(f"documents: {ndoc} generated, {wrote} written, {nrt} re-read and compared, {nsnap} snapshot pairs in {time.time() - t0:.1f}s; "
            f"S failures: times {len(bad_rt_t)}, order {len(bad_rt_o)}, values {len(bad_rt_v)}")
    for k, lst in (("time moved by a unit or more / representable time not exact", bad_rt_t), ("order of sibling offsets changed", bad_rt_o),
                   ("style value not reproduced to 6 significant digits", bad_rt_v)):
        for i in lst[:2]: unlisted.append(("S-fails", i, k, [r for r in rt_info if r["i"] == i][0]))

    C.clean_cases("Cases_C05_")
    # ---------------------------------------------------------------- verdict
    for fid, whats in sorted(known_hits.items()):
        if not run.known(fid, f"{len(whats)} cases, e.g. {whats[0]}"):
            unlisted += [("unlisted-finding", fid, w) for w in whats[:2]]
    for u in unlisted[:4]:
        run.violation(f"{u[0]}: {str(u[1:])[:300]}", dict(kind="S-on-code", failure=u[0], detail=[str(x) for x in u[1:]]))
    rc, out = C.coqc(C.COQ + "/Findings/C05.v", 600)
    if rc != 0: run.cov["stale_findings"] = ["coq/Findings/C05.v no longer compiles: " + out[-300:]]
    n_mism = len(bad_print) + len(bad_px) + len(bad_g) + len(bad_num) + len(bad_float) + len(bad_t) + len(bad_x) + len(bad_tree) + len(bad_wtree)
    all_broken = broken1 + broken2 + broken3 + broken4 + broken5 + broken6 + broken7
    if (n_mism or all_broken or not proofs_ok) and not unlisted:
        what = []
        if not proofs_ok: what.append("theorems of coq/Properties/C05.v no longer check: " + getattr(run, "proof_log", "")[-600:])
        if bad_print: what.append(f"print_style disagrees with from_model on {len(bad_print)} values, first {vinfo[bad_print[0]][:3]}")
        if bad_px: what.append(f"has_px disagrees on {len(bad_px)} values, first {vinfo[bad_px[0]][:2]}")
        if bad_g: what.append(f"format_g disagrees with format(x,'g') on {len(bad_g)} numbers, first {ginfo[bad_g[0]]}")
        if bad_num: what.append(f"print_num disagrees with imsc.utils.to_ttml_number on {len(bad_num)} numbers, first {ginfo[bad_num[0]]}")
        if bad_float: what.append(f"parse_float disagrees with float() on {len(bad_float)} strings, first {ginfo[bad_float[0]]}")
        if bad_t: what.append(f"to_time_format disagrees on {len(bad_t)} inputs, first {tinfo[bad_t[0]]}")
        if bad_tree: what.append(f"the attributes of the tree built by imsc.writer.from_model disagree with the model's printers on {len(bad_tree)} attributes, first {tdefs2[bad_tree[0]][1][:300]}")
        if bad_wtree: what.append(f"Model/ImscWriteTree.v write_doc disagrees with the tree built by imsc.writer.from_model on {len(bad_wtree)} documents, first #{bad_wtree[0]}")
        if bad_x: what.append(f"extract_style disagrees with extract on {len(bad_x)} strings, first {xi[bad_x[0]]}")
        if all_broken: what.append(f"case files did not evaluate: {all_broken[0]}")
        run.violation("; ".join(what), dict(kind="broken-tie", theorem_file="coq/Properties/C05.v", proofs_ok=proofs_ok), found_input=False)
    run.cov.update(evaluations=nval + ng + nt + len(xinfo) + nrt + nsnap,
                   distinct_nontrivial=len({(x[0].__name__, repr(x[1])) for x in vinfo}) + len({x[0] for x in ginfo}) + nrt,
                   rule="style values: every property in every value form through from_model / has_px; rationals through format(x,'g') (ties, notation switches); "
                        "times through to_time_format in the 3 syntaxes x 7 frame rates; written and perturbed strings through extract, one in ten a colour expression or a "
                        "near miss of one (trailing characters, components above 255, digits / white space outside ASCII, inner white space); canonical documents "
                        "(all element kinds incl. rp, animation steps, timed regions, initial values, xml:space/lang) x {no config, clock_time, frames, "
                        "clock_time_with_frames, fps only} x 7 frame rates written, serialised, re-read and compared (parameters, tree, offsets, order, specified "
                        "values, snapshots at significant times and midpoints when offsets are representable). distinct_nontrivial = distinct (property, value) "
                        "pairs + distinct rationals + documents compared.",
                   samples=[dict(property=vinfo[0][0].__name__, value=repr(vinfo[0][1]), written=vinfo[0][2]), dict(time=str(tinfo[0]))],
                   documents=ndoc, documents_written=wrote, documents_compared=nrt, snapshot_pairs=nsnap, documents_by_time_mode=stats,
                   extract_strings=len(xinfo), extract_color_strings=ncolor, extract_color_shapes=dict(sorted(color_cats.items())),
                   findings_hit={k: len(v) for k, v in known_hits.items()}, model_code_mismatches=n_mism)
    run.assumptions += ["floats are compared as the rationals they denote; floats read by the code are identified with the decimal they were read from (repr)",
                        "parse_font_families is outside the model: tts:fontFamily is compared through the round trip only; float() is transcribed on the fragment [sign] digits [. digits] only",
                        "snapshots are compared in the harness (structure, text, every computed style to 1e-5 relative), offsets and specified values inside Coq by Spec/ImscRoundTripSpec.v",
                        "generic font family 'default' and 'monospaceSerif' are identified (IMSC 1.1)"]
    return run.finish(["harness/gen_c04.py (tables)", "harness/imsc_docgen.py (document generator, value literals)", "XML serialisation and parsing (ElementTree, expat)"])


if __name__ == "__main__":
    sys.exit(main())
