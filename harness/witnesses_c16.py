"""C16 witnesses.  The recorded finding of C16 (lcd-nested-region-conflict, `finding` line of KNOWN_FINDINGS.txt) is exercised by
harness/c16.py (finding_witnesses) and registered here under its id: it is expected to fail while the defect is there.
Everything else must pass: the witnesses of the repaired defects (a7b547e lcd-bg-no-body, c0beb1f lcd-region-end-zero,
d8691ec lcd-position, 5958b0b lcd-position-survives, 2d34128 lcd-preserve-text-align-merge) and the regression witnesses below."""
import os, re
from fractions import Fraction
from witnesses import witness


def _mk(fid):
    def f():
        import c16
        return c16.finding_witnesses().get(fid)
    return f


for _fid in ("lcd-nested-region-conflict", "lcd-position", "lcd-position-survives", "lcd-preserve-text-align-merge"):
    witness("C16", _fid)(_mk(_fid))


@witness("C16", "lcd-config-boundaries")
def _():
    """every field of LCDDocFilterConfig through its decoder: safe_area accepts exactly 0..30, colours parse, absent keys = defaults"""
    import ttconv.style_properties as s
    from ttconv.filters.doc.lcd import LCDDocFilterConfig
    ok = []
    for v in range(-3, 35):
        try: ok.append(LCDDocFilterConfig.parse({"safe_area": v}).safe_area)
        except ValueError: pass
    if ok != list(range(0, 31)): return f"safe_area values accepted: {ok}"
    c = LCDDocFilterConfig.parse({})
    if (c.safe_area, c.preserve_text_align, c.color, c.bg_color) != (10, False, None, None): return f"defaults: {c}"
    c = LCDDocFilterConfig.parse({"safe_area": 30, "preserve_text_align": True, "color": "#01020304", "bg_color": "transparent"})
    if (c.safe_area, c.preserve_text_align, c.color, c.bg_color) != (30, True, s.ColorType((1, 2, 3, 4)), s.NamedColors.transparent.value): return f"decoded: {c}"
    try:
        LCDDocFilterConfig.parse({"color": 5}); return "color=5 accepted"
    except ValueError: pass


def _doc():
    import ttconv.model as m, ttconv.style_properties as s
    SP = s.StyleProperties; L = s.LengthType; U = L.Units
    d = m.ContentDocument(); rs = []
    for i, (o, e) in enumerate([((5, 5), (40, 90)), ((5, 60), (30, 90)), ((10, 70), (20, 80))]):
        r = m.Region(f"r{i}", d); d.put_region(r); rs.append(r)
        r.set_style(SP.Origin, s.CoordinateType(x=L(o[0], U.pct), y=L(o[1], U.pct)))
        r.set_style(SP.Extent, s.ExtentType(height=L(e[0], U.pct), width=L(e[1], U.pct)))
    b = m.Body(d); d.set_body(b)
    for i, r in enumerate(rs):
        dv = m.Div(d); dv.set_region(r); b.push_child(dv); p = m.P(d); p.set_id(f"p{i}"); dv.push_child(p)
        p.set_begin(Fraction(i)); p.set_end(Fraction(i + 2)); p.set_style(SP.FontStyle, s.FontStyleType.italic)
        for k in range(3): p.add_animation_step(m.DiscreteAnimationStep(SP.Color, Fraction(k), Fraction(k + 1), s.NamedColors.red.value))
        sp = m.Span(d); p.push_child(sp); sp.push_child(m.Text(d, f"text{i}"))
    return d, rs


@witness("C16", "lcd-merges-and-keeps-timeline")
def _():
    import ttconv.model as m, ttconv.style_properties as s
    from ttconv.isd import ISD
    from ttconv.filters.doc.lcd import LCDDocFilter, LCDDocFilterConfig
    SP = s.StyleProperties
    d, rs = _doc()
    def texts(t): return sorted(e.get_text() for r in ISD.from_model(d, t).iter_regions() for e in r.dfs_iterator() if isinstance(e, m.Text))
    ts = [Fraction(k, 2) for k in range(0, 10)]
    before = [texts(t) for t in ts]
    LCDDocFilter(LCDDocFilterConfig(safe_area=5, color=s.NamedColors.blue.value)).process(d)
    regs = list(d.iter_regions())
    if [r.get_id() for r in regs] != ["r0", "r1"]: return f"regions after the filter: {[r.get_id() for r in regs]} (r2 should be merged into r1)"
    for r in regs:
        o = r.get_style(SP.Origin); e = r.get_style(SP.Extent)
        if (o.x.value, o.y.value, e.height.value, e.width.value) != (5, 5, 90, 90): return f"region {r.get_id()} not at the safe area"
    if [r.get_style(SP.DisplayAlign).name for r in regs] != ["before", "after"]: return "displayAlign of the retained regions"
    for e in d.get_body().dfs_iterator():
        if list(e.iter_animation_steps()): return "animation step left"
        if e.get_region() is not None and e.get_region() not in regs: return "dangling region reference"
        if any(p not in (SP.Color, SP.TextAlign) for p in e.iter_styles()): return f"style left on {type(e).__name__}: {list(e.iter_styles())}"
    if before != [texts(t) for t in ts]: return "text timeline changed"


@witness("C16", "lcd-bg-no-body")
def _():
    import ttconv.model as m, ttconv.style_properties as s
    from ttconv.filters.doc.lcd import LCDDocFilter, LCDDocFilterConfig
    d = m.ContentDocument(); r = m.Region("r0", d); d.put_region(r)
    try:
        LCDDocFilter(LCDDocFilterConfig(bg_color=s.NamedColors.red.value, color=s.NamedColors.blue.value)).process(d)
    except Exception as e:
        return f"document without body, bg_color=red: {type(e).__name__}: {e}"
    if d.get_body() is not None or [x.get_id() for x in d.iter_regions()] != ["r0"]: return "document changed shape"


@witness("C16", "lcd-region-end-zero")
def _():
    import ttconv.model as m
    from ttconv.isd import ISD
    from ttconv.filters.doc.lcd import LCDDocFilter, LCDDocFilterConfig
    for first_is_dead in (True, False):
        d = m.ContentDocument(); rs = []
        for i in range(2):
            r = m.Region(f"r{i}", d); d.put_region(r); rs.append(r)
        dead, live = (rs[0], rs[1]) if first_is_dead else (rs[1], rs[0])
        dead.set_end(Fraction(0))
        b = m.Body(d); d.set_body(b)
        for reg, txt in ((live, "shown"), (dead, "never")):
            dv = m.Div(d); dv.set_region(reg); b.push_child(dv); p = m.P(d); dv.push_child(p); sp = m.Span(d); p.push_child(sp); sp.push_child(m.Text(d, txt))
        def texts(t): return sorted(e.get_text() for r in ISD.from_model(d, t).iter_regions() for e in r.dfs_iterator() if isinstance(e, m.Text))
        before = [texts(t) for t in (0, 1)]
        LCDDocFilter(LCDDocFilterConfig()).process(d)
        if len(list(d.iter_regions())) != 2: return f"region with end=0 merged with an always-active one (dead region first: {first_is_dead})"
        after = [texts(t) for t in (0, 1)]
        if before != after or before != [["shown"], ["shown"]]: return f"visible text before {before}, after {after}"
