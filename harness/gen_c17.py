"""C17: coq/Gen/SccWordSrc.v, the Gallina model regenerated from ttconv/scc/word.py by harness/pytrans_scc.py
(picked up by gen_tables.py / tools/setup.sh; fail-closed)."""
import pytrans_scc

GENERATORS = {"SccWordSrc": pytrans_scc.gen_sccword_src}
