"""C17 — CEA-608 word decoding.  Theorems: coq/Properties/C17.v (finite domain, in-kernel).  Ties: the enum
tables are regenerated from the source (Gen/SccTables.v), and the hand model of the lookup logic is
compared with SccWord on all 65 536 values inside Coq; S (Spec/Cea608Words.v) is evaluated on the
implementation's own output for every word.  Second tie: harness/pytrans_scc.py regenerates Gen/SccWordSrc.v from the
current scc/word.py (fail-closed) and Proofs/C17/SrcRefines.v decides in the kernel that it equals the hand model on
all 65 536 values (the calls into scc/codes/*.py are hand-written externs, Model/SccWordExt.v)."""
import sys, os, re
import common as C
import gen_tables

FIELDS = "cls chan code row indent color italic under bg t1 t2".split()


def impl_row(v):
    from ttconv.scc.word import SccWord
    from ttconv.scc.codes import SccChannel
    from ttconv.scc.codes.control_codes import SccControlCode
    from ttconv.scc.codes.attribute_codes import SccAttributeCode
    from ttconv.scc.codes.mid_row_codes import SccMidRowCode
    from ttconv.scc.codes.preambles_address_codes import SccPreambleAddressCode
    from ttconv.scc.codes.special_characters import SccSpecialCharacter
    from ttconv.scc.codes.extended_characters import SccExtendedCharacter
    from ttconv.style_properties import FontStyleType
    w = SccWord.from_value(v)
    c = w.get_code(); ch = w.get_channel()
    chan = {None: 0, SccChannel.CHANNEL_1: 1, SccChannel.CHANNEL_2: 2}[ch]
    pc = gen_tables.packcolor
    row = [8, chan, -1, -1, -1, -1, 0, 0, 0, -1, -1]
    if c is None:
        if w.is_code() or (w.value != 0 and w.byte_1 < 0x20): row[0] = 8
        elif w.value == 0: row[0] = 0
        else:
            t = w.to_text(); row[0] = 1
            # to_text drops zero bytes: first char always present for byte_1 >= 0x20
            cps = [ord(x) for x in t]
            row[9] = cps[0] if cps else -1
            row[10] = cps[1] if len(cps) > 1 else -1
            if len(cps) > 2: row[0] = -7
    elif isinstance(c, SccPreambleAddressCode):
        ind = c.get_indent()
        row = [2, chan, -1, c.get_row(), -1 if ind is None else ind, pc(c.get_color()),
               int(c.get_font_style() is FontStyleType.italic), int(c.get_text_decoration() is not None and c.get_text_decoration().underline is True), 0, -1, -1]
    elif isinstance(c, SccControlCode):
        row = [4, chan, gen_tables.CONTROL_IDS.get(c.get_name(), -5), -1, -1, -1, 0, 0, 0, -1, -1]
    elif isinstance(c, SccAttributeCode):
        td = c.get_text_decoration()
        row = [5, chan, c.get_values()[0], -1, -1, pc(c.get_color()), 0, int(td is not None and td.underline is True), int(bool(c.is_background())), -1, -1]
    elif isinstance(c, SccMidRowCode):
        td = c.get_text_decoration()
        row = [3, chan, c.get_values()[0], -1, -1, pc(c.get_color()), int(c.get_font_style() is FontStyleType.italic),
               int(td is not None and td.underline is True), 0, -1, -1]
    elif isinstance(c, (SccSpecialCharacter, SccExtendedCharacter)):
        row = [6 if isinstance(c, SccSpecialCharacter) else 7, chan, c.get_values()[0], -1, -1, -1, 0, 0, 0, ord(c.get_unicode_value()), -1]
    else:
        row[0] = -6
    return row, w


def main():
    run = C.Run("C17", "proof")
    run.hygiene()
    sys.path.insert(0, C.SRC)
    changed, errors = gen_tables.generate({"SccTables"})
    if errors:
        run.violation("table translator failed closed: " + "; ".join(errors), dict(kind="translator", errors=errors), False)
        return run.finish()
    if changed: run.log("tables regenerated from source:", changed)
    # tie by translation: regenerate Gen/SccWordSrc.v from the current scc/word.py (fail-closed)
    changed2, trans_errors = gen_tables.generate({"SccWordSrc"})
    if ("Gen/SccWordSrc.v" in open(C.COQ + "/_CoqProject").read()) != (not trans_errors):
        with C.Lock(): C.sh(["sh", C.VERIF + "/tools/mkproject.sh"], 60)
    if trans_errors:
        run.violation("translator harness/pytrans_scc.py failed closed on ttconv/scc/word.py (construct outside the translated subset, or a "
                      "changed signature): " + "; ".join(trans_errors),
                      dict(kind="translator", translator="harness/pytrans_scc.py", source="ttconv/scc/word.py", errors=trans_errors), found_input=False)
    ok, log = run.build(["Proofs/C17/Decode.vo", "Model/SccWordCases.vo"], clean=(run.tier == "thorough"))
    ok_src, log_src = (False, "")
    if not trans_errors: ok_src, log_src = run.build(["Proofs/C17/SrcRefines.vo"], clean=(run.tier == "thorough"))
    thm_ok = run.theorems()
    proofs_ok = ok and ok_src and thm_ok
    if not ok: run.proof_log = log[-2500:]
    elif not ok_src and not trans_errors: run.proof_log = "refinement coq/Proofs/C17/SrcRefines.v (model regenerated from scc/word.py = Model/SccWord.v) no longer compiles: " + log_src[-1500:]
    run.cov["source_tie"] = dict(
        translator="harness/pytrans_scc.py -> coq/Gen/SccWordSrc.v (regenerated on this run)" if not trans_errors else "FAILED: " + "; ".join(trans_errors),
        refinement_compiles=bool(ok_src),
        tied_by_translation_and_refinement_theorem=["SccWord.__init__", "_decipher_parity_bit", "from_value", "from_bytes", "is_code", "_find_code (lookup order)",
                                                    "get_channel (dispatch)", "to_text"] if ok_src else [],
        tied_by_differential_runs_only=["scc/codes/*.py: SccCode.find / contains_value / get_channel, SccPreambleAddressCode (externs of Model/SccWordExt.v = "
                                        "the look-ups of Model/SccWord.v over the regenerated tables)", "SccWord.from_str / _is_hex_word (text parsing)", "disassembly"])
    run.witnesses()

    # ---- implementation on all 65 536 words ---------------------------------------------------------
    import logging; logging.disable(logging.CRITICAL)
    from ttconv.scc.disassembly import get_scc_word_disassembly
    from ttconv.scc.line import SccLine
    from ttconv.scc.word import SccWord
    rows = []; dis_fail = []
    for v in range(65536):
        try:
            r, w = impl_row(v)
        except Exception as e:
            run.violation(f"decoding word {v:#06x} raised {type(e).__name__}: {e}", dict(kind="S-on-code", word=v, clause="total")); return run.finish()
        rows.append(r)
        for sc in (False, True):
            d = get_scc_word_disassembly(w, sc)
            if not d: dis_fail.append((v, "empty disassembly"))
            if (d == "{??}") != (r[0] == 8): dis_fail.append((v, f"disassembly {d!r} for class {r[0]}"))
    # "only channel-1 field-1 data is ever decoded", at the reader: after a control-range word that is NOT a channel-1 field-1 code
    # (a channel-2 or field-2 code, an XDS / unknown word with first byte below 10h) the printable pairs that follow belong to that other
    # service: a pop-on caption AA <w> BB must read as "AA".  S here is the classification of Spec/Cea608Words.v through impl_row (class 8 =
    # unknown, channel != 1), the observation is ttconv.scc.reader.to_model on a three-line file.
    import ttconv.scc.reader as _scc_reader
    from ttconv.scc.codes import SccChannel as _Chan
    def _caption_text(doc):
        import ttconv.model as _m
        return "".join(e.get_text() for e in doc.get_body().dfs_iterator() if isinstance(e, _m.Text)) if doc.get_body() is not None else ""
    others = [v for v in range(0x0100, 0x2000) if (v & 0x7F7F) == v and (v & 0xFF) != 0
              and (lambda w: w.byte_1 < 0x20 and w.get_channel() is not _Chan.CHANNEL_1)(SccWord.from_value(v))]
    chan_fail, n_chan = [], 0
    for v in run.rng.sample(others, min(len(others), 160 if run.tier == "quick" else len(others))):
        w = f"{v:04x}"
        text = f"Scenarist_SCC V1.0\n\n00:00:01:00\t9420 9470 c1c1 {w} c2c2 942f\n\n00:00:03:00\t942c\n"
        try:
            got = _caption_text(_scc_reader.to_model(text))
        except Exception as ex:
            got = f"raised {type(ex).__name__}"
        n_chan += 1
        if got != "AA": chan_fail.append((w, got))
    if chan_fail:
        run.violation(f"data following the non-channel-1 word {chan_fail[0][0]} is decoded as channel-1 caption text: 'AA' expected, {chan_fail[0][1]!r} read "
                      f"({len(chan_fail)} of {n_chan} words)", dict(kind="S-on-code", clause="only channel-1 field-1 data is ever decoded",
                      stream=f"9420 9470 c1c1 {chan_fail[0][0]} c2c2 942f", read=chan_fail[0][1], failures=[list(x) for x in chan_fail[:20]]))
    run.cov["non_channel_1_words_followed_by_text"] = n_chan
    # lines of up to 4 words: the line disassembly renders every word, in order
    n_lines = 3000 if run.tier == "quick" else 60000
    for _ in range(n_lines):
        k = run.rng.randrange(1, 5); ws = [run.rng.randrange(65536) for _ in range(k)]
        tc = "%02d:%02d:%02d:%02d" % (run.rng.randrange(24), run.rng.randrange(60), run.rng.randrange(60), run.rng.randrange(30))
        line = SccLine.from_str(tc + "\t" + " ".join("%04x" % w for w in ws))
        want = tc + "\t" + "".join(get_scc_word_disassembly(SccWord.from_value(w)) for w in ws)
        if line is None or line.to_disassembly() != want: dis_fail.append((ws, "line disassembly differs from the concatenation of its words"))
    logging.disable(logging.NOTSET)

    # ---- Coq: M vs code and S vs code on every word -------------------------------------------------
    C.clean_cases("Cases_C17_")
    nshard = 16; per = 65536 // nshard; files = []
    for k in range(nshard):
        lo = k * per
        body = ";\n".join("[" + ";".join(C.z(x) for x in r) + "]" for r in rows[lo:lo + per])
        txt = ("From TT Require Import Base.Prelude Base.SccTypes Model.SccWord Spec.Cea608Words Model.SccWordCases.\n"
               f"Definition py : list (list Z) := [\n{body}].\n"
               f"Eval vm_compute in check_all (cases_model {lo} py).\n"
               f"Eval vm_compute in check_all (cases_spec {lo} py).\n"
               f"Eval vm_compute in check_all (cases_spec_strict {lo} py).\n")
        p = f"{C.GEN}/Cases_C17_{k}.v"; open(p, "w").write(txt); files.append((lo, p))
    res = C.coqc_many([p for _, p in files], 900)
    m_bad, s_bad, strict_bad, broken = [], [], [], []
    for lo, p in files:
        rc, out = res[p]
        flat = " ".join(out.split())
        ms = re.findall(r"=\s*\(\s*(\d+)\s*,\s*(\[[^\]]*\]|nil)\s*\)", flat)
        if rc != 0 or len(ms) != 3:
            broken.append((p, out[-400:])); continue
        for lst, (_, b) in zip((m_bad, s_bad, strict_bad), ms):
            lst += [lo + int(x) for x in re.findall(r"\d+", b)]
    C.clean_cases("Cases_C17_")
    run.log(f"65536 words: model/code mismatches {len(m_bad)}, S failures outside findings {len(s_bad)}, "
            f"S failures incl. findings {len(strict_bad)}, disassembly failures {len(dis_fail)}, broken case files {len(broken)}")

    # recorded finding: must still fire on the code, and Findings/C17.v must still compile
    rc, out = C.coqc(C.COQ + "/Findings/C17.v", 300)
    caret = [w for w in strict_bad if w not in s_bad]
    if caret:
        run.known("caret-turned-v", "words " + ", ".join(f"{w:#06x}" for w in caret[:4]))
    if rc != 0 or not caret:
        run.cov["stale_findings"] = ["caret-turned-v: " + ("Findings/C17.v no longer compiles" if rc else "no word triggers it any more")]

    def describe(w):
        return dict(word=f"{w:#06x}", implementation=dict(zip(FIELDS, rows[w])))
    if s_bad:
        run.violation(f"CEA-608 decoding of word {s_bad[0]:#06x} contradicts the standard: {dict(zip(FIELDS, rows[s_bad[0]]))}",
                      dict(kind="S-on-code", spec="coq/Spec/Cea608Words.v spec_ok", first=describe(s_bad[0]), others=[describe(w) for w in s_bad[1:20]], count=len(s_bad)))
    if dis_fail:
        run.violation(f"disassembly: {dis_fail[0]}", dict(kind="S-on-code", clause="disassembly renders every word", failures=[str(x) for x in dis_fail[:20]]))
    if (m_bad or broken or not proofs_ok) and not (s_bad or dis_fail) and not (trans_errors and ok and not m_bad and not broken):
        what = []
        if not proofs_ok and not (trans_errors and ok): what.append("theorems of coq/Properties/C17.v no longer check: " + getattr(run, "proof_log", "")[-700:])
        if m_bad: what.append(f"correspondence Model/SccWord.v vs scc/word.py disagrees on {len(m_bad)} words, first {m_bad[0]:#06x}")
        if broken: what.append(f"case files did not evaluate: {broken[0]}")
        run.violation("; ".join(what), dict(kind="broken-tie", theorem_file="coq/Properties/C17.v", proofs_ok=proofs_ok,
                                            correspondence="Model/SccWord.v decode vs SccWord on all words",
                                            mismatching_words=[describe(w) for w in m_bad[:20]]), found_input=False)
    distinct = len({tuple(r) for r in rows})
    run.cov.update(evaluations=65536 * 3 + n_lines, distinct_nontrivial=distinct, exhaustive=True,
                   rule="all 65 536 word values (exhaustive) through SccWord.from_value: class, channel, code identity, PAC row/indent/"
                        "colour/italics/underline, text; compared inside Coq with M (decode) and judged by S (spec_ok); plus the "
                        "disassembly of every single word (both show_channel settings) and of random lines of 1-4 words. "
                        "distinct_nontrivial = number of distinct decoded views.",
                   samples=[describe(0x9420), describe(0x1370), describe(0x4c6f)],
                   class_histogram={str(k): sum(1 for r in rows if r[0] == k) for k in range(9)},
                   model_code_mismatches=len(m_bad), s_failures_on_code=len(s_bad), lines_checked=n_lines)
    # `a or b` over Optional code objects in _find_code is translated as "first that is not None": code objects must be truthy
    from ttconv.scc.codes.control_codes import SccControlCode as _K1
    from ttconv.scc.codes.attribute_codes import SccAttributeCode as _K2
    from ttconv.scc.codes.mid_row_codes import SccMidRowCode as _K3
    from ttconv.scc.codes.special_characters import SccSpecialCharacter as _K4
    from ttconv.scc.codes.extended_characters import SccExtendedCharacter as _K5
    from ttconv.scc.codes.preambles_address_codes import SccPreambleAddressCode as _K6
    falsy = [str(m) for k in (_K1, _K2, _K3, _K4, _K5) for m in k if not m] + ([] if _K6(0x11, 0x40) else ["SccPreambleAddressCode"])
    if falsy:
        run.violation("a code object is falsy, so `x.find(v) or ...` in SccWord._find_code skips it; the translation of `or` in "
                      "harness/pytrans_scc.py is not valid: " + ", ".join(falsy[:5]), dict(kind="translator-assumption", falsy=falsy), found_input=False)
    run.assumptions += ["Gen/SccWordSrc.v: `a or b` over Optional code objects means first-not-None (code objects are truthy: checked on every run); "
                        "to_bytes OverflowError for negative values and the codes/*.py externs are not translated",
                        "S (Spec/Cea608Words.v) is a reading of CTA-608-E tables 50-53; for glyph-only characters and for 'green' it accepts a set of code points / RGB values",
                        "the harness maps Python objects to the 11-integer decoded view (harness/c17.py impl_row)"]
    return run.finish(["harness/gen_tables.py (table translator, fail-closed)",
                       "harness/pytrans.py + pytrans_scc.py (fail-closed ast -> Gallina translator), coq/Base/PyNum.v, coq/Model/SccWordExt.v (externs)"])


if __name__ == "__main__":
    sys.exit(main())
