"""Witnesses of the findings recorded for C10 (ids as in findings_proposed/C10.txt / KNOWN_FINDINGS.txt).
Each returns None when the reader behaves as the property says and a string otherwise (expected while the
finding is open)."""
import io
from fractions import Fraction
from witnesses import witness

H = "1\n00:00:01,000 --> 00:00:02,000\n"

def _read(txt, stream=io.StringIO):
    import ttconv.srt.reader as r, ttconv.model as m
    d = r.to_model(stream(txt))
    ps = list(list(d.get_body())[0])
    return d, ps

def _texts(p):
    import ttconv.model as m
    return [e.get_text() for e in p.dfs_iterator() if isinstance(e, m.Text)]

@witness("C10", "brace-short-tags")
def _():
    import ttconv.style_properties as s
    d, ps = _read(H + "{b}x{/b}\n")
    if "".join(_texts(ps[0])) != "x": return f"text read as {''.join(_texts(ps[0]))!r}, expected 'x' in bold"

@witness("C10", "stray-end-tag")
def _():
    try:
        d, ps = _read(H + "a</b>c\n")
    except (TypeError, AttributeError) as e:
        return f"a</b>c raises {type(e).__name__}"
    if "".join(_texts(ps[0])) != "ac": return f"text read as {_texts(ps[0])!r}"

@witness("C10", "literal-backslash-n-backslash-r")
def _():
    d, ps = _read(H + "C:\\n\\rx\n")
    if "".join(_texts(ps[0])) != "C:\\n\\rx": return f"text read as {_texts(ps[0])!r}"

@witness("C10", "crlf-kept-in-untranslated-stream")
def _():
    d, ps = _read("1\r\n00:00:01,000 --> 00:00:02,000\r\na\r\nb\r\n")
    if _texts(ps[0]) != ["a", "b"]: return f"lines read as {_texts(ps[0])!r}"

@witness("C10", "srt-hours-three-digits-exact")
def _():
    d, ps = _read("7\n100:59:59,999 --> 999:00:00,001\nx\n")
    if ps[0].get_begin() != Fraction(363599999, 1000) or ps[0].get_end() != Fraction(3596400001, 1000) \
       or not isinstance(ps[0].get_begin(), Fraction):
        return f"begin={ps[0].get_begin()!r} end={ps[0].get_end()!r}"
