"""Witnesses of the findings recorded for C10 (ids as in findings_proposed/C10.txt / KNOWN_FINDINGS.txt); all of them are
repaired in the code.  Each returns None when the reader behaves as the property says and a string otherwise."""
import io
from fractions import Fraction
from witnesses import witness

H = "1\n00:00:01,000 --> 00:00:02,000\n"

def _read(txt, stream=io.StringIO):
    import ttconv.srt.reader as r, ttconv.model as m
    d = r.to_model(stream(txt))
    ps = list(list(d.get_body())[0])
    return d, ps

def _texts(p):
    import ttconv.model as m
    return [e.get_text() for e in p.dfs_iterator() if isinstance(e, m.Text)]

def _styled(p):
    """[(character, bold?, italic?, underline?)] in document order, styles inherited from the enclosing spans"""
    import ttconv.model as m, ttconv.style_properties as s
    SP = s.StyleProperties
    out = []
    def walk(e, st):
        b = st[0] or e.get_style(SP.FontWeight) is s.FontWeightType.bold
        i = st[1] or e.get_style(SP.FontStyle) is s.FontStyleType.italic
        td = e.get_style(SP.TextDecoration)
        u = st[2] or (td is not None and td.underline is True)
        if isinstance(e, m.Text): out.extend((ch, b, i, u) for ch in e.get_text())
        elif isinstance(e, m.Br): out.append(("\n", b, i, u))
        for c in e: walk(c, (b, i, u))
    for c in p: walk(c, (False, False, False))
    return out

@witness("C10", "brace-short-tags")
def _():
    d, ps = _read(H + "{b}x{/b}{i}y{/i}{u}z{/u}w\n")
    got = _styled(ps[0])
    if got != [("x", True, False, False), ("y", False, True, False), ("z", False, False, True), ("w", False, False, False)]:
        return f"{{b}}x{{/b}}{{i}}y{{/i}}{{u}}z{{/u}}w read as the text {''.join(g[0] for g in got)!r} with styles {[g[1:] for g in got if g[0] in 'xyzw']!r}"

@witness("C10", "stray-end-tag")
def _():
    try:
        d, ps = _read(H + "a</b>c\n")
    except (TypeError, AttributeError) as e:
        return f"a</b>c raises {type(e).__name__}"
    if "".join(_texts(ps[0])) != "ac": return f"text read as {_texts(ps[0])!r}"
    # a closer that does not name the open element closes nothing
    d, ps = _read(H + "<b>x</i>y</b>z\n")
    got = _styled(ps[0])
    if got != [("x", True, False, False), ("y", True, False, False), ("z", False, False, False)]: return f"<b>x</i>y</b>z read as {got!r}"
    # a cue made of closers only, followed by another cue (the cursor used to end up above the body)
    try:
        d, ps = _read(H + "</i></i></i></i>\n\n2\n00:00:03,000 --> 00:00:04,000\nnext\n")
    except (TypeError, AttributeError) as e:
        return f"closers only: {type(e).__name__}"
    if [_texts(p) for p in ps] != [[], ["next"]]: return f"closers only: read as {[_texts(p) for p in ps]!r}"

@witness("C10", "literal-backslash-n-backslash-r")
def _():
    d, ps = _read(H + "C:\\n\\rx\n")
    if "".join(_texts(ps[0])) != "C:\\n\\rx": return f"text read as {_texts(ps[0])!r}"

@witness("C10", "crlf-kept-in-untranslated-stream")
def _():
    d, ps = _read("1\r\n00:00:01,000 --> 00:00:02,000\r\na\r\nb\r\n")
    if _texts(ps[0]) != ["a", "b"]: return f"lines read as {_texts(ps[0])!r}"
    d, ps = _read("1\r\n00:00:01,000 --> 00:00:02,000\r\na\r\nb\r\nc")
    if _texts(ps[0]) != ["a", "b", "c"]: return f"lines read as {_texts(ps[0])!r}"

@witness("C10", "hours-beyond-999-rejected")
def _():
    import ttconv.srt.writer as w
    d, ps = _read(H + "x\n")
    ps[0].set_begin(Fraction(3599999)); ps[0].set_end(Fraction(3600000))
    txt = w.from_model(d)
    import ttconv.srt.reader as r
    d2 = r.to_model(io.StringIO(txt))
    if d2 is None: return f"the writer's output {txt!r} is not read (None returned)"
    ps2 = list(list(d2.get_body())[0])
    if len(ps2) != 1 or ps2[0].get_begin() != 3599999 or ps2[0].get_end() != 3600000: return f"{txt!r} read as {[(p.get_begin(), p.get_end()) for p in ps2]!r}"
    # both time codes beyond 999 h, hour fields of four and thirteen digits
    ps[0].set_begin(Fraction(3600000)); ps[0].set_end(Fraction(4444444444444444444, 1000))
    txt = w.from_model(d)
    d2 = r.to_model(io.StringIO(txt))
    if d2 is None: return f"the writer's output {txt!r} is not read (None returned)"
    ps2 = list(list(d2.get_body())[0])
    if len(ps2) != 1 or ps2[0].get_begin() != 3600000 or ps2[0].get_end() != Fraction(4444444444444444444, 1000):
        return f"{txt!r} read as {[(p.get_begin(), p.get_end()) for p in ps2]!r}"

@witness("C10", "srt-hours-three-digits-exact")
def _():
    d, ps = _read("7\n100:59:59,999 --> 999:00:00,001\nx\n")
    if ps[0].get_begin() != Fraction(363599999, 1000) or ps[0].get_end() != Fraction(3596400001, 1000) \
       or not isinstance(ps[0].get_begin(), Fraction):
        return f"begin={ps[0].get_begin()!r} end={ps[0].get_end()!r}"
