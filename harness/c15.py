"""C15 — the canonical model stays a well-formed tree under any sequence of API calls.

Theorems: coq/Properties/C15.v (invariant by induction over call sequences of the heap machine
coq/Model/Heap.v; S = coq/Spec/ModelWF.v).  Tie: operation-sequence correspondence.  Random histories
of 1-40 calls (valid and invalid arguments; every public method of ContentElement / ContentDocument,
the read-only ones included) over a universe of 2 documents and 22 elements are run on the real
ttconv.model objects; after EVERY call the whole object graph is dumped through the public getters
(plus, read-only, the private dictionaries for their key order and Region._users) into a heap
literal; inside Coq the dumped heap must equal M's heap after the same call from the same state, the
outcome class (returned / which exception) and the returned value must equal M's, and S (wf_b,
atomicity of rejected single-element calls) and the representation invariant rep_b are evaluated on
the dumped heap.  The validate functions of style_properties.py are compared with M's `validate` on
every (property, sample value) pair, the _applicableStyles tables on every (class, property) pair."""
import json, os
import os, re, sys, json, random
from fractions import Fraction
import common as C

KINDS = ["Body", "Body", "Div", "Div", "P", "P", "Span", "Span", "Br", "Text", "Ruby", "Rb", "Rt", "Rt", "Rp", "Rp",
         "Rbc", "Rtc", "Rtc", "Region", "Region", "Region"]
REGION_IDS = {19: 1, 20: 1, 21: 2}           # two Region objects share the id "r1"
IDS = {0: "a", 1: "r1", 2: "r2", 3: "zz"}
IDTAG = {v: k for k, v in IDS.items()}
NDOCS = 2
TEXTS = ["", "a", "b c"]                      # Text contents; the heap holds the index
LANGS = ["", "en", "fr"]                      # document languages
PROPS = ["BackgroundColor", "Color", "Direction", "Disparity", "Display", "DisplayAlign", "Extent", "FillLineGap",
         "FontFamily", "FontSize", "FontStyle", "FontWeight", "LineHeight", "LinePadding", "LuminanceGain",
         "MultiRowAlign", "Opacity", "Origin", "Overflow", "Padding", "Position", "RubyAlign", "RubyPosition",
         "RubyReserve", "Shear", "ShowBackground", "TextAlign", "TextCombine", "TextDecoration", "TextEmphasis",
         "TextOutline", "TextShadow", "UnicodeBidi", "Visibility", "WrapOption", "WritingMode"]
UNITS = {"em": "Uem", "pct": "Upct", "rh": "Urh", "rw": "Urw", "c": "Uc", "px": "Upx"}
ENUMS = {"DirectionType": "EDirection", "DisplayType": "EDisplay", "DisplayAlignType": "EDisplayAlign",
         "FontStyleType": "EFontStyle", "FontWeightType": "EFontWeight", "MultiRowAlignType": "EMultiRowAlign",
         "OverflowType": "EOverflow", "RubyAlignType": "ERubyAlign", "AnnotationPositionType": "EAnnotationPosition",
         "ShowBackgroundType": "EShowBackground", "TextAlignType": "ETextAlign", "TextCombineType": "ETextCombine",
         "UnicodeBidiType": "EUnicodeBidi", "VisibilityType": "EVisibility", "WrapOptionType": "EWrapOption",
         "WritingModeType": "EWritingMode", "GenericFontFamilyType": "EGenericFontFamily"}
EXN = {"RuntimeError": 1, "ValueError": 2, "TypeError": 3, "AttributeError": 4, "IndexError": 5}


class Junk:          # a field value that is not a LengthType
    pass


# ------------------------------------------------------------------ values: Python object <-> shape
def classify(v):
    """shape (Gallina sval literal) of a Python value, by inspection of the object only"""
    import ttconv.style_properties as sp
    import numbers
    def ou(x):
        return f"(Some {UNITS[x.units.name]})" if isinstance(x, sp.LengthType) else "None"
    def items(t):
        return "[" + ";".join("FStr" if isinstance(i, str) else "FGeneric" if isinstance(i, sp.GenericFontFamilyType) else "FOther" for i in t) + "]"
    if isinstance(v, sp.ColorType): return "VColor"
    if isinstance(v, sp.LengthType): return f"(VLen {UNITS[v.units.name]})"
    if isinstance(v, sp.SpecialValues): return "(VSpecial SNone)" if v is sp.SpecialValues.none else "(VSpecial SNormal)"
    if type(v).__name__ in ENUMS and type(v) is getattr(sp, type(v).__name__, None): return f"(VEnum {ENUMS[type(v).__name__]})"
    if isinstance(v, bool): return "VBool"
    if isinstance(v, numbers.Number): return "VNum"
    if isinstance(v, str): return "VStr"
    if isinstance(v, tuple): return f"(VTuple {items(v)})"
    if isinstance(v, list): return f"(VList {items(v)})"
    if isinstance(v, sp.ExtentType): return f"(VExtent {ou(v.height)} {ou(v.width)})"
    if isinstance(v, sp.CoordinateType): return f"(VCoord {ou(v.x)} {ou(v.y)})"
    if isinstance(v, sp.PositionType): return f"(VPos {ou(v.h_offset)} {ou(v.v_offset)})"
    if isinstance(v, sp.PaddingType): return "VPadding"
    if isinstance(v, sp.RubyReserveType): return "VRubyReserve"
    if isinstance(v, sp.TextDecorationType): return "VTextDec"
    if isinstance(v, sp.TextEmphasisType): return "VTextEmph"
    if isinstance(v, sp.TextOutlineType): return "VTextOutline"
    if isinstance(v, sp.TextShadowType): return "VTextShadow"
    return "VOther"


def value_pool():
    """sample values of every shape the validate functions can tell apart (valid and invalid ones)"""
    import ttconv.style_properties as sp
    L = sp.LengthType; U = L.Units
    pool = [sp.ColorType((255, 0, 0, 255)), sp.NamedColors.red.value, sp.NamedColors.red]
    pool += [L(1, u) for u in U]
    pool += [L(Fraction(1, 2), U.c), L(0.5, U.pct)]
    for name in ENUMS:
        pool.append(list(getattr(sp, name))[0]); pool.append(list(getattr(sp, name))[-1])
    pool += [sp.SpecialValues.none, sp.SpecialValues.normal, True, False, 1, 0.5, Fraction(1, 3), "x", "",
             (), ("a",), (sp.GenericFontFamilyType.serif,), ("a", sp.GenericFontFamilyType.default), (1,), ("a", 1), (1, 2),
             (None,), ["a"], [], object(), None.__class__, b"x", {"a": 1}]
    fields = [L(1, u) for u in U] + [Junk(), 3]
    for a in fields:
        for b in fields:
            pool.append(sp.ExtentType(height=a, width=b))
            pool.append(sp.CoordinateType(x=a, y=b))
            pool.append(sp.PositionType(h_offset=a, v_offset=b))
    pool += [sp.PaddingType(), sp.RubyReserveType(), sp.RubyReserveType(sp.RubyReserveType.Position.both, L(1, U.em)),
             sp.TextDecorationType(), sp.TextDecorationType(underline=True), sp.TextEmphasisType(),
             sp.TextOutlineType(L(1, U.c)), sp.TextOutlineType(L(1, U.px), sp.NamedColors.red.value),
             sp.TextShadowType(()), sp.TextShadowType((sp.TextShadowType.Shadow(L(1, U.px), L(1, U.px)),))]
    return pool


def doc_pools():
    """values of the Document parameters; the heap holds the index (0 = the default where there is one)"""
    import ttconv.model as m
    return dict(active=[m.ActiveAreaType(0.1, 0.1, 0.8, 0.8), m.ActiveAreaType()],
                cell=[m.CellResolutionType(rows=15, columns=32), m.CellResolutionType(rows=10, columns=20), m.CellResolutionType(rows=5, columns=40)],
                px=[m.PixelResolutionType(width=1920, height=1080), m.PixelResolutionType(width=640, height=480)],
                dar=[Fraction(16, 9), Fraction(4, 3)], lang=LANGS)


def tag_of(pool, v):
    if v is None: return None
    for i, x in enumerate(pool):
        if type(x) is type(v) and x == v: return i
    return 99


def props_table():
    """StyleProperties.ALL by name; fail closed on an unknown or missing property"""
    import ttconv.style_properties as sp
    names = sorted(p.__name__ for p in sp.StyleProperties.ALL)
    if names != sorted(PROPS):
        raise RuntimeError(f"StyleProperties.ALL changed: {sorted(set(names) ^ set(PROPS))}")
    return {n: getattr(sp.StyleProperties, n) for n in PROPS}


# ------------------------------------------------------------------ universe, dump
class Universe:
    def __init__(self, docsel, kinds=None, region_ids=None):
        import ttconv.model as m
        self.m = m
        self.kinds = kinds or KINDS
        region_ids = region_ids or REGION_IDS
        self.docs = [m.ContentDocument() for _ in range(NDOCS)]
        self.els = []
        self.init = []
        for i, k in enumerate(self.kinds):
            d = docsel[i]
            doc = None if d is None else self.docs[d]
            if k == "Region":
                e = m.Region(IDS[region_ids[i]], doc); idt = region_ids[i]
            else:
                e = getattr(m, k)(doc); idt = None
            self.els.append(e); self.init.append((k, d, idt))
        self.index = {id(e): i for i, e in enumerate(self.els)}
        self.dindex = {id(d): i for i, d in enumerate(self.docs)}
        self.pools = doc_pools()

    def ref(self, e):
        if e is None: return None
        return self.index.get(id(e), 99)

    def dref(self, d):
        if d is None: return None
        return self.dindex.get(id(d), 99)

    def idtag(self, s):
        if s is None: return None
        return IDTAG.get(s, 98)

    def dump(self):
        """the object graph as (nodes, docs) of hashable tuples, through the public getters"""
        m = self.m
        nodes = []
        for i, e in enumerate(self.els):
            styles = tuple((p.__name__, classify(e.get_style(p))) for p in e.iter_styles())
            anims = tuple((a.style_property.__name__, classify(a.value)) for a in e.iter_animation_steps())
            users = tuple(sorted(self.ref(u) for u in getattr(e, "_users", ())))       # read-only: Region._users
            text = tag_of(TEXTS, e.get_text()) if self.kinds[i] == "Text" else 0
            nodes.append((self.kinds[i], self.dref(e.get_doc()), self.ref(e.parent()), self.ref(e.first_child()),
                          self.ref(e.last_child()), self.ref(e.next_sibling()), self.ref(e.previous_sibling()),
                          self.ref(e.get_region()), e.get_begin() is not None, e.get_end() is not None,
                          self.idtag(e.get_id()), e.get_lang() != "", e.get_space() is m.WhiteSpaceHandling.PRESERVE,
                          styles, anims, users, text))
        docs = []
        for d in self.docs:
            regs = tuple((self.idtag(k), self.ref(r)) for k, r in d._regions.items())   # read-only: key order
            if [r for _, r in regs] != [self.ref(r) for r in d.iter_regions()]:
                raise RuntimeError("iter_regions disagrees with the registry")
            inits = tuple((p.__name__, classify(v)) for p, v in d.iter_initial_values())
            P = self.pools
            docs.append((regs, self.ref(d.get_body()), inits, tag_of(P["active"], d.get_active_area()), tag_of(P["cell"], d.get_cell_resolution()),
                         tag_of(P["px"], d.get_px_resolution()), tag_of(P["dar"], d.get_display_aspect_ratio()), tag_of(P["lang"], d.get_lang())))
        return nodes, docs

    def lengths_agree(self):
        """len(e), list(e), has_children and the parent links agree (the `len` clause of the property)"""
        for e in self.els:
            kids = list(e)
            if len(e) != len(kids) or e.has_children() != bool(kids): return False
            if sum(1 for x in self.els if x.parent() is e) != len(kids): return False
            if any(k.parent() is not e for k in kids): return False
        return True


# ------------------------------------------------------------------ literals
def o(x): return "None" if x is None else f"(Some {x})"
def b(x): return "true" if x else "false"
def pvlist(l): return "[" + ";".join(f"(P{p},{v})" for p, v in l) + "]"
def node_lit(n):
    k, d, pa, fi, la, nx, pv, rg, bg, en, idt, lg, spc, st, an, us, tx = n
    return (f"(N_ K{k} {o(d)} {o(pa)} {o(fi)} {o(la)} {o(nx)} {o(pv)} {o(rg)} {b(bg)} {b(en)} {o(idt)} {b(lg)} {b(spc)} {pvlist(st)} {pvlist(an)} "
            f"[{';'.join(map(str, us))}] {tx})")
def doc_lit(d):
    regs, body, inits, act, cell, px, dar, lang = d
    return "(D_ [" + ";".join(f"({k},{r})" for k, r in regs) + f"] {o(body)} {pvlist(inits)} {o(act)} {cell} {px} {o(dar)} {lang})"
def pref_lit(p): return "PInvalid" if p is None else f"(PValid P{p})"
def darg_lit(v): return "DNone" if v is None else "DBad" if v == "bad" else f"(DVal {v})"
def query_lit(q):
    t = q[0]
    if t in ("iter", "len", "dfs", "root", "is_attached", "get_text"):
        return {"iter": "QIter", "len": "QLen", "dfs": "QDfs", "root": "QRoot", "is_attached": "QIsAttached", "get_text": "QGetText"}[t] + f" {q[1]}"
    if t == "getitem": return f"QGetItem {q[1]} {q[2]} {b(q[3])}"
    if t in ("has_style", "get_style", "applicable", "has_initial", "get_initial"):
        return {"has_style": "QHasStyle", "get_style": "QGetStyle", "applicable": "QApplicable", "has_initial": "QHasInitial",
                "get_initial": "QGetInitial"}[t] + f" {q[1]} {pref_lit(q[2])}"
    if t in ("has_region", "get_region"): return ("QHasRegion" if t == "has_region" else "QGetRegion") + f" {q[1]} {q[2]}"
    raise ValueError(t)
def rval_lit(r):
    """the value returned by a read-only method, as a Gallina rval"""
    if r is None: return "RNone"
    k, v = r
    if k == "bool": return f"(RBool {b(v)})"
    if k == "nat": return f"(RNat {v})"
    if k == "onat": return f"(RONat {o(v)})"
    if k == "list": return "(RList [" + ";".join(map(str, v)) + "])"
    if k == "sval": return f"(RSval {o(v)})"
    raise ValueError(k)
def call_lit(c):
    t = c[0]
    if t == "push_child": return f"(CPushChild {c[1]} {c[2]})"
    if t == "push_children": return f"(CPushChildren {c[1]} [" + ";".join(map(str, c[2])) + "])"
    if t == "remove": return f"(CRemove {c[1]})"
    if t == "remove_child": return f"(CRemoveChild {c[1]} {c[2]})"
    if t == "remove_children": return f"(CRemoveChildren {c[1]})"
    if t == "set_doc": return f"(CSetDoc {c[1]} {o(c[2])})"
    if t == "set_region": return f"(CSetRegion {c[1]} {o(c[2])})"
    if t == "put_region": return f"(CPutRegion {c[1]} {c[2]})"
    if t == "remove_region": return f"(CRemoveRegion {c[1]} {c[2]})"
    if t == "set_body": return f"(CSetBody {c[1]} {o(c[2])})"
    if t == "set_style": return f"(CSetStyle {c[1]} {pref_lit(c[2])} {o(c[4])})"
    if t == "add_anim": return f"(CAddAnim {c[1]} {pref_lit(c[2])} {o(c[4])})"
    if t == "add_anim_bad": return f"(CAddAnimBad {c[1]})"
    if t == "put_initial": return f"(CPutInitial {c[1]} {pref_lit(c[2])} {o(c[4])})"
    if t == "copy_to": return f"(CCopyTo {c[1]} {c[2]})"
    if t in ("set_begin", "set_end", "set_lang", "set_space"):
        return f"(C{''.join(w.capitalize() for w in t.split('_'))} {c[1]} {b(c[2])})"
    if t == "set_id":
        return f"(CSetId {c[1]} " + ("IdNone" if c[2] is None else "IdBad" if c[2] == "bad" else f"(IdOk {c[2]})") + ")"
    if t == "remove_anim": return f"(CRemoveAnim {c[1]} P{c[2]} {c[3]})"
    if t == "remove_initial": return f"(CRemoveInitial {c[1]} {pref_lit(c[2])})"
    if t == "set_text": return f"(CSetText {c[1]} {o(c[2])})"
    if t in ("set_active", "set_cell", "set_px", "set_dar", "set_doc_lang"):
        return "(C" + {"set_active": "SetActive", "set_cell": "SetCell", "set_px": "SetPx", "set_dar": "SetDar", "set_doc_lang": "SetDocLang"}[t] + f" {c[1]} {darg_lit(c[2])})"
    if t == "doc_copy_to": return f"(CDocCopyTo {c[1]} {c[2]})"
    if t == "query": return f"(CQuery ({query_lit(c[1])}))"
    raise ValueError(t)


# ------------------------------------------------------------------ running one call on the real objects
JUNK_KEYS = [int, "Color", 7]          # hashable objects that are not style properties


def run_query(U, q, PT):
    """the value of a read-only method, tagged with its Gallina result type"""
    E = U.els; D = U.docs; t = q[0]
    def P(i): return PT[q[2]] if q[2] else JUNK_KEYS[q[3] % len(JUNK_KEYS)]
    if t == "iter": return ("list", [U.ref(x) for x in list(E[q[1]])])
    if t == "len": return ("nat", len(E[q[1]]))
    if t == "getitem": return ("onat", U.ref(E[q[1]][-(q[2] + 1) if q[3] else q[2]]))
    if t == "dfs": return ("list", [U.ref(x) for x in E[q[1]].dfs_iterator()])
    if t == "root": return ("nat", U.ref(E[q[1]].root()))
    if t == "has_style": return ("bool", bool(E[q[1]].has_style(P(0))))
    if t == "get_style":
        v = E[q[1]].get_style(P(0)); return ("sval", None if v is None else classify(v))
    if t == "applicable": return ("bool", bool(E[q[1]].is_style_applicable(P(0))))
    if t == "is_attached": return ("bool", bool(E[q[1]].is_attached()))
    if t == "get_text": return ("nat", tag_of(TEXTS, E[q[1]].get_text()))
    if t == "has_region": return ("bool", bool(D[q[1]].has_region(IDS[q[2]])))
    if t == "get_region": return ("onat", U.ref(D[q[1]].get_region(IDS[q[2]])))
    if t == "has_initial": return ("bool", bool(D[q[1]].has_initial_value(P(0))))
    if t == "get_initial":
        v = D[q[1]].get_initial_value(P(0)); return ("sval", None if v is None else classify(v))
    raise AssertionError(t)


def execute(U, c, PT):
    """returns (outcome code, returned value): 0 returned, 1-5 exception class, 7 anything else"""
    m = U.m; E = U.els; D = U.docs; t = c[0]; rv = None
    try:
        if t == "push_child": E[c[1]].push_child(E[c[2]])
        elif t == "push_children": E[c[1]].push_children([E[i] for i in c[2]])
        elif t == "remove": E[c[1]].remove()
        elif t == "remove_child": E[c[1]].remove_child(E[c[2]])
        elif t == "remove_children": E[c[1]].remove_children()
        elif t == "set_doc": E[c[1]].set_doc(None if c[2] is None else D[c[2]])
        elif t == "set_region": E[c[1]].set_region(None if c[2] is None else E[c[2]])
        elif t == "put_region": D[c[1]].put_region(E[c[2]])
        elif t == "remove_region": D[c[1]].remove_region(IDS[c[2]])
        elif t == "set_body": D[c[1]].set_body(None if c[2] is None else E[c[2]])
        elif t == "set_style": E[c[1]].set_style(PT[c[2]] if c[2] else c[5], c[3])
        elif t == "add_anim": E[c[1]].add_animation_step(m.DiscreteAnimationStep(PT[c[2]] if c[2] else c[5], None, None, c[3]))
        elif t == "add_anim_bad": E[c[1]].add_animation_step(("Color", 1))
        elif t == "put_initial": D[c[1]].put_initial_value(PT[c[2]] if c[2] else c[5], c[3])
        elif t == "copy_to": E[c[1]].copy_to(E[c[2]])
        elif t == "set_begin": E[c[1]].set_begin(Fraction(1, 2) if c[2] else None)
        elif t == "set_end": E[c[1]].set_end(Fraction(7, 2) if c[2] else None)
        elif t == "set_lang": E[c[1]].set_lang("en" if c[2] else "")
        elif t == "set_space": E[c[1]].set_space(m.WhiteSpaceHandling.PRESERVE if c[2] else m.WhiteSpaceHandling.DEFAULT)
        elif t == "set_id": E[c[1]].set_id(None if c[2] is None else "1 bad" if c[2] == "bad" else IDS[c[2]])
        elif t == "remove_anim": E[c[1]].remove_animation_step(c[4])
        elif t == "remove_initial": D[c[1]].remove_initial_value(PT[c[2]] if c[2] else JUNK_KEYS[c[3] % len(JUNK_KEYS)])
        elif t == "set_text": E[c[1]].set_text(5 if c[2] is None else TEXTS[c[2]])
        elif t in ("set_active", "set_cell", "set_px", "set_dar", "set_doc_lang"):
            pool = U.pools[{"set_active": "active", "set_cell": "cell", "set_px": "px", "set_dar": "dar", "set_doc_lang": "lang"}[t]]
            arg = None if c[2] is None else (5 if t == "set_doc_lang" else "x") if c[2] == "bad" else pool[c[2]]
            getattr(D[c[1]], {"set_active": "set_active_area", "set_cell": "set_cell_resolution", "set_px": "set_px_resolution",
                              "set_dar": "set_display_aspect_ratio", "set_doc_lang": "set_lang"}[t])(arg)
        elif t == "doc_copy_to": D[c[1]].copy_to(D[c[2]])
        elif t == "query": rv = run_query(U, c[1], PT)
        else: raise AssertionError(t)
        return 0, rv
    except (RuntimeError, ValueError, TypeError, AttributeError, IndexError) as e:
        return EXN.get(type(e).__name__, 7), None
    except RecursionError:
        return 7, None


# ------------------------------------------------------------------ generator
ALLOWED = {"Body": ["Div"], "Div": ["P", "Div"], "P": ["Span", "Br", "Ruby"], "Span": ["Span", "Br", "Text"],
           "Rb": ["Span"], "Rt": ["Span"], "Rp": ["Span"], "Rbc": ["Rb"], "Rtc": ["Rt", "Rp"]}
RUBY_PATTERNS = [["Rb", "Rt"], ["Rb", "Rp", "Rt", "Rp"], ["Rbc", "Rtc"], ["Rbc", "Rtc", "Rtc"]]


def is_anc_or_self(a, x):
    while x is not None:
        if x is a: return True
        x = x.parent()
    return False


def gen_call(rng, U, PT, pool, wild):
    E = U.els; D = U.docs; n = len(E)
    roots = [i for i in range(n) if E[i].parent() is None]
    def pick_val():
        r = rng.random()
        if r < 0.08: return None
        return rng.choice(pool)
    def pick_prop_val():
        """mostly a property with a value that is valid for it"""
        if rng.random() < 0.05: return None, pick_val(), rng.choice([None, int, "Color", object()])
        p = rng.choice(PROPS)
        if rng.random() < 0.65:
            good = [v for v in pool if safe_validate(PT[p], v) is True]
            return p, rng.choice(good), None
        return p, pick_val(), None
    kind = rng.choices(["push_child", "push_children", "remove", "remove_child", "remove_children", "set_doc", "set_region",
                        "put_region", "remove_region", "set_body", "set_style", "add_anim", "add_anim_bad", "put_initial",
                        "copy_to", "setter", "remove_anim", "remove_initial", "set_text", "doc_param", "doc_copy_to", "query"],
                       [22, 9, 5, 5, 3, 9, 13, 10, 5, 5, 7, 4, 0.4, 3, 4, 4, 2, 1.2, 1.5, 3, 1, 9])[0]
    plausible = rng.random() < 0.75
    if kind == "push_child":
        if plausible:
            cands = [(s, c) for s in range(n) if KINDS[s] in ALLOWED for c in roots
                     if KINDS[c] in ALLOWED[KINDS[s]] and E[c].get_doc() is E[s].get_doc() and c != s]
            if cands: return ("push_child",) + rng.choice(cands)
        return ("push_child", rng.randrange(n), rng.randrange(n))
    if kind == "push_children":
        s = rng.choice([i for i in range(n) if KINDS[i] in ("Ruby", "Rtc", "Rtc", "P", "Span", "Div", "Rbc")]) if plausible else rng.randrange(n)
        def of_kind(k):
            c = [i for i in range(n) if KINDS[i] == k]
            good = [i for i in c if E[i].parent() is None and E[i].get_doc() is E[s].get_doc()]
            return rng.choice(good if good and rng.random() < 0.85 else c)
        if KINDS[s] == "Ruby" and rng.random() < 0.85:
            pat = rng.choice(RUBY_PATTERNS + [["Rb"], ["Rt", "Rb"]] if rng.random() < 0.2 else RUBY_PATTERNS)
            cs = []
            for k in pat:
                x = of_kind(k)
                if x in cs and rng.random() < 0.9:
                    alt = [i for i in range(n) if KINDS[i] == k and i not in cs]
                    if alt: x = rng.choice(alt)
                cs.append(x)
            return ("push_children", s, cs)
        if KINDS[s] == "Rtc" and rng.random() < 0.85:
            pat = rng.choice([["Rt"], ["Rt", "Rt"], ["Rp", "Rt", "Rp"], ["Rp", "Rt", "Rt", "Rp"], ["Rp", "Rp"], ["Rp", "Rt"], []])
            cs = []
            for k in pat:
                x = of_kind(k)
                if x in cs:
                    alt = [i for i in range(n) if KINDS[i] == k and i not in cs]
                    if alt and rng.random() < 0.9: x = rng.choice(alt)
                cs.append(x)
            return ("push_children", s, cs)
        if KINDS[s] in ALLOWED and plausible:
            c = [i for i in roots if KINDS[i] in ALLOWED[KINDS[s]] and E[i].get_doc() is E[s].get_doc() and i != s]
            rng.shuffle(c); cs = c[:rng.randrange(0, 4)]
            if rng.random() < 0.2: cs.append(rng.randrange(n))
            return ("push_children", s, cs)
        return ("push_children", s, [rng.randrange(n) for _ in range(rng.randrange(0, 4))])
    if kind == "remove":
        par = [i for i in range(n) if E[i].parent() is not None]
        return ("remove", rng.choice(par) if par and plausible else rng.randrange(n))
    if kind == "remove_child":
        par = [i for i in range(n) if E[i].parent() is not None]
        if par and plausible:
            c = rng.choice(par); return ("remove_child", U.ref(E[c].parent()), c)
        return ("remove_child", rng.randrange(n), rng.randrange(n))
    if kind == "remove_children":
        hc = [i for i in range(n) if E[i].has_children()]
        return ("remove_children", rng.choice(hc) if hc and plausible else rng.randrange(n))
    if kind == "set_doc":
        s = rng.choice(roots) if plausible else rng.randrange(n)
        return ("set_doc", s, rng.choice([None, 0, 0, 1]))
    if kind == "set_region":
        s = rng.randrange(n)
        if plausible:
            able = [i for i in range(n) if KINDS[i] not in ("Br", "Text", "Region") and E[i].get_doc() is not None and list(E[i].get_doc().iter_regions())]
            if able and rng.random() < 0.8: s = rng.choice(able)
        if plausible and E[s].get_doc() is not None:
            regs = [U.ref(r) for r in E[s].get_doc().iter_regions()]
            if regs and rng.random() < 0.8: return ("set_region", s, rng.choice(regs))
        return ("set_region", s, rng.choice([None, 19, 20, 21, rng.randrange(n)]))
    if kind == "put_region":
        if plausible:
            r = rng.choice([19, 20, 21]); d = U.dref(E[r].get_doc())
            # replacing a region that is referenced: the other Region object carrying the same id
            used = [(U.dref(e.get_doc()), U.ref(e.get_region())) for e in E if e.get_region() is not None and e.get_doc() is not None]
            swap = [(dd, 39 - rr) for dd, rr in used if rr in (19, 20) and U.dref(E[39 - rr].get_doc()) == dd]
            if swap and rng.random() < 0.35: return ("put_region",) + rng.choice(swap)
            if d is not None: return ("put_region", d, r)
        return ("put_region", rng.randrange(NDOCS), rng.choice([19, 20, 21, rng.randrange(n)]))
    if kind == "remove_region":
        used = [(U.dref(e.get_doc()), IDTAG.get(e.get_region().get_id(), 3)) for e in E if e.get_region() is not None and e.get_doc() is not None]
        if used and rng.random() < 0.5: return ("remove_region",) + rng.choice(used)
        return ("remove_region", rng.randrange(NDOCS), rng.choice([1, 1, 2, 3]))
    if kind == "set_body":
        if plausible:
            bb = rng.choice([0, 1]); d = U.dref(E[bb].get_doc())
            if d is not None: return ("set_body", d, bb)
        return ("set_body", rng.randrange(NDOCS), rng.choice([None, 0, 1, rng.randrange(n)]))
    if kind in ("set_style", "add_anim", "put_initial"):
        p, v, junk = pick_prop_val()
        tgt = rng.randrange(NDOCS) if kind == "put_initial" else rng.randrange(n)
        return (kind, tgt, p, v, None if v is None else classify(v), junk)
    if kind == "add_anim_bad":
        return ("add_anim_bad", rng.randrange(n))
    if kind == "copy_to":
        s, dst = rng.randrange(n), rng.randrange(n)
        if plausible:
            same = [i for i in range(n) if KINDS[i] == KINDS[s]]
            dst = rng.choice(same)
        return ("copy_to", s, dst)
    if kind == "remove_anim":
        have = [i for i in range(n) if list(E[i].iter_animation_steps())]
        s = rng.choice(have) if have and plausible else rng.randrange(n)
        steps = list(E[s].iter_animation_steps())
        shapes = [(a.style_property.__name__, classify(a.value)) for a in steps]
        # a present step; M sees shapes only, so the step must be one whose shape tells it apart exactly like == does
        ok = [k for k in range(len(steps)) if all((shapes[j] == shapes[k]) == (steps[j] == steps[k]) for j in range(k))]
        if ok and rng.random() < 0.8:
            k = rng.choice(ok); return ("remove_anim", s, shapes[k][0], shapes[k][1], steps[k])
        for _ in range(20):                        # a step that is not there (nor any of its shape)
            pn = rng.choice(PROPS); good = [v for v in pool if safe_validate(PT[pn], v) is True]
            v = rng.choice(good)
            if (pn, classify(v)) not in shapes:
                return ("remove_anim", s, pn, classify(v), U.m.DiscreteAnimationStep(PT[pn], None, None, v))
        return ("set_begin", s, False)
    if kind == "remove_initial":
        d = rng.randrange(NDOCS); have = [pp.__name__ for pp, _ in D[d].iter_initial_values()]
        if have and rng.random() < 0.6: return ("remove_initial", d, rng.choice(have), 0)
        return ("remove_initial", d, rng.choice(PROPS + [None]), rng.randrange(3))
    if kind == "set_text":
        s = 9 if plausible else rng.randrange(n)
        return ("set_text", s, rng.choice([0, 1, 2, 1, 2, None]))
    if kind == "doc_param":
        which = rng.choice(["set_active", "set_cell", "set_px", "set_dar", "set_doc_lang"])
        size = len(U.pools[{"set_active": "active", "set_cell": "cell", "set_px": "px", "set_dar": "dar", "set_doc_lang": "lang"}[which]])
        return (which, rng.randrange(NDOCS), rng.choice(list(range(size)) * 3 + [None, "bad"]))
    if kind == "doc_copy_to":
        return ("doc_copy_to", rng.randrange(NDOCS), rng.randrange(NDOCS))
    if kind == "query":
        withkids = [i for i in range(n) if E[i].has_children()]
        s = rng.choice(withkids) if withkids and rng.random() < 0.6 else rng.randrange(n)
        q = rng.choice(["iter", "len", "getitem", "dfs", "dfs", "root", "has_style", "get_style", "applicable", "is_attached",
                        "get_text", "has_region", "get_region", "has_initial", "get_initial"])
        if q in ("iter", "len", "dfs", "root", "is_attached"): return ("query", (q, s))
        if q == "get_text": return ("query", (q, 9 if rng.random() < 0.7 else s))
        if q == "getitem": return ("query", (q, s, rng.randrange(0, 4), rng.random() < 0.4))
        if q in ("has_region", "get_region"): return ("query", (q, rng.randrange(NDOCS), rng.choice([1, 1, 2, 3, 0])))
        pn = rng.choice(PROPS + [None]) if rng.random() < 0.3 else None
        if q in ("has_style", "get_style", "applicable"):
            st = [pp.__name__ for pp in E[s].iter_styles()]
            if pn is None and rng.random() < 0.9: pn = rng.choice(st) if st and rng.random() < 0.6 else rng.choice(PROPS)
            return ("query", (q, s, pn, rng.randrange(3)))
        d = rng.randrange(NDOCS); st = [pp.__name__ for pp, _ in D[d].iter_initial_values()]
        if pn is None and rng.random() < 0.9: pn = rng.choice(st) if st and rng.random() < 0.6 else rng.choice(PROPS)
        return ("query", (q, d, pn, rng.randrange(3)))
    which = rng.choice(["set_begin", "set_end", "set_lang", "set_space", "set_id"])
    if which == "set_id":
        return ("set_id", rng.randrange(n), rng.choice([None, 0, 0, 1, 2, "bad"]))
    return (which, rng.randrange(n), rng.random() < 0.6)


def safe_validate(P, v):
    try:
        return P.validate(v)
    except AttributeError:
        return "raise"


class Hang(Exception):
    pass


def _on_alarm(signum, frame):
    raise Hang()


def guarded(f, *a):
    """run one model call / dump under a 10 s watchdog: a call on the real objects that does not return (e.g. a cyclic
    sibling chain being iterated) is reported as a failing input instead of hanging the check"""
    import signal
    signal.signal(signal.SIGALRM, _on_alarm)
    old = signal.setitimer(signal.ITIMER_REAL, 10)
    try:
        return f(*a)
    finally:
        signal.setitimer(signal.ITIMER_REAL, max(old[0] - 10, 1) if old[0] else 0)


def guarded_long(f, *a):
    import signal
    signal.signal(signal.SIGALRM, _on_alarm)
    signal.setitimer(signal.ITIMER_REAL, 60)
    try:
        return f(*a)
    finally:
        signal.setitimer(signal.ITIMER_REAL, 0)


def jsonable(c):
    def j(x):
        if isinstance(x, (int, str, type(None), bool)): return x
        if isinstance(x, (list, tuple)): return [j(y) for y in x]
        return repr(x)
    return [j(x) for x in c]


def gen_history(seed, PT, pool):
    """run one random history on fresh objects; returns (init, steps, calls-as-json, flags)"""
    rng = random.Random(seed)
    scheme = rng.random()
    if scheme < 0.4: docsel = [0] * len(KINDS)
    elif scheme < 0.8: docsel = [rng.choices([0, 1, None], [70, 15, 15])[0] for _ in KINDS]
    else: docsel = [None] * len(KINDS)
    if rng.random() < 0.5:
        for i in (19, 20, 21):
            docsel[i] = docsel[4] if rng.random() < 0.8 else rng.choice([0, 1, None])
    U = Universe(docsel)
    wild = rng.random() < 0.35
    nsteps = rng.randrange(1, 41)
    prev_n, prev_d = U.dump()
    steps = []; calls = []; lengths_ok = True; kinds_used = set(); shape = dict(depth=0, ruby=0, regrefs=0, styled=0, replaced=0, outside=0, detached_tree=0)
    for _ in range(nsteps):
        c = gen_call(rng, U, PT, pool, wild)
        # the situations of the former findings, counted for the evidence
        if c[0] == "put_region" and KINDS[c[2]] == "Region":
            old = U.docs[c[1]].get_region(U.els[c[2]].get_id())
            if old is not None and old is not U.els[c[2]] and any(e.get_region() is old for e in U.els): shape["replaced"] += 1
        if c[0] == "remove_region":
            old = U.docs[c[1]].get_region(IDS[c[2]]); body = U.docs[c[1]].get_body()
            under = set(id(x) for x in body.dfs_iterator()) if body is not None else set()
            if old is not None and any(e.get_region() is old and id(e) not in under for e in U.els): shape["outside"] += 1
        if c[0] == "set_doc" and U.els[c[1]].parent() is None and U.els[c[1]].has_children(): shape["detached_tree"] += 1
        try:
            oc, rv = guarded(execute, U, c, PT)
            n2, d2 = guarded(U.dump)
        except Hang:
            calls.append(jsonable(c))
            return U.init, steps, calls, dict(lengths_ok=lengths_ok, wild=wild, kinds=kinds_used, docsel=docsel, shape=shape, hang=True)
        dn = [(i, n2[i]) for i in range(len(n2)) if n2[i] != prev_n[i]]
        dd = [(i, d2[i]) for i in range(len(d2)) if d2[i] != prev_d[i]]
        steps.append((c, oc, rv, dn, dd)); prev_n, prev_d = n2, d2
        calls.append(jsonable(c))
        kinds_used.add((c[0] if c[0] != "query" else "query:" + c[1][0], oc != 0))
        if not U.lengths_agree(): lengths_ok = False
        for e in U.els:
            dpt = 0; x = e
            while x.parent() is not None and dpt < 50: x = x.parent(); dpt += 1
            if dpt > shape["depth"]: shape["depth"] = dpt
        shape["ruby"] = max(shape["ruby"], len(U.els[10]))
        shape["regrefs"] = max(shape["regrefs"], sum(1 for e in U.els if e.get_region() is not None))
        shape["styled"] = max(shape["styled"], sum(len(list(e.iter_styles())) + len(list(e.iter_animation_steps())) for e in U.els))
    return U.init, steps, calls, dict(lengths_ok=lengths_ok, wild=wild, kinds=kinds_used, docsel=docsel, shape=shape)


def hist_lit(init, steps):
    el = "[" + ";".join(f"(K{k},{o(d)},{o(i)})" for k, d, i in init) + "]"
    st = []
    for c, oc, rv, dn, dd in steps:
        st.append(f"({call_lit(c)},{oc},{rval_lit(rv)},[" + ";".join(f"({i},{node_lit(x)})" for i, x in dn) + "],[" +
                  ";".join(f"({i},{doc_lit(x)})" for i, x in dd) + "])")
    return f"(H_ {el} {NDOCS} [\n " + ";\n ".join(st) + "])"


HEADER = ("From Coq Require Import List Bool Arith. Import ListNotations.\n"
          "From TT Require Import Base.HeapTypes Model.Heap Model.HeapRep Spec.ModelWF Model.HeapCases.\n")


def worker(args):
    """generate + run a block of histories, write one case file; returns bookkeeping"""
    k, seeds, path = args
    sys.path.insert(0, C.SRC)
    PT = props_table(); pool = value_pool()
    lits = []; meta = []
    for s in seeds:
        try:
            init, steps, calls, fl = guarded_long(gen_history, s, PT, pool)
        except Hang:
            with open(path + ".hang", "a") as hf:
                hf.write(json.dumps(dict(seed=s, hang=True, docsel=None,
                                         calls=[["history generated from seed", s, "does not terminate (a traversal of the object graph loops)"]])) + "\n")
            continue
        except Exception as ex:       # the object graph could not be walked or dumped (e.g. a reference that leaves the universe)
            with open(path + ".hang", "a") as hf:
                hf.write(json.dumps(dict(seed=s, hang=True, docsel=None,
                                         calls=[["history generated from seed", s, "cannot be run or dumped: " + repr(ex)[:300]]])) + "\n")
            continue
        lits.append(hist_lit(init, steps))
        meta.append(dict(seed=s, hang=fl.get("hang", False), nsteps=len(steps), lengths_ok=fl["lengths_ok"], wild=fl["wild"],
                         kinds=sorted(f"{a}{'!' if r else ''}" for a, r in fl["kinds"]), calls=calls, docsel=fl["docsel"], shape=fl["shape"],
                         outcomes=[st[1] for st in steps]))
    txt = (HEADER + "Definition cases : list hist := [\n" + ";\n".join(lits) + "].\n"
           "Definition vs := Eval vm_compute in map eval_hist cases.\n"
           "Eval vm_compute in model_ok vs.\nEval vm_compute in spec_ok vs.\nEval vm_compute in rep_ok vs.\n"
           "Eval vm_compute in pca_ok vs.\nEval vm_compute in (total_steps vs, @nil nat).\n")
    with open(path, "w") as f: f.write(txt)
    return k, path, meta, len(txt)


def validate_cases(PT, pool):
    """every (property, sample value): the code's validate vs M's and vs S"""
    rows = []
    for p in PROPS:
        for v in pool:
            r = safe_validate(PT[p], v)
            rows.append((p, classify(v), 0 if r is True else 2 if r == "raise" else 1, repr(v)[:60]))
    body = ";\n".join(f"(P{p},{s},{r})" for p, s, r, _ in rows)
    txt = (HEADER + f"Definition rows : list (prop * sval * nat) := [\n{body}].\n"
           "Definition vcode (r : vres) : nat := match r with VTrue => 0 | VFalse => 1 | VRaise => 2 end.\n"
           "Eval vm_compute in check_all (map (fun x => Nat.eqb (vcode (validate (fst (fst x)) (snd (fst x)))) (snd x)) rows).\n"
           "Eval vm_compute in check_all (map (fun x => negb (Nat.eqb (snd x) 0) || spec_valid (fst (fst x)) (snd (fst x))) rows).\n"
           "Eval vm_compute in check_all (map (fun x => Bool.eqb (Nat.eqb (snd x) 0) (spec_valid (fst (fst x)) (snd (fst x)))) rows).\n")
    import ttconv.model as m
    arows = []
    for k in sorted(set(KINDS)):
        for pn in PROPS:
            arows.append((k, pn, bool(getattr(m, k)("x" if k == "Region" else None).is_style_applicable(PT[pn]))))
    abody = ";\n".join(f"(K{k},P{pn},{b(v)})" for k, pn, v in arows)
    txt += (f"Definition arows : list (kind * prop * bool) := [\n{abody}].\n"
            "Eval vm_compute in check_all (map (fun x => Bool.eqb (existsb (prop_eqb (snd (fst x))) (applicable (fst (fst x)))) (snd x)) arows).\n")
    return rows, txt


# ------------------------------------------------------------------ exhaustive short histories (a search aid, not a proof)
X_KINDS = ["Div", "P", "Span", "Span", "Region", "Region"]
X_REGION_IDS = {4: 1, 5: 1}
X_DOCSEL = [0, 0, 0, None, 0, 0]
X_CALLS = [("push_child", 0, 1), ("push_child", 1, 2), ("push_child", 2, 3), ("push_child", 3, 2), ("push_child", 2, 1),
           ("push_child", 0, 0), ("push_child", 1, 3), ("remove", 1), ("remove", 2), ("remove", 3),
           ("set_doc", 0, None), ("set_doc", 0, 1), ("set_doc", 1, None), ("set_doc", 2, 0), ("set_doc", 2, None), ("set_doc", 3, 0),
           ("set_region", 1, 4), ("set_region", 1, 5), ("set_region", 2, 4), ("set_region", 1, None),
           ("put_region", 0, 4), ("put_region", 0, 5), ("remove_region", 0, 1), ("push_children", 1, [2, 3]), ("remove_children", 1),
           ("query", ("dfs", 0)), ("query", ("root", 3)), ("copy_to", 1, 1), ("copy_to", 4, 4)]


def exhaustive_sequences(depth):
    import itertools
    return [list(seq) for n in range(1, depth + 1) for seq in itertools.product(range(len(X_CALLS)), repeat=n)] if depth < 3 \
        else [list(seq) for seq in itertools.product(range(len(X_CALLS)), repeat=depth)]


def run_sequence(seq):
    U = Universe(X_DOCSEL, X_KINDS, X_REGION_IDS)
    prev_n, prev_d = U.dump(); steps = []; ok = True
    for ci in seq:
        c = X_CALLS[ci]
        try:
            oc, rv = guarded(execute, U, c, None)
            n2, d2 = guarded(U.dump)
        except Hang:
            return U.init, steps, "hang"
        dn = [(i, n2[i]) for i in range(len(n2)) if n2[i] != prev_n[i]]
        dd = [(i, d2[i]) for i in range(len(d2)) if d2[i] != prev_d[i]]
        steps.append((c, oc, rv, dn, dd)); prev_n, prev_d = n2, d2
        if not U.lengths_agree(): ok = False
    return U.init, steps, ok


def worker_exh(args):
    k, seqs, path = args
    sys.path.insert(0, C.SRC)
    lits = []; meta = []
    for seq in seqs:
        init, steps, ok = run_sequence(seq)
        lits.append(hist_lit(init, steps))
        hang = (ok == "hang"); ok = (ok is True)
        meta.append(dict(seed=None, hang=hang, seq=seq, nsteps=len(steps), lengths_ok=ok, wild=True, kinds=[],
                         calls=[jsonable(X_CALLS[i]) for i in seq], docsel=X_DOCSEL, shape=dict(depth=0, ruby=0, regrefs=0, styled=0, replaced=0, outside=0, detached_tree=0),
                         outcomes=[st[1] for st in steps]))
    txt = (HEADER + "Definition cases : list hist := [\n" + ";\n".join(lits) + "].\n"
           "Definition vs := Eval vm_compute in map eval_hist cases.\n"
           "Eval vm_compute in model_ok vs.\nEval vm_compute in spec_ok vs.\nEval vm_compute in rep_ok vs.\n"
           "Eval vm_compute in pca_ok vs.\nEval vm_compute in (total_steps vs, @nil nat).\n")
    with open(path, "w") as f: f.write(txt)
    return k, path, meta, len(txt)


PAIR = re.compile(r"=\s*\(\s*(\d+)\s*,\s*(\[[^\]]*\]|nil)\s*\)")
def parse_pairs(out):
    flat = " ".join(out.split())
    return [(int(a), [int(x) for x in re.findall(r"\d+", bb)]) for a, bb in PAIR.findall(flat)]


def explain_case(lit, step_hint=None):
    """second, tiny Coq run that prints per-step details of one history for the replay file"""
    p = f"{C.GEN}/Cases_C15_explain_{os.getpid()}.v"
    txt = HEADER + f"Definition x : hist := {lit}.\nEval vm_compute in explain x.\n"
    if step_hint is not None: txt += f"Eval vm_compute in diff_at x {step_hint}.\n"
    open(p, "w").write(txt)
    rc, out = C.coqc(p, 300)
    for ext in (".v", ".vo", ".glob", ".vos", ".vok"):
        try: os.unlink(p[:-2] + ext)
        except OSError: pass
    return out[-6000:]


def load_proposed(run):
    """findings proposed by this check but not yet merged into KNOWN_FINDINGS.txt are honoured too"""
    p = C.VERIF + "/findings_proposed/C15.txt"
    have = {f["id"] for f in run.findings}
    if os.path.exists(p):
        for line in open(p, encoding="utf-8"):
            m = re.match(r"finding\s+property=(\S+)\s+id=(\S+)\s+what=(.*)", line.strip())
            if m and m.group(1) == "C15" and m.group(2) not in have:
                run.findings.append(dict(property="C15", id=m.group(2), what=m.group(3)))


def main():
    run = C.Run("C15", "proof")
    load_proposed(run)
    run.hygiene()
    sys.path.insert(0, C.SRC)
    cone = ["Proofs/C15/All.vo", "Model/HeapCases.vo"]
    ok, log = run.build(cone, clean=(run.tier == "thorough"))
    proofs_ok = ok and run.theorems()
    if not ok: run.proof_log = log[-2500:]
    run.witnesses()

    try:
        PT = props_table(); pool = value_pool()
    except Exception as e:
        run.violation(f"style property table changed shape: {e}", dict(kind="translator", error=str(e)), False)
        return run.finish()

    C.clean_cases("Cases_C15_")
    # ---- validate / _applicableStyles: exhaustive over (property, sample value) and (class, property) ----
    rows, vtxt = validate_cases(PT, pool)
    vpath = f"{C.GEN}/Cases_C15_validate.v"; open(vpath, "w").write(vtxt)

    # ---- histories ---------------------------------------------------------------------------------------
    n_hist = 1000 if run.tier == "quick" else 30000
    per = 25
    seeds = [run.rng.randrange(1 << 48) for _ in range(n_hist)]
    jobs = [(k, seeds[k * per:(k + 1) * per], f"{C.GEN}/Cases_C15_{k}.v") for k in range((n_hist + per - 1) // per)]
    from concurrent.futures import ProcessPoolExecutor
    with ProcessPoolExecutor(C.NCPU) as ex:
        done = list(ex.map(worker, jobs, chunksize=1))
    xdepth = 2 if run.tier == "quick" else 3
    xseqs = exhaustive_sequences(xdepth); xper = 150
    xjobs = [(10000 + k, xseqs[k * xper:(k + 1) * xper], f"{C.GEN}/Cases_C15_x{k}.v") for k in range((len(xseqs) + xper - 1) // xper)]
    with ProcessPoolExecutor(C.NCPU) as ex:
        done += list(ex.map(worker_exh, xjobs, chunksize=1))
    run.log(f"{n_hist} random histories and {len(xseqs)} exhaustive histories (all sequences of {'<= ' if xdepth < 3 else ''}{xdepth} of {len(X_CALLS)} calls on a reduced "
            f"universe, judged after every call) run on ttconv.model, {sum(d[3] for d in done) // 1024} kB of case files")
    res = C.coqc_many([vpath] + [d[1] for d in done], 1800)

    broken = []
    # validate verdicts
    rc, out = res[vpath]; pairs = parse_pairs(out)
    v_model_bad, v_spec_bad, a_bad = [], [], []
    if rc != 0 or len(pairs) != 4: broken.append((vpath, out[-400:]))
    else:
        v_model_bad, v_spec_bad, a_bad = pairs[0][1], pairs[1][1], pairs[3][1]
        run.cov["validate_pairs"] = pairs[0][0]; run.cov["validate_S_stricter_than_code_on"] = len(pairs[2][1]) - len(pairs[1][1])
        run.cov["applicable_pairs"] = pairs[3][0]

    m_bad, s_bad, r_bad, p_bad = [], [], [], []; total_steps = 0; metas = {}
    for k, path, meta, _ in done:
        rc, out = res[path]; pairs = parse_pairs(out)
        if rc != 0 or len(pairs) != 5 or pairs[0][0] != len(meta):
            broken.append((path, out[-600:])); continue
        for j, mt in enumerate(meta): metas[(k, j)] = mt
        m_bad += [(k, j) for j in pairs[0][1]]; s_bad += [(k, j) for j in pairs[1][1]]
        r_bad += [(k, j) for j in pairs[2][1]]; p_bad += [(k, j) for j in pairs[3][1]]
        total_steps += pairs[4][0]
    len_bad = [key for key, mt in metas.items() if not mt["lengths_ok"] and not mt.get("hang")]
    hangs = [mt for k_, path_, meta_, _ in done for mt in meta_ if mt.get("hang")]
    import glob as _glob
    for hf in _glob.glob(f"{C.GEN}/Cases_C15_*.hang"):
        hangs += [json.loads(l) for l in open(hf)]
        os.unlink(hf)
    if hangs:
        run.violation(f"a model API call (or reading the children back) does not return: history {hangs[0]['calls'][-6:]} "
                      f"({len(hangs)} histories hang)", dict(kind="S-on-code", clause="links/child lists agree (a traversal never ends)",
                                                             calls=hangs[0]["calls"], docsel=hangs[0]["docsel"], count=len(hangs)))
    run.log(f"{len(metas)} histories / {total_steps} calls evaluated in Coq: model/code mismatches {len(m_bad)}, S failures "
            f"{len(s_bad)}, representation invariant failures {len(r_bad)}, rejected Ruby/Rtc push_children that changed the model {len(p_bad)}, "
            f"len/list disagreements {len(len_bad)}, validate mismatches {len(v_model_bad)}, applicable-table mismatches {len(a_bad)}, "
            f"broken case files {len(broken)}")

    def replay_of(key):
        mt = metas[key]
        if mt["seed"] is None:
            init, steps, _ = run_sequence(mt["seq"])
            return dict(exhaustive_sequence=mt["calls"], universe=[f"{i}:{k}" for i, k in enumerate(X_KINDS)], initial_docs=X_DOCSEL,
                        outcomes=mt["outcomes"], coq_explain=explain_case(hist_lit(init, steps)),
                        how="harness/c15.py run_sequence(seq) re-runs the sequence on ttconv.model")
        PT2 = props_table()
        init, steps, calls, fl = gen_history(mt["seed"], PT2, value_pool())
        det = explain_case(hist_lit(init, steps))
        return dict(history_seed=mt["seed"], universe=[f"{i}:{k}" for i, k in enumerate(KINDS)], initial_docs=mt["docsel"],
                    calls=mt["calls"], outcomes=mt["outcomes"], coq_explain=det,
                    how="harness/c15.py gen_history(seed) regenerates and re-runs the history on ttconv.model")

    # ---- no finding is recorded for C15 any more: Findings/C15.v only replays the former witnesses on M ----
    rcf, outf = C.coqc(C.COQ + "/Findings/C15.v", 600)
    run.cov["stale_findings"] = [] if rcf == 0 else ["Findings/C15.v no longer compiles: " + outf[-300:]]

    # ---- verdict ---------------------------------------------------------------------------------------------
    s_fail = bool(s_bad or len_bad or v_spec_bad or r_bad or p_bad)
    if s_bad:
        run.violation(f"the model is not well formed (or a rejected single-element call changed it) after a call sequence "
                      f"({len(s_bad)} histories)", dict(kind="S-on-code", spec="coq/Spec/ModelWF.v wf_b + atomicity", **replay_of(s_bad[0])))
    if r_bad:
        run.violation(f"Region._users is not the set of elements that reference the region (or a Region has no id) after a call sequence "
                      f"({len(r_bad)} histories): remove_region / put_region will miss references",
                      dict(kind="S-on-code", spec="coq/Model/HeapRep.v rep_b (representation invariant the well-formedness proof rests on)", **replay_of(r_bad[0])))
    if p_bad:
        run.violation(f"a rejected Ruby/Rtc push_children changed the model ({len(p_bad)} histories)",
                      dict(kind="S-on-code", spec="C15_push_children_atomic", **replay_of(p_bad[0])))
    if len_bad:
        run.violation("len()/list()/has_children()/parent() disagree", dict(kind="S-on-code", clause="lengths agree", **replay_of(len_bad[0])))
    if v_spec_bad:
        r = rows[v_spec_bad[0]]
        run.violation(f"{r[0]}.validate accepts {r[3]}, which is not a value of the property", dict(kind="S-on-code", prop=r[0], value=r[3], shape=r[1]))
    if (m_bad or v_model_bad or a_bad or broken or not proofs_ok) and not s_fail:
        what = []
        if not proofs_ok: what.append("theorems of coq/Properties/C15.v no longer check: " + getattr(run, "proof_log", "")[-600:])
        rep = dict(kind="broken-tie", theorem_file="coq/Properties/C15.v", proofs_ok=proofs_ok,
                   correspondence="Model/Heap.v step vs ttconv.model on operation histories")
        if m_bad:
            what.append(f"correspondence Model/Heap.v vs model.py disagrees on {len(m_bad)} histories"); rep.update(replay_of(m_bad[0]))
        if v_model_bad:
            r = rows[v_model_bad[0]]; what.append(f"M's validate differs from {r[0]}.validate on {r[3]} ({len(v_model_bad)} pairs)")
            rep["validate"] = [rows[i][:3] for i in v_model_bad[:20]]
        if a_bad: what.append(f"M's applicable table differs from _applicableStyles on {len(a_bad)} (class, property) pairs")
        if broken: what.append(f"case files did not evaluate: {broken[0]}")
        run.violation("; ".join(what), rep, found_input=False)
    C.clean_cases("Cases_C15_")

    # ---- coverage ----------------------------------------------------------------------------------------------
    call_hist = {}; n_wild = 0; n_rejected = 0; distinct = set()
    for mt in metas.values():
        n_wild += mt["wild"]
        for kk in mt["kinds"]: call_hist[kk] = call_hist.get(kk, 0) + 1
        n_rejected += sum(1 for x in mt["outcomes"] if x)
        distinct.add(json.dumps(mt["calls"], default=str))
    sample = [dict(seed=mt["seed"], calls=mt["calls"][:6], outcomes=mt["outcomes"][:6]) for mt in list(metas.values())[:3]]
    run.cov["exhaustive_histories"] = len(xseqs); run.cov["exhaustive_depth"] = xdepth
    run.cov.update(evaluations=total_steps + len(rows), distinct_nontrivial=len(distinct),
                   rule="random histories of 1-40 model API calls (75% steered towards acceptable arguments, the rest arbitrary: wrong kinds, "
                        "foreign documents, unknown regions, invalid values, parented children, self/ancestors) over 22 elements of all 13 kinds "
                        "and 2 documents, every public method of ContentElement/ContentDocument incl. the read-only ones; after every call the "
                        "dumped object graph, the outcome and the returned value are compared with M's and judged by S inside Coq. "
                        "evaluations = calls checked + (property, value) validate pairs; distinct_nontrivial = distinct call sequences.",
                   samples=sample, histories=len(metas) - len(xseqs), calls=total_steps, rejected_calls=n_rejected, wild_histories=n_wild,
                   calls_by_kind_histories=call_hist, model_code_mismatches=len(m_bad), s_failures=len(s_bad), rep_failures=len(r_bad),
                   former_finding_situations=dict(
                       put_region_replacing_a_referenced_region=sum(mt["shape"]["replaced"] for mt in metas.values()),
                       remove_region_with_references_outside_the_body=sum(mt["shape"]["outside"] for mt in metas.values()),
                       set_doc_on_a_root_with_children=sum(mt["shape"]["detached_tree"] for mt in metas.values())),
                   max_tree_depth_histogram={str(k): sum(1 for mt in metas.values() if mt["shape"]["depth"] == k) for k in range(0, 8)},
                   histories_with_complete_ruby=sum(1 for mt in metas.values() if mt["shape"]["ruby"] >= 2),
                   histories_with_region_references=sum(1 for mt in metas.values() if mt["shape"]["regrefs"] > 0),
                   histories_with_stored_values=sum(1 for mt in metas.values() if mt["shape"]["styled"] > 0),
                   history_length_histogram={str(l): sum(1 for mt in metas.values() if (mt["nsteps"] - 1) // 10 == l) for l in range(4)})
    run.assumptions += ["S (Spec/ModelWF.v) reads the content model from doc/data_model.md and takes 'valid value' to be the documented type of each style property; bool counts as a number, an empty font-family tuple is accepted",
                        "the harness maps Python objects to heap literals (harness/c15.py Universe.dump, classify); time values and element language tags are abstracted to set/unset, text contents and document parameters to the index of the value in a pool",
                        "remove_animation_step is only issued with a step that list.remove tells apart from the earlier steps exactly as its (property, value shape) does (M sees value shapes only)"]
    return run.finish(["harness/c15.py dump/classify (object graph -> heap literal)", "coq/Model/HeapCases.v apply_delta (rebuilds the dumped heap from per-step differences)"])


if __name__ == "__main__":
    sys.exit(main())
