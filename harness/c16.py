"""C16 — the LCD filter simplifies style and layout but keeps the text timeline.

Theorems: coq/Properties/C16.v (rose-tree induction over the transcription coq/Model/Lcd.v; S = coq/Spec/LcdSpec.v).
M follows /repo at fix a7b547e (bg_color without body), fix c0beb1f (end=0 in the fingerprint), fix d8691ec (extent computed
before tts:position), fix 5958b0b (tts:position supported on regions only) and fix 2d34128 (tts:textAlign in the fingerprint
when it is preserved); their witnesses are regression witnesses in harness/witnesses_c16.py.
Tie: random documents (docgen.Gen, then regions re-dressed here with origin / position / extent in every unit,
writing modes, colliding timings, several animation steps per element) x configurations (safe_area 0/5/10/30,
preserve_text_align, color, bg_color).  LCDDocFilter(config).process(doc) is run on the real objects; inside Coq
M(lcd cfg d) must equal the filtered document (or the class of the exception), the clauses of S are evaluated on
the implementation's result (static clauses, the text timeline at boundary times through the TTML2 leaf
specification, the colours / alignment the snapshot model computes), and M run on the result must give the result
back.  Independently of Coq the harness compares the real snapshots (ISD.from_model) before / after as multisets
of (paragraph, leaf) and the document after a second application with the first."""
import copy, logging, os, re, sys
from collections import Counter
from concurrent.futures import ProcessPoolExecutor
from fractions import Fraction as F
import common as C

PROP = "C16"
HEADER = ("From TT Require Import Model.Doc Gen.StyleTables Model.Isd Model.IsdCases Model.Lcd Spec.IsdSpec Spec.LcdSpec Model.LcdCases.\n"
          "Open Scope Z_scope.\n")
EXN = {"AttributeError": 2, "AssertionError": 2, "ValueError": 2}      # anything else: 99 (the model has no such outcome)
# since fix d8691ec the model has no failing outcome on well-typed documents at all: any exception is a violation
STATIC = ["no animation step", "style whitelist", "safe area", "merged regions pairwise different", "references redirected",
          "filter succeeds", "model on the implementation's result is the identity"]
FINDINGS = ["lcd-nested-region-conflict"]
REPAIRED = ["lcd-position", "lcd-position-survives", "lcd-preserve-text-align-merge"]     # their witnesses must pass
TRIGS = ["nested", "no_hiding", "wf", "tie"]


# ------------------------------------------------------------------ documents and configurations
def _mods():
    import ttconv.model as m, ttconv.style_properties as s
    return m, s


def redress(rng, d, hide):
    """regions: origin / position / extent in every unit, writing modes, colliding timings; several animation steps"""
    import docgen
    m, s = _mods()
    SP = s.StyleProperties; L = s.LengthType; U = L.Units
    for r in d.iter_regions():
        if rng.random() < 0.55:
            r.set_style(SP.Origin, s.CoordinateType(x=docgen.rlen(rng, [U.pct, U.px, U.c, U.rw]), y=docgen.rlen(rng, [U.pct, U.pct, U.px, U.c, U.rh])))
        if rng.random() < 0.55:
            r.set_style(SP.Extent, s.ExtentType(height=docgen.rlen(rng, [U.pct, U.pct, U.px, U.c, U.rh]), width=docgen.rlen(rng, [U.pct, U.px, U.c, U.rw])))
        if rng.random() < 0.25:      # around the 50 % line that decides displayAlign
            r.set_style(SP.Origin, s.CoordinateType(x=L(F(rng.randint(38, 62)), U.pct), y=L(F(rng.randint(38, 62)), rng.choice([U.pct, U.rh]))))
        if r.get_style(SP.Position) is not None and rng.random() < 0.8: r.set_style(SP.Position, None)
        if r.get_style(SP.Position) is None and rng.random() < 0.15: r.set_style(SP.Position, docgen.rvalue(rng, SP.Position))
        # (since fix d8691ec positioned regions work with any extent: %, px, c, rh/rw, none — all are generated)
        if r.get_style(SP.Position) is not None and rng.random() < 0.15:
            r.set_style(SP.Extent, s.ExtentType(height=docgen.rlen(rng, [U.rh]), width=docgen.rlen(rng, [U.rw])))
        if r.get_style(SP.Position) is not None and rng.random() < 0.3:      # around the 50 % line, from either edge
            P = s.PositionType
            r.set_style(SP.Position, P(L(F(rng.randint(0, 60)), U.pct), L(F(rng.randint(20, 60)), rng.choice([U.pct, U.pct, U.rh])),
                                       h_edge=rng.choice(list(P.HEdge)), v_edge=rng.choice(list(P.VEdge))))
        if rng.random() < 0.35: r.set_style(SP.WritingMode, rng.choice(list(s.WritingModeType)))
        if rng.random() < 0.5: r.set_style(SP.DisplayAlign, rng.choice(list(s.DisplayAlignType)))
        if rng.random() < 0.2: r.set_style(SP.TextAlign, rng.choice(list(s.TextAlignType)))
        if rng.random() < 0.7:
            r.set_begin(rng.choice([None, None, F(0), F(1), F(2)]))
            r.set_end(rng.choice([None, None, F(0), F(0), F(10)] if rng.random() < 0.12 else [None, None, F(10), F(12)]))
    if rng.random() < 0.15: d.put_initial_value(SP.WritingMode, rng.choice(list(s.WritingModeType)))
    if rng.random() < 0.15: d.put_initial_value(SP.DisplayAlign, rng.choice(list(s.DisplayAlignType)))
    if rng.random() < 0.10: d.put_initial_value(SP.Origin, docgen.rvalue(rng, SP.Origin))
    if rng.random() < 0.12: d.put_initial_value(SP.Extent, docgen.rvalue(rng, SP.Extent))      # any unit: tts:position is relative to the computed value
    # initial values of the properties the filter overrides or converts (tts:position as an initial value must go away)
    if rng.random() < 0.08: d.put_initial_value(SP.Position, docgen.rvalue(rng, SP.Position))
    if rng.random() < 0.12: d.put_initial_value(SP.Color, rng.choice(docgen.COLORS))
    if rng.random() < 0.10: d.put_initial_value(SP.BackgroundColor, rng.choice(docgen.COLORS))
    if rng.random() < 0.12: d.put_initial_value(SP.TextAlign, rng.choice(list(s.TextAlignType)))
    # regions that differ only in tts:textAlign (kept apart when it is preserved), from a pool of two values
    if rng.random() < 0.35:
        pool = rng.sample(list(s.TextAlignType), 2)
        for r in d.iter_regions():
            r.set_style(SP.TextAlign, rng.choice(pool + [None]))
    # colour, background, alignment and tts:position specified on content elements
    if d.get_body() is not None:
        for e in d.get_body().dfs_iterator():
            if isinstance(e, (m.Text, m.Br)): continue
            if rng.random() < 0.10: e.set_style(SP.Color, rng.choice(docgen.COLORS))
            if rng.random() < 0.08: e.set_style(SP.BackgroundColor, rng.choice(docgen.COLORS))
            if rng.random() < 0.10: e.set_style(SP.TextAlign, rng.choice(list(s.TextAlignType)))
            if rng.random() < 0.04: e.set_style(SP.Position, docgen.rvalue(rng, SP.Position))
    # several animation steps on some elements
    props = [p for p in docgen.ALL if not (not hide and p.__name__ in ("Display", "Visibility", "Opacity"))]
    elems = list(d.iter_regions()) + ([e for e in d.get_body().dfs_iterator() if not isinstance(e, m.Text)] if d.get_body() is not None else [])
    for e in elems:
        if rng.random() < 0.12:
            for _ in range(rng.randint(2, 5)):
                p = rng.choice(props)
                e.add_animation_step(m.DiscreteAnimationStep(p, docgen.rtime(rng, 6), docgen.rtime(rng, 8), docgen.rvalue(rng, p)))


def make_doc(rng, k):
    import docgen
    prof = k % 4
    hide = (k % 3 == 0)
    g = docgen.Gen(rng, style_density=(0.0, 0.04, 0.08, 0.14)[prof], anim_density=(0.01, 0.03, 0.03, 0.04)[prof],
                   display_p=(0.07 if hide else 0.0), region_ref_p=(0.45, 0.35, 0.3, 0.25)[prof],
                   exclude_props=(() if hide else ("Display", "Visibility", "Opacity")))
    d = g.doc(rng.choice([0, 1, 2, 2, 3, 3, 4]))
    redress(rng, d, hide)
    return d, g.n


CFG_COLORS = ["red", "blue", "transparent", "black", "#FFFFFF", "#01020304", "#00000000", "#ffffffff", "rgb(1,2,3)", "rgba(255,255,0,128)"]
SAFE_AREAS = [0, 0, 1, 5, 10, 10, 29, 30, 30]


def make_cfg(rng):
    """the configuration as the dictionary of a configuration file (README): every field, boundary values of safe_area (0, 1, 29,
    30), colours with and without alpha incl. fully transparent and fully opaque; None = key absent (the default)"""
    col = lambda: rng.choice([None] * 6 + CFG_COLORS)
    return dict(safe_area=rng.choice(SAFE_AREAS + [None]), preserve_text_align=rng.choice([True, True, False, None]), color=col(), bg_color=col())


def cfg_object(cfg):
    """LCDDocFilterConfig built the way tt.py builds it: ModuleConfiguration.parse runs the field decoders (_safe_area_decoder, bool,
    _color_decoder); absent keys take the dataclass defaults"""
    from ttconv.filters.doc.lcd import LCDDocFilterConfig
    return LCDDocFilterConfig.parse({k: v for k, v in cfg.items() if v is not None})


def cfg_lit(co):
    """the model's configuration record, read off the fields of the decoded configuration object"""
    import isdlit as L
    oc = lambda c: "None" if c is None else f"(Some {L.color_packed(c)})"
    return f"(mkCfg {int(co.safe_area)} {C.boolean(bool(co.preserve_text_align))} {oc(co.color)} {oc(co.bg_color)})"


def run_filter(d, co):
    """apply the real filter in place (co: an LCDDocFilterConfig, or the keyword arguments of one); None or the exception"""
    from ttconv.filters.doc.lcd import LCDDocFilter, LCDDocFilterConfig
    if isinstance(co, dict): co = LCDDocFilterConfig(**co)
    try:
        LCDDocFilter(co).process(d)
    except Exception as e:          # noqa: the class of the exception is the compared outcome
        return e
    return None


def tagged_leaves(d, t):
    """multiset of (paragraph id, leaf) of the real snapshot; None when ISD.from_model raises"""
    from ttconv.isd import ISD
    m, s = _mods()
    try:
        isd = ISD.from_model(d, t)
    except Exception:               # noqa (C01's recorded ruby finding, style computation errors)
        return None
    out = Counter()
    def walk(e, pid):
        if isinstance(e, m.P): pid = e.get_id()
        if isinstance(e, m.Br): out[(pid, "br")] += 1
        elif isinstance(e, m.Text):
            t_ = "".join(c for c in e.get_text() if c not in "\t\n\r ")
            if t_: out[(pid, t_)] += 1
        for c in e: walk(c, pid)
    for r in isd.iter_regions(): walk(r, None)
    return out, isd


def p_aligns(isd):
    m, s = _mods()
    return {e.get_id(): e.get_style(s.StyleProperties.TextAlign) for r in isd.iter_regions() for e in r.dfs_iterator() if isinstance(e, m.P)}


def one_case(args):
    """worker: one document x its configurations -> case blocks and Python-side observations"""
    k, seed, ncfg, ntimes = args
    import random
    sys.path.insert(0, C.SRC)
    logging.disable(logging.CRITICAL)
    import isdlit as L, docgen
    m, s = _mods()
    rng = random.Random(seed)
    d0, size = make_doc(rng, k)
    ts = docgen.query_times(rng, d0, ntimes)
    src = L.doc_lit(d0)
    before = [tagged_leaves(d0, t) for t in ts]
    ta_anim = any(a.style_property is s.StyleProperties.TextAlign for e in ([*d0.iter_regions()] + ([*d0.get_body().dfs_iterator()] if d0.get_body() is not None else []))
                  for a in e.iter_animation_steps())
    out = []
    for j in range(ncfg):
        raw = make_cfg(rng)
        if j == ncfg - 1 and ncfg > 1 and rng.random() < 0.3: raw = dict(safe_area=None, preserve_text_align=None, color=None, bg_color=None)   # the defaults
        co = cfg_object(raw)
        cfg = dict(safe_area=co.safe_area, preserve_text_align=co.preserve_text_align, color=co.color, bg_color=co.bg_color)
        d = copy.deepcopy(d0)
        if L.doc_lit(d) != src: return dict(k=k, fatal="deepcopy changed the document")
        exc = run_filter(d, co)
        obs = dict(k=k, j=j, cfg={kk: (str(v) if kk in ("color", "bg_color") and v is not None else v) for kk, v in cfg.items()}, raw_cfg=raw,
                   exc=None, leaves_bad=[], leaves_lost=[], twice=None, align_bad=[], nreg=len(list(d0.iter_regions())), size=size,
                   nreg_after=None, n_anim=0, computed_bad=[])
        if exc is not None:
            code = EXN.get(type(exc).__name__, 99)
            obs["exc"] = type(exc).__name__
            olit = f"(Err {code})"
        else:
            after_lit = L.doc_lit(d)
            olit = f"(Ok {after_lit})"
            obs["nreg_after"] = len(list(d.iter_regions()))
            for i, t in enumerate(ts):
                if before[i] is None: continue
                a = tagged_leaves(d, t)
                if a is None: obs["leaves_bad"].append((i, "snapshot of the filtered document raises")); continue
                if a[0] != before[i][0]:
                    obs["leaves_bad"].append((i, f"before {sorted(before[i][0].items())[:6]} after {sorted(a[0].items())[:6]}"))
                    if before[i][0] - a[0]: obs["leaves_lost"].append(i)
                # computed colour / background / alignment on the real snapshot
                for r in a[1].iter_regions():
                    for e in r.dfs_iterator():
                        if cfg["color"] is not None and e.get_style(s.StyleProperties.Color) not in (None, cfg["color"]): obs["computed_bad"].append((i, "color"))
                        if isinstance(e, m.P):
                            if cfg["bg_color"] is not None and e.get_style(s.StyleProperties.BackgroundColor) != cfg["bg_color"]: obs["computed_bad"].append((i, "backgroundColor"))
                            if not cfg["preserve_text_align"] and e.get_style(s.StyleProperties.TextAlign) is not s.TextAlignType.center: obs["computed_bad"].append((i, "textAlign"))
                if cfg["preserve_text_align"] and not ta_anim:
                    pa, pb = p_aligns(before[i][1]), p_aligns(a[1])
                    if any(pa.get(pid) is not v for pid, v in pb.items() if pid in pa): obs["align_bad"].append(i)
            # a second application
            d2 = copy.deepcopy(d)
            exc2 = run_filter(d2, co)
            obs["twice"] = (type(exc2).__name__ if exc2 is not None else (None if L.doc_lit(d2) == after_lit else "differs"))
        SPs = s.StyleProperties
        body_elems = [*d0.get_body().dfs_iterator()] if d0.get_body() is not None else []
        obs["pos_regions"] = sum(1 for r in d0.iter_regions() if r.get_style(SPs.Position) is not None)
        obs["pos_regions_extent"] = sorted({("none" if r.get_style(SPs.Extent) is None else r.get_style(SPs.Extent).height.units.value) for r in d0.iter_regions() if r.get_style(SPs.Position) is not None})
        obs["pos_content"] = sum(1 for e in body_elems if e.get_style(SPs.Position) is not None)
        obs["init_keys"] = sorted(p.__name__ for p, _ in d0.iter_initial_values() if p in (SPs.Position, SPs.Color, SPs.BackgroundColor, SPs.TextAlign, SPs.Extent, SPs.Origin, SPs.DisplayAlign, SPs.WritingMode))
        if exc is None:
            regs = list(d.iter_regions())
            key = lambda r: (r.get_begin() or 0, r.get_end(), r.get_style(SPs.DisplayAlign))
            obs["kept_apart_by_text_align"] = any(key(a) == key(b) and a.get_style(SPs.TextAlign) is not b.get_style(SPs.TextAlign)
                                                  for i, a in enumerate(regs) for b in regs[i + 1:])
        obs["n_anim"] = sum(len(list(e.iter_animation_steps())) for e in ([*d0.iter_regions()] + ([*d0.get_body().dfs_iterator()] if d0.get_body() is not None else [])))
        n = f"{k}_{j}"
        defs = (f"Definition c{n} := {cfg_lit(co)}.\n" + (f"Definition d{k} := {src}.\nDefinition t{k} : list Q := [{'; '.join(L.qlit(t) for t in ts)}].\n" if j == 0 else "") +
                f"Definition o{n} : res doc := {olit}.")
        slots = [f"[lcd_outcome_close (lcd c{n} d{k}) o{n} || tie_sensitive c{n} d{k}]",
                 f"[same_key_order (lcd c{n} d{k}) o{n}]",
                 f"case_static c{n} d{k} o{n}",
                 f"case_timeline c{n} d{k} o{n} t{k}", f"case_timeline_strict d{k} o{n} t{k}", f"case_computed c{n} o{n} t{k}",
                 f"[trig_nested c{n} d{k}; no_hiding_b d{k}; wf_doc_b d{k}; lcd_outcome_close (lcd c{n} d{k}) o{n}]",
                 f"[case_align c{n} d{k} o{n}]"]
        counts = [1, 1, len(STATIC), len(ts), len(ts), len(ts), len(TRIGS), 1]
        out.append(((k, j), defs, slots, counts, obs))
    return dict(k=k, cases=out, times=[str(t) for t in ts], src=src)


# ------------------------------------------------------------------ recorded findings: fixed witnesses on the real code
def finding_witnesses():
    """id -> failure text while the defect is present, None once the code no longer fails on the witness"""
    sys.path.insert(0, C.SRC)
    m, s = _mods()
    from ttconv.isd import ISD
    SP = s.StyleProperties; L = s.LengthType; U = L.Units
    def mk(nreg=1):
        d = m.ContentDocument(); rs = []
        for i in range(nreg):
            r = m.Region(f"r{i}", d); d.put_region(r); rs.append(r)
        b = m.Body(d); d.set_body(b); dv = m.Div(d); b.push_child(dv); p = m.P(d); dv.push_child(p)
        sp = m.Span(d); p.push_child(sp); sp.push_child(m.Text(d, "hello"))
        return d, rs, b, dv, p, sp
    def texts(d, t):
        return [e.get_text() for r in ISD.from_model(d, t).iter_regions() for e in r.dfs_iterator() if isinstance(e, m.Text)]
    dflt = dict(safe_area=10, preserve_text_align=False, color=None, bg_color=None)
    res = {}
    # lcd-position (repaired by d8691ec): tts:position with every kind of extent, both edges; the resulting displayAlign follows the position
    bad = None
    # (extent, displayAlign expected when the region is positioned 0% from the bottom edge: "after" iff 100 - computed height >= 50;
    #  default resolutions: 15 rows, 1080 px)
    exts = [(None, None), ((L(80, U.pct), L(80, U.pct)), "before"), ((L(100, U.px), L(300, U.px)), "after"), ((L(3, U.c), L(20, U.c)), "after"),
            ((L(20, U.rh), L(80, U.rw)), "after")]
    for ext, bottom_want in exts:
        for init in (None, s.ExtentType(height=L(200, U.px), width=L(400, U.px))):
            if ext is None: bottom_want = "before" if init is None else "after"      # 100 % / 200 px of 1080
            for ve, want in ((s.PositionType.VEdge.top, "before"), (s.PositionType.VEdge.bottom, bottom_want)):
                d, rs, b, dv, p, sp = mk(); dv.set_region(rs[0])
                if init is not None: d.put_initial_value(SP.Extent, init)
                rs[0].set_style(SP.Position, s.PositionType(L(10, U.pct), L(0, U.pct), h_edge=s.PositionType.HEdge.right, v_edge=ve))
                if ext is not None: rs[0].set_style(SP.Extent, s.ExtentType(height=ext[0], width=ext[1]))
                e = run_filter(d, dflt)
                what = f"region with tts:position 10% 0% ({ve.name}) and tts:extent {'absent' if ext is None else str(ext[0].value) + ext[0].units.value} (initial extent {'set' if init else 'absent'})"
                if e is not None: bad = bad or f"{what}: {type(e).__name__}"
                elif rs[0].get_style(SP.Position) is not None or rs[0].get_style(SP.Origin).y.value != 10: bad = bad or f"{what}: region not at the safe area"
                elif rs[0].get_style(SP.DisplayAlign).name != want:
                    bad = bad or f"{what}: displayAlign {rs[0].get_style(SP.DisplayAlign).name}, expected {want}"
    d, rs, b, dv, p, sp = mk(); dv.set_region(rs[0])
    rs[0].set_style(SP.Position, s.PositionType(L(10, U.pct), L(10, U.pct))); rs[0].set_style(SP.Extent, s.ExtentType(L(80, U.pct), L(80, U.pct)))
    e = run_filter(d, dflt)
    if e is not None: bad = f"region with tts:position 10% 10% and tts:extent 80% 80%: {type(e).__name__}"
    res["lcd-position"] = bad
    # lcd-position-survives (repaired by 5958b0b): on a p, a span, as an initial value, on a region
    d, rs, b, dv, p, sp = mk(); pos = s.PositionType(L(10, U.pct), L(10, U.pct))
    p.set_style(SP.Position, pos); sp.set_style(SP.Position, pos); d.put_initial_value(SP.Position, pos)
    rs[0].set_style(SP.Position, pos); rs[0].set_style(SP.Extent, s.ExtentType(L(80, U.pct), L(80, U.pct)))
    e = run_filter(d, dflt)
    left = [n for n, x in (("p", p), ("span", sp), ("region", rs[0])) if x.get_style(SP.Position) is not None] + (["initial value"] if d.has_initial_value(SP.Position) else [])
    res["lcd-position-survives"] = (f"{type(e).__name__}" if e is not None else (f"tts:position is still there after the filter on: {', '.join(left)}" if left else None))
    d, rs, b, dv, p, sp = mk(2); dv.set_region(rs[0]); p.set_region(rs[1])
    bef = texts(d, 0); run_filter(d, dflt); aft = texts(d, 0)
    res["lcd-nested-region-conflict"] = None if bef == aft else f"<div region=r0><p region=r1>: visible at t=0 before {bef}, after {aft}"
    d, rs, b, dv, p, sp = mk(2); dv.set_region(rs[1]); rs[0].set_style(SP.TextAlign, s.TextAlignType.start); rs[1].set_style(SP.TextAlign, s.TextAlignType.end)
    al = lambda: [e.get_style(SP.TextAlign).name for r in ISD.from_model(d, 0).iter_regions() for e in r.dfs_iterator() if isinstance(e, m.P)]
    bef = al(); run_filter(d, dict(dflt, preserve_text_align=True)); aft = al()
    res["lcd-preserve-text-align-merge"] = None if bef == aft else f"preserve_text_align, regions r0 textAlign=start / r1 textAlign=end merged: p computes {bef} before, {aft} after"
    if res["lcd-preserve-text-align-merge"] is None:      # without preserve_text_align, and with equal textAlign, the two regions are still merged
        for ta, pta in ((s.TextAlignType.end, False), (s.TextAlignType.start, True)):
            d, rs, b, dv, p, sp = mk(2); dv.set_region(rs[1]); rs[0].set_style(SP.TextAlign, s.TextAlignType.start); rs[1].set_style(SP.TextAlign, ta)
            run_filter(d, dict(dflt, preserve_text_align=pta))
            if len(list(d.iter_regions())) != 1: res["lcd-preserve-text-align-merge"] = f"regions with textAlign start / {ta.name} not merged (preserve_text_align={pta})"
    return res


# ------------------------------------------------------------------ the check
def main():
    run = C.Run(PROP, "proof")
    run.hygiene()
    sys.path.insert(0, C.SRC)
    import gen_tables, isdcore
    changed, errors = gen_tables.generate({"StyleTables"})
    if errors:
        run.violation("table translator failed closed: " + "; ".join(errors), dict(kind="translator", errors=errors), False)
        return run.finish()
    ok, log = run.build(["Proofs/C16/All.vo", "Model/LcdCases.vo"], clean=(run.tier == "thorough"))
    proofs_ok = ok and run.theorems()
    if not ok: run.proof_log = log[-2500:]
    run.witnesses()
    run.log(f"built; theorems ok = {proofs_ok}")
    logging.disable(logging.CRITICAL)

    # recorded findings: their fixed witnesses must still fail, otherwise the entry is stale
    wit = finding_witnesses(); stale = []
    unlisted_ids = [f for f in FINDINGS if f not in {x["id"] for x in run.findings}]
    if unlisted_ids:
        run.violation("findings used by the check but not listed in KNOWN_FINDINGS.txt: " + ", ".join(unlisted_ids),
                      dict(kind="unlisted-findings", ids=unlisted_ids), False)
    for fid in FINDINGS:
        if wit.get(fid): run.known(fid, "witness: " + wit[fid])
        else: stale.append(fid)
    for fid in REPAIRED:
        if wit.get(fid):
            run.violation(f"repaired defect is back: {fid}: {wit[fid]}", dict(kind="witness", witness=fid, failure=wit[fid]))
    if stale: run.cov["stale_findings"] = [f"{f}: witness no longer fails" for f in stale]

    ndocs = 300 if run.tier == "quick" else 4000
    ncfg = 3
    ntimes = 12 if run.tier == "quick" else 14
    jobs = [(k, run.rng.getrandbits(62), ncfg, ntimes) for k in range(ndocs)]
    with ProcessPoolExecutor(C.NCPU) as ex:
        results = list(ex.map(one_case, jobs, chunksize=4))
    fatal = [r for r in results if r.get("fatal")]
    if fatal:
        run.violation("harness: " + fatal[0]["fatal"], dict(kind="harness", first=fatal[0]), False); return run.finish()
    blocks, info = [], {}
    for r in results:
        for cid, defs, slots, counts, obs in r["cases"]:
            blocks.append((cid, defs, slots, counts)); info[cid] = (obs, r)
    # cases of one document must stay in one shard (d_k / t_k are defined with the first of them): group per document
    grouped = []
    for r in results:
        cs = r["cases"]
        grouped.append((cs[0][0][0], "\n".join(c[1] for c in cs), [" ++ ".join(f"({c[2][s]})" for c in cs) for s in range(len(cs[0][2]))],
                        [sum(c[3][s] for c in cs) for s in range(len(cs[0][2]))]))
    files = isdcore.write_shards("Cases_C16_", HEADER, grouped)
    run.log(f"implementation run on {len(info)} cases; {len(files)} case files")
    bad, broken = isdcore.eval_shards(files, timeout=2400)
    C.clean_cases("Cases_C16_")

    def locate(slot):
        """(document, local index) -> ((k, j), index inside the case)"""
        out = []
        for k, i in bad.get(slot, []):
            cs = results[k]["cases"]; acc = 0
            for c in cs:
                n = c[3][slot]
                if i < acc + n: out.append((c[0], i - acc)); break
                acc += n
        return out
    m_bad = [c for c, _ in locate(0)]
    order_bad = [c for c, _ in locate(1)]
    static_bad = locate(2)
    tl_bad = locate(3); tl_strict = locate(4); comp_bad = locate(5)
    trig = {cid: [True] * len(TRIGS) for cid in info}
    for cid, i in locate(6): trig[cid][i] = False
    T = lambda cid, name: trig[cid][TRIGS.index(name)]
    tie_excused = [cid for cid in info if not T(cid, "tie") and cid not in m_bad]
    align_coq_bad = [c for c, _ in locate(7)]

    outside = [cid for cid in info if not T(cid, "wf")]
    frc, fout = C.coqc(C.COQ + "/Findings/C16.v", 900)
    if frc != 0: run.cov.setdefault("stale_findings", []).append("coq/Findings/C16.v no longer compiles: " + fout[-300:])
    ncases = len(info)
    n_ok = sum(1 for o, _ in info.values() if o["exc"] is None)
    excs = Counter(o["exc"] for o, _ in info.values() if o["exc"])
    merged_cases = sum(1 for o, _ in info.values() if o["exc"] is None and o["nreg_after"] < o["nreg"])
    run.log(f"{ndocs} documents x {ncfg} configurations = {ncases} cases ({n_ok} filtered, {dict(excs)} raised, {merged_cases} with merged regions): "
            f"model/code mismatches {len(m_bad)} (+{len(tie_excused)} float ties), key-order mismatches {len(order_bad)}, "
            f"S static failures outside findings {len(static_bad)}, timeline failures outside findings {len(tl_bad)}, "
            f"computed-style failures {len(comp_bad)}, preserved-alignment failures {len(align_coq_bad)}, broken case files {len(broken)}")

    def replay(cid, extra=None):
        obs, r = info[cid]
        d = dict(document=r["src"], configuration=obs["cfg"], implementation_outcome=obs["exc"] or "filtered", times=r["times"],
                 rerun_hint="coq: lcd (mkCfg ..) document; python: LCDDocFilter(LCDDocFilterConfig(**configuration)).process(doc)")
        if extra: d.update(extra)
        return d
    s_fail = False
    # ---- S on the code: static clauses
    for cid, i in static_bad[:1]:
        s_fail = True
        run.violation(f"LCD result violates '{STATIC[i]}' (document {cid[0]}, configuration {cid[1]})",
                      dict(kind="S-on-code", clause=STATIC[i], spec="coq/Spec/LcdSpec.v", first=replay(cid),
                           counts=dict(Counter(STATIC[i] for _, i in static_bad))))
    # ---- strict clauses that only a finding's trigger excuses -> KNOWN-FINDING while they fire
    fired = Counter()
    tl_bad_set = set(tl_bad)
    for cid, i in tl_strict:
        if (cid, i) in tl_bad_set: continue
        fired["lcd-nested-region-conflict"] += 1
    # ---- timeline (Coq, TTML2 leaf specification on source and result)
    for cid, i in tl_bad[:1]:
        s_fail = True
        run.violation(f"visible text differs before / after the LCD filter at t={info[cid][1]['times'][i]} (document {cid[0]}, configuration {cid[1]})",
                      dict(kind="S-on-code", clause="text timeline", spec="coq/Spec/LcdSpec.v timeline_b", first=replay(cid, dict(time=info[cid][1]["times"][i])),
                           count=len(tl_bad)))
    for cid, i in comp_bad[:1]:
        s_fail = True
        run.violation(f"snapshot of the filtered document does not compute the configured colour / background / alignment at t={info[cid][1]['times'][i]}",
                      dict(kind="S-on-code", clause="computed styles", first=replay(cid, dict(time=info[cid][1]["times"][i])), count=len(comp_bad)))
    for cid in align_coq_bad[:1]:
        s_fail = True
        run.violation(f"preserve_text_align: the text alignment cascade of an element differs before / after the filter (document {cid[0]}, configuration {cid[1]})",
                      dict(kind="S-on-code", clause="preserved alignment (computed_align)", spec="coq/Spec/LcdSpec.v computed_align / Model/LcdCases.v case_align",
                           first=replay(cid), count=len(align_coq_bad)))
    # ---- Python-side observations (real snapshots, second application)
    py_tl, py_twice, py_comp, py_align = [], [], [], []
    for cid, (obs, r) in info.items():
        if obs["exc"] is not None: continue
        if obs["leaves_bad"] and T(cid, "no_hiding"):
            if T(cid, "nested"): fired["lcd-nested-region-conflict"] += 1
            else: py_tl.append(cid)
        if obs["leaves_lost"] and cid not in py_tl: py_tl.append(cid)      # nothing visible may be lost, hiding or not
        if obs["twice"] is not None: py_twice.append(cid)
        if obs["computed_bad"]: py_comp.append(cid)
        if obs["align_bad"]: py_align.append(cid)          # since fix 2d34128 also across merged regions
    if py_tl:
        s_fail = True; cid = py_tl[0]
        run.violation(f"real snapshots before / after the LCD filter show different text (document {cid[0]}, configuration {cid[1]}): {info[cid][0]['leaves_bad'][0]}",
                      dict(kind="S-on-code", clause="text timeline (ISD.from_model)", first=replay(cid, dict(detail=info[cid][0]["leaves_bad"][:3])), count=len(py_tl)))
    if py_twice:
        s_fail = True; cid = py_twice[0]
        run.violation(f"applying the LCD filter twice differs from applying it once (document {cid[0]}, configuration {cid[1]}): {info[cid][0]['twice']}",
                      dict(kind="S-on-code", clause="idempotent", first=replay(cid), count=len(py_twice)))
    if py_comp:
        s_fail = True; cid = py_comp[0]
        run.violation(f"real snapshot of the filtered document does not compute the configured {info[cid][0]['computed_bad'][0][1]} (document {cid[0]})",
                      dict(kind="S-on-code", clause="computed styles (ISD.from_model)", first=replay(cid), count=len(py_comp)))
    if py_align:
        s_fail = True; cid = py_align[0]
        run.violation(f"preserve_text_align: a paragraph computes another textAlign after the filter (document {cid[0]})",
                      dict(kind="S-on-code", clause="preserved alignment", first=replay(cid), count=len(py_align)))
    for fid, n in fired.items():
        if not run.known(fid, f"{n} generated cases"):
            s_fail = True
            run.violation(f"finding {fid} fires but is not listed", dict(kind="unlisted-finding", id=fid), False)
    # ---- broken ties
    if (m_bad or order_bad or broken or not proofs_ok) and not s_fail:
        what = []
        if not proofs_ok: what.append("theorems of coq/Properties/C16.v no longer check: " + getattr(run, "proof_log", "")[-500:])
        if m_bad: what.append(f"correspondence Model/Lcd.v vs LCDDocFilter.process disagrees on {len(m_bad)} cases (first: document {m_bad[0][0]}, configuration {m_bad[0][1]})")
        if order_bad: what.append(f"style dictionary order of the model differs from the implementation's on {len(order_bad)} cases")
        if broken: what.append(f"case files did not evaluate: {broken[0]}")
        first = (m_bad or order_bad or [None])[0]
        run.violation("; ".join(what), dict(kind="broken-tie", theorem_file="coq/Properties/C16.v", proofs_ok=proofs_ok,
                                            correspondence="Model/Lcd.v lcd vs ttconv.filters.doc.lcd.LCDDocFilter.process",
                                            first=replay(first) if first else None), found_input=False)
    hist = lambda f: dict(sorted(Counter(f(o) for o, _ in info.values()).items(), key=lambda kv: str(kv[0])))
    distinct = len({(r["src"], str(o["cfg"])) for o, r in info.values() if o["exc"] is None})
    k0 = results[0]
    run.cov.update(evaluations=ncases, distinct_nontrivial=distinct,
                   rule="random well-formed documents (docgen.Gen: 0-4 regions, body/div/p/span/br/text/ruby, region references at any level incl. "
                        "conflicting nested ones, every style property; regions re-dressed with origin/extent in pct/px/c/rh/rw, tts:position (15 %, from "
                        "either edge, with an extent in any unit or none), writing modes, displayAlign, textAlign from a pool of two values, timings from "
                        "a small pool so that fingerprints collide, 2-5 animation steps on 12 % of the elements; initial values of origin, extent (any unit), "
                        "position, color, backgroundColor, textAlign, displayAlign, writingMode; color/backgroundColor/textAlign/position specified on content "
                        "elements; two thirds without display/visibility/opacity) x 3 configurations given as configuration-file dictionaries and decoded by "
                        "LCDDocFilterConfig.parse (safe_area in {0,1,5,10,29,30} or absent, preserve_text_align true/false/absent, color and bg_color absent or "
                        "one of 10 colour strings incl. #RRGGBBAA, transparent, opaque; all keys absent for the last configuration 30 % of the time). Each case: "
                        "model vs filtered document, S clauses on the implementation's result, timeline and computed styles at boundary/epsilon/midpoint times, "
                        "second application. distinct_nontrivial = distinct (document, configuration) pairs on which the filter succeeded.",
                   samples=[dict(document=k0["src"][:1500], configuration=k0["cases"][0][4]["cfg"], times=k0["times"][:8])],
                   documents=ndocs, cases_filtered=n_ok, exceptions=dict(excs), cases_with_merged_regions=merged_cases,
                   regions_per_document=hist(lambda o: o["nreg"]), safe_area=hist(lambda o: o["cfg"]["safe_area"]),
                   preserve_text_align=hist(lambda o: o["cfg"]["preserve_text_align"]),
                   color_configured=hist(lambda o: o["cfg"]["color"] is not None), bg_configured=hist(lambda o: o["cfg"]["bg_color"] is not None),
                   animation_steps_per_document=dict(max=max(o["n_anim"] for o, _ in info.values()), documents_with_two_or_more=sum(1 for o, _ in info.values() if o["j"] == 0 and o["n_anim"] >= 2)),
                   documents_with_positioned_regions=sum(1 for o, _ in info.values() if o["j"] == 0 and o["pos_regions"]),
                   extent_units_of_positioned_regions=dict(Counter(u for o, _ in info.values() if o["j"] == 0 for u in o["pos_regions_extent"])),
                   documents_with_position_on_content=sum(1 for o, _ in info.values() if o["j"] == 0 and o["pos_content"]),
                   initial_values=dict(Counter(kk for o, _ in info.values() if o["j"] == 0 for kk in o["init_keys"])),
                   cases_regions_kept_apart_by_text_align=sum(1 for o, _ in info.values() if o.get("kept_apart_by_text_align")),
                   configuration_keys_absent=dict(Counter(kk for o, _ in info.values() for kk, v in o["raw_cfg"].items() if v is None)),
                   documents_without_hiding=sum(1 for cid in info if cid[1] == 0 and T(cid, "no_hiding")),
                   query_times=sum(len(r["times"]) for r in results) * ncfg,
                   cases_outside_theorem_domain=len(outside), findings_file_compiles=(frc == 0),
                   model_code_mismatches=len(m_bad), float_tie_cases_excused=len(tie_excused), key_order_mismatches=len(order_bad),
                   s_static_failures=len(static_bad), timeline_failures=len(tl_bad), preserved_alignment_failures=len(align_coq_bad),
                   findings_fired=dict(fired))
    run.assumptions += ["documents are well formed (C15): region identity is modelled by xml:id, style dictionaries have unique keys",
                        "the implementation compares origin / origin+extent with 50 in binary floating point when a length was given in c or px; "
                        "a model/code disagreement is excused only when such a quantity is within 1e-6 of 50 (counted as float_tie_cases_excused)",
                        "since fix d8691ec the model has no failing outcome on well-typed documents: every exception of the filter is a model/code mismatch and a failed 'filter succeeds' clause",
                        "the configuration record of the model is read off the decoded LCDDocFilterConfig object (safe_area int, bool, colours as RGBA8)"]
    return run.finish(["harness/isdlit.py (Python objects -> Gallina literals)", "harness/docgen.py + harness/c16.py redress (input generator)",
                       "harness/gen_core.py (style tables translator)", "copy.deepcopy of a ContentDocument yields an equal document (checked per case through doc_lit)"])


if __name__ == "__main__":
    sys.exit(main())
