"""Witnesses of the recorded C08 findings (SCC reader vs CEA-608).  Each returns None when the reader does what
a CEA-608 decoder does on the tiny stream, a string describing the failure otherwise.  The witness name is the
finding id of findings_proposed/C08.txt / KNOWN_FINDINGS.txt."""
from fractions import Fraction
from witnesses import witness

RCL, BS, DER, RU2, RDC, EDM, CR, ENM, EOC = 0x1420, 0x1421, 0x1424, 0x1425, 0x1429, 0x142C, 0x142D, 0x142E, 0x142F
_ROW = {1: (0x11, 0), 2: (0x11, 1), 3: (0x12, 0), 4: (0x12, 1), 5: (0x15, 0), 6: (0x15, 1), 7: (0x16, 0), 8: (0x16, 1),
        9: (0x17, 0), 10: (0x17, 1), 11: (0x10, 0), 12: (0x13, 0), 13: (0x13, 1), 14: (0x14, 0), 15: (0x14, 1)}
GREEN, RED, CYAN = 2, 8, 6          # PAC / mid-row colour attributes (even = no underline)


def pac(row, indent=None, attr=0):
    b1, hi = _ROW[row]
    a = attr if indent is None else 0x10 + 2 * (indent // 4)
    return (b1 << 8) | (0x40 + (0x20 if hi else 0) + a)

def txt(s):
    bs = [ord(c) for c in s]
    if len(bs) % 2: bs.append(0)
    return [(bs[i] << 8) | bs[i + 1] for i in range(0, len(bs), 2)]

def scc(*lines):
    """lines: (frame count at 30 fps non-drop, [words])"""
    out = ["Scenarist_SCC V1.0", ""]
    for t, ws in lines:
        out.append("%02d:%02d:%02d:%02d\t" % (t // 108000, (t // 1800) % 60, (t // 30) % 60, t % 30) + " ".join("%04x" % w for w in ws))
        out.append("")
    return "\n".join(out)

def read(s):
    import ttconv.scc.reader as r
    return r.to_model(s)

def paragraphs(doc):
    import ttconv.model as m
    return [e for e in doc.get_body().dfs_iterator() if isinstance(e, m.P)]

def rows_at(doc, frame):
    """the rows shown at a frame (30 fps): {row: [(char, colour components or None, italic, underline)]}"""
    import ttconv.model as m, ttconv.style_properties as s
    t = Fraction(frame, 30); out = {}
    for p in paragraphs(doc):
        if p.get_begin() is not None and p.get_begin() > t: continue
        if p.get_end() is not None and p.get_end() <= t: continue
        reg = p.get_region()
        oy = reg.get_style(s.StyleProperties.Origin).y.value
        eh = reg.get_style(s.StyleProperties.Extent).height.value
        lines = [[]]
        for c in p:
            if isinstance(c, m.Br): lines.append([]); continue
            if c.get_begin() is not None and (p.get_begin() or 0) + c.get_begin() > t: continue
            col = c.get_style(s.StyleProperties.Color)
            st = (None if col is None else tuple(col.components), c.get_style(s.StyleProperties.FontStyle) is not None,
                  c.get_style(s.StyleProperties.TextDecoration) is not None)
            for x in c:
                if isinstance(x, m.Text): lines[-1] += [(ch,) + st for ch in x.get_text()]
        top = round(oy * 19 / 100) - 2 + 1
        first = top + round(eh * 19 / 100) - len(lines) if reg.get_style(s.StyleProperties.DisplayAlign) is s.DisplayAlignType.after else top
        for k, l in enumerate(lines):
            if "".join(x[0] for x in l).strip(): out.setdefault(first + k, []).extend(l)
    return out

def text_rows(doc, frame):
    return {r: "".join(x[0] for x in l).rstrip() for r, l in rows_at(doc, frame).items()}


@witness("C08", "doubled-code-no-frame")
def _():
    T = 300
    d = read(scc((T, [RCL, RCL, ENM, ENM, pac(15, 0), pac(15, 0)] + txt("AB") + [EOC, EOC])))
    ps = paragraphs(d)
    if len(ps) != 1: return f"{len(ps)} paragraphs"
    # EOC is word 7 of the line: transmitted during frame T+7, in effect from T+8, window [T+7, T+9]
    b = ps[0].get_begin() * 30
    if not (T + 7 <= b <= T + 9): return f"caption begins at frame T+{b - T}; its EOC is transmitted during frame T+7 (window T+7..T+9)"

@witness("C08", "previous-word-survives-padding")
def _():
    d = read(scc((300, [RCL, ENM, pac(15, 0), 0x1130, 0x0000, 0x1130, EOC])))
    got = text_rows(d, 400)
    if got != {15: "®®"}: return f"special character sent twice with a null pair in between shows {got}, a decoder shows two characters"

@witness("C08", "text-shown-from-paragraph-begin")
def _():
    T = 300
    d = read(scc((T, [RU2, CR, pac(15, 0), 0, 0, 0, 0, 0, 0] + txt("AB"))))
    # the characters are word 9: transmitted during frame T+9
    for f in range(T, T + 9):
        if text_rows(d, f): return f"roll-up row shown at frame T+{f - T}, its characters are transmitted during frame T+9"

@witness("C08", "rollup-base-row-forced-15")
def _():
    d = read(scc((300, [RU2, CR, pac(8, 0)] + txt("AB"))))
    got = text_rows(d, 400)
    if got != {8: "AB"}: return f"roll-up with base row 8 (PAC) is shown on {got}"

@witness("C08", "region-above-attached")
def _():
    d = read(scc((300, [RDC, pac(9, 0)] + txt("AB")), (400, [EDM]), (500, [RDC, pac(12, 0)] + txt("CD"))))
    got = text_rows(d, 600)
    if got != {12: "CD"}: return f"paint-on caption written on row 12 after an earlier one on row 9 is shown on {got}"

@witness("C08", "midrow-italics-resets-colour")
def _():
    d = read(scc((300, [RCL, ENM, pac(15, None, GREEN)] + txt("AB") + [0x112E] + txt("CD") + [EOC])))
    r = rows_at(d, 400).get(15, [])
    cs = {x[0]: x for x in r}
    if "C" not in cs or "A" not in cs: return f"rows {r}"
    if cs["C"][1] != cs["A"][1]: return f"after the mid-row italics code the colour is {cs['C'][1]}, a decoder keeps {cs['A'][1]}"

@witness("C08", "painton-pac-clears-row")
def _():
    d = read(scc((300, [RDC, pac(5, 0)] + txt("ABCDEF") + [pac(5, 12)] + txt("XY"))))
    got = text_rows(d, 400)
    if got != {5: "ABCDEF      XY"}: return f"paint-on: second PAC on the row erased it: {got}"

@witness("C08", "der-ignored")
def _():
    d = read(scc((300, [RCL, ENM, pac(5, 0)] + txt("ABCDEFGH") + [pac(5, 4), DER, EOC])))
    got = text_rows(d, 400)
    if got != {5: "ABCD"}: return f"Delete to End of Row from column 5 leaves {got}"

@witness("C08", "painton-space-word-unstyled")
def _():
    d = read(scc((300, [RDC, pac(5, None, RED)] + txt("a bc"))))
    r = rows_at(d, 400).get(5, [])
    cs = {x[0]: x for x in r}
    if "a" not in cs or "b" not in cs: return f"rows {r}"
    if cs["a"][1] != cs["b"][1]: return f"paint-on: 'a' has colour {cs['a'][1]}, 'b' {cs['b'][1]}: the PAC colour is not applied to a pair ending in a space"

@witness("C08", "overwrite-keeps-element-style")
def _():
    d = read(scc((300, [RCL, ENM, pac(5, None, GREEN)] + txt("ABCD") + [pac(5, 0)] + txt("XY") + [EOC])))
    r = rows_at(d, 400).get(5, [])
    if "".join(x[0] for x in r) != "XYCD": return f"row {r}"
    if r[0][1] == r[2][1]: return f"characters written over a green row after a white PAC are {r[0][1]}"

@witness("C08", "pac-left-of-row-content")
def _():
    d = read(scc((300, [RCL, ENM, pac(5, 8)] + txt("ABCD") + [pac(5, None, CYAN)] + txt("WXYZ") + [EOC])))
    got = text_rows(d, 400)
    if got != {5: "WXYZ    ABCD"}: return f"colour PAC (column 1) on a row holding text from column 9 gives {got!r}"

@witness("C08", "pac-right-of-row-content")
def _():
    d = read(scc((300, [RCL, ENM, pac(5, 0)] + txt("AB") + [pac(5, 8)] + txt("CD") + [EOC])))
    got = text_rows(d, 400)
    if got != {5: "AB      CD"}: return f"PAC indent 8 on a row holding two characters gives {got!r}"

@witness("C08", "rollup-text-after-edm-row0")
def _():
    d = read(scc((300, [RU2, CR, pac(15, 0)] + txt("AB")), (400, [EDM]), (500, [CR] + txt("CD")), (600, [CR, pac(15, 0)] + txt("EF"))))
    got = text_rows(d, 700)
    if got != {14: "CD", 15: "EF"}: return f"roll-up after EDM: {got}, a decoder shows CD on row 14 and EF on row 15"

@witness("C08", "cr-erases-non-rollup-caption")
def _():
    d = read(scc((300, [RCL, ENM, pac(15, 0)] + txt("AB") + [EOC]), (400, [CR])))
    got = text_rows(d, 500)
    if got != {15: "AB"}: return f"a carriage return in pop-on mode (no effect in CTA-608) leaves {got} of the displayed caption"

@witness("C08", "consecutive-midrow-codes-merge")
def _():
    d = read(scc((300, [RCL, ENM, pac(15, 0)] + txt("A") + [0x112E, 0x1128] + txt("B") + [EOC])))
    r = rows_at(d, 400).get(15, [])
    cs = {x[0]: x for x in r}
    if "B" not in cs: return f"rows {r}"
    if cs["B"][2]: return f"mid-row italics followed by mid-row red: 'B' is {cs['B'][1:]}, a decoder shows red without italics"
    d = read(scc((300, [RCL, ENM, pac(15, 0)] + txt("A") + [0x1129, 0x1122] + txt("B") + [EOC])))
    r = rows_at(d, 400).get(15, [])
    cs = {x[0]: x for x in r}
    if "B" not in cs: return f"rows {r}"
    if cs["B"][3]: return f"mid-row red underlined followed by mid-row green: 'B' is {cs['B'][1:]}, a decoder shows green without underline"

@witness("C08", "rollup-blank-line-drops-rows")
def _():
    RU3 = 0x1426
    d = read(scc((300, [RU3, CR, pac(15, 0)] + txt("AB")), (400, [CR, 0]), (500, [CR, pac(15, 0)] + txt("CD"))))
    got = text_rows(d, 450)
    if got != {14: "AB"}: return f"roll-up depth 3, AB, CR: {got} is shown after the carriage return, a decoder shows AB on row 14"
    got = text_rows(d, 600)
    if got != {13: "AB", 15: "CD"}: return f"roll-up depth 3, AB, CR, CR, CD: {got}, a decoder shows AB on row 13 and CD on row 15"

# ---- defects repaired for another property (C18) in code that M transcribes; kept here as regressions of the reader's behaviour
@witness("C08", "code-without-caption-raises")
def _():
    # paint-on / roll-up style and nothing displayed: no caption is being processed; backspace, tab offset and an extended
    # character (backspace + character) used to raise AttributeError, a decoder ignores them / writes the character
    for name, ws in (("RDC BS", [RDC, BS]), ("RDC TO2", [RDC, 0x1722]), ("RDC extended", [RDC, 0x1232]),
                     ("RU2 EDM BS TO1", [RU2, EDM, BS, 0x1721]), ("RU2 EDM extended", [RU2, EDM, 0x1232])):
        try:
            d = read(scc((300, ws), (400, [RDC, pac(15, 0)] + txt("AB"))))
        except Exception as e:
            return f"{name}: the reader raises {type(e).__name__}: {e}"
        got = text_rows(d, 500)
        if got.get(15) != "AB": return f"{name}: the caption that follows is shown as {got}"

@witness("C08", "painton-begin-negative")
def _():
    import ttconv.model as m
    # paint-on "A BB" (BB carries a span begin), EOC moves it to the non-displayed memory, "CC" is appended there in pop-on
    # style, a second EOC displays it again at 14 s: nothing of the document may begin before 0 and the row shows from 14 s on
    d = read(scc((300, [RDC, pac(15, 0)] + txt("A BB")), (360, [RCL, EOC]), (420, txt("CC") + [EOC]), (600, [EDM])))
    for p in paragraphs(d):
        for e in [p] + [c for c in p if isinstance(c, m.Span)]:
            if e.get_begin() is not None and e.get_begin() < 0: return f"{type(e).__name__} begins at {e.get_begin()}"
    if text_rows(d, 330) != {15: "A BB"}: return f"painted caption at frame 330: {text_rows(d, 330)}"
    if text_rows(d, 400) != {}: return f"after the first EOC the screen shows {text_rows(d, 400)}"
    if text_rows(d, 500) != {15: "A BBCC"}: return f"after the second EOC the screen shows {text_rows(d, 500)}"
