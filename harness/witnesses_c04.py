"""Witnesses of the recorded C04 findings (findings_proposed/C04.txt): each returns a failure string while the
defect is present (the check then prints KNOWN-FINDING for it) and None once it is repaired."""
from witnesses import witness, _imsc, _texts, TT
from fractions import Fraction


def _p(doc):
    return list(list(doc.get_body())[0])[0]


@witness("C04", "seq-indefinite-sibling")
def _():
    try:
        d = _imsc(TT % ("", '<body><div timeContainer="seq"><p>a</p><p>b</p></div></body>'))
    except TypeError as e:
        return f"a seq container whose first child is indefinite aborts the read: TypeError: {e}"
    import ttconv.isd as I
    if _texts(I.ISD.from_model(d, 1)) != ["a"]: return "second child of the seq container is presented"


@witness("C04", "tickrate-default")
def _():
    d = _imsc(TT % ('ttp:frameRate="25"', '<body><div><p begin="50t" end="100t">a</p></div></body>'))
    if _p(d).get_begin() != Fraction(2): return f'begin="50t" under ttp:frameRate="25" is read as {_p(d).get_begin()} s, TTML2 gives 2 s'


@witness("C04", "lax-value-syntax")
def _():
    d = _imsc(TT % ('ttp:frameRate="25"', '<body><div><p begin="10fx" end="100f">a</p></div></body>'))
    if _p(d).get_begin() is not None: return f'begin="10fx" is read as {_p(d).get_begin()} s instead of being ignored'


@witness("C04", "zero-rate-division")
def _():
    try:
        _imsc(TT % ('ttp:frameRate="0"', '<body><div><p begin="10f">a</p></div></body>'))
    except ZeroDivisionError:
        return 'ttp:frameRate="0" aborts the read with ZeroDivisionError'


@witness("C04", "tt-parameter-abort")
def _():
    try:
        _imsc(TT % ('tts:extent="100px"', '<body/>'))
    except (IndexError, ValueError) as e:
        return f'tts:extent="100px" on tt aborts the read with {type(e).__name__}'


@witness("C04", "bad-ruby-drops-span")
def _():
    import ttconv.isd as I
    d = _imsc(TT % ("", '<body><div><p><span tts:ruby="bogus">hello</span></p></div></body>'))
    if _texts(I.ISD.from_model(d, 0)) != ["hello"]: return 'a span with tts:ruby="bogus" is dropped together with its text'


@witness("C04", "style-invalid-value-abort")
def _():
    try:
        _imsc(TT % ("", '<head><styling><style xml:id="s1" tts:extent="1em 1em"/></styling></head><body><div><p style="s1">a</p></div></body>'))
    except ValueError as e:
        return 'a referenced <style tts:extent="1em 1em"/> aborts the read with ValueError (inline, the same attribute is logged and ignored)'


@witness("C04", "textshadow-comma-space")
def _():
    import ttconv.style_properties as s
    d = _imsc(TT % ("", '<body><div><p><span tts:textShadow="1px 1px, 2px 2px">x</span></p></div></body>'))
    sp = list(list(list(d.get_body())[0])[0])[0]
    if sp.get_style(s.StyleProperties.TextShadow) is None: return 'tts:textShadow="1px 1px, 2px 2px" (white space after the comma) is rejected'


# ---- further shapes of the repaired findings (must pass) and the finding that remains
def _logs(xml):
    """log records of ttconv.imsc while reading"""
    import logging
    recs = []
    class H(logging.Handler):
        def emit(self, r): recs.append(r.getMessage())
    lg = logging.getLogger("ttconv"); h = H(); old = lg.level; lg.addHandler(h); lg.setLevel(logging.DEBUG)
    off = logging.root.manager.disable; logging.disable(logging.NOTSET)       # witnesses.run silences logging
    try:
        d = _imsc(xml)
    finally:
        lg.removeHandler(h); lg.setLevel(old); logging.disable(off)
    return d, recs


@witness("C04", "seq-region-set-children")
def _():
    # a region with timeContainer="seq" in the (parallel) layout: its set children play one after the other, the region stays indefinite
    try:
        d = _imsc(TT % ("", '<head><layout><region xml:id="r1" timeContainer="seq"><set dur="1s" tts:display="none"/><set dur="1s" tts:opacity="0.5"/></region></layout></head><body region="r1"><div><p>a</p></div></body>'))
    except TypeError as e:
        return f"a seq region with set children aborts the read: {e}"
    r = d.get_region("r1"); steps = [(a.begin, a.end) for a in r.iter_animation_steps()]
    if r.get_end() is not None: return f"the region ends at {r.get_end()} (the end of its last set) instead of staying indefinite"
    if steps != [(Fraction(0), Fraction(1)), (Fraction(1), Fraction(2))]: return f"set children of a seq region are read as {steps}"


@witness("C04", "lax-parameter-prefix")
def _():
    d = _imsc(TT % ('ttp:frameRate="25x" ttp:cellResolution="40 20 x"', '<body><div><p begin="50f" end="100f">a</p></div></body>'))
    if _p(d).get_begin() != Fraction(50, 30): return f'ttp:frameRate="25x" is not ignored: begin="50f" is {_p(d).get_begin()} s'
    if d.get_cell_resolution().columns != 32: return 'ttp:cellResolution="40 20 x" is not ignored'


@witness("C04", "lax-trailing-line-feed")
def _():
    d = _imsc(TT % ("", '<body><div><p begin="1s&#10;" end="5s" tts:fontSize="10px&#10;">a</p></div></body>'))
    import ttconv.style_properties as s
    if _p(d).get_begin() is not None: return 'begin="1s\\n" is accepted'
    if _p(d).get_style(s.StyleProperties.FontSize) is not None: return 'tts:fontSize="10px\\n" is accepted'


@witness("C04", "lax-style-syntax")
def _():
    import ttconv.style_properties as s
    d, logs = _logs(TT % ('xmlns:itts="http://www.w3.org/ns/ttml/profile/imsc1#styling"', '<body><div><p itts:fillLineGap="yes" tts:textDecoration="blink" tts:position="">a</p></div></body>'))
    p = _p(d)
    got = [x.__name__ for x in (s.StyleProperties.FillLineGap, s.StyleProperties.TextDecoration, s.StyleProperties.Position) if p.get_style(x) is not None]
    if got: return f'malformed itts:fillLineGap="yes" / tts:textDecoration="blink" / tts:position="" are accepted: {got}'
    if len(logs) < 3: return f"only {len(logs)} log records for three malformed style attributes"


@witness("C04", "tt-extent-not-integer")
def _():
    d, logs = _logs(TT % ('tts:extent="1.5px 2px"', '<body/>'))
    if (d.get_px_resolution().width, d.get_px_resolution().height) != (1920, 1080): return f'tts:extent="1.5px 2px" on tt is read as {d.get_px_resolution()}'
    if not logs: return "no log record"


@witness("C04", "nested-style-invalid-value")
def _():
    try:
        d = _imsc(TT % ("", '<head><layout><region xml:id="r1"><style tts:origin="1em 1em" tts:color="red"/></region></layout></head><body/>'))
    except ValueError:
        return 'a <style tts:origin="1em 1em"/> nested in a region aborts the read with ValueError'
    import ttconv.style_properties as s
    if d.get_region("r1").get_style(s.StyleProperties.Color) is None: return "the well-formed sibling attribute of the nested style is lost"


@witness("C04", "unknown-attribute-not-logged")
def _():
    d, logs = _logs(TT % ("", '<body><div><p tts:bogus="x" xml:base="y" begin="1s" end="2s">a</p></div></body>'))
    if not logs: return "attributes the reader does not know (tts:bogus, xml:base) are ignored without any log record"


@witness("C04", "style-invalid-value-shadows")
def _():
    import ttconv.style_properties as s
    d = _imsc(TT % ("", '<head><styling><style xml:id="a" tts:extent="10c 2c"/><style xml:id="b" tts:extent="1em 1em" style="a"/></styling></head><body><div><p style="b">x</p></div></body>'))
    v = _p(d).get_style(s.StyleProperties.Extent)
    if v is None: return 'tts:extent="1em 1em" (rejected by the model) on style b shadows the tts:extent="10c 2c" that b inherits from style a'


@witness("C04", "zero-aspect-ratio")
def _():
    d = _imsc(TT % ('ttp:displayAspectRatio="0 9"', '<body/>'))
    if d.get_display_aspect_ratio() is not None: return f'ttp:displayAspectRatio="0 9" is read as {d.get_display_aspect_ratio()}'


# ---- colour values after the repair of ttconv.utils.parse_color (fullmatch, ASCII digits, components at most 255): must pass
@witness("C04", "lax-color-syntax")
def _():
    import ttconv.style_properties as s
    from ttconv.utils import parse_color
    lax = ["#ff0000x", "#ff000080f", "#ff0000 ", "rgb(1,2,3) ", "rgb(1,2,3)x", "rgba(1,2,3,4)\n", "rgb(1,2,256)", "rgba(1,2,3,1000)", "rgb(١,2,3)",
           "rgba(1,2,3,４)", "rgb(1, 2,3)", " red", "red ", "#ff00", "rgb(1,2)", "rgb(1,2,3,4)", "rgba(1,2,3)", "rgb (1,2,3)", "rgb(-1,2,3)", "rgb(1.0,2,3)",
           "rgb(" + "0" * 4301 + ",2,3)"]
    for v in lax:
        try:
            c = parse_color(v)
        except ValueError:
            continue
        return f"parse_color({v[:40]!r}) is accepted as {c.components}"
    good = {"#FF0000": (255, 0, 0, 255), "#ff000080": (255, 0, 0, 128), "rgb(1,2,3)": (1, 2, 3, 255), "rgb( 1 ,\t2 , 3\n)": (1, 2, 3, 255), "rgba( 1,2 , 3 , 255 )": (1, 2, 3, 255),
            "rgb(007,0,255)": (7, 0, 255, 255), "RED": (255, 0, 0, 255), "Transparent": (0, 0, 0, 0), "rgb(" + "0" * 4299 + "9,2,3)": (9, 2, 3, 255)}
    for v, want in good.items():
        try:
            c = parse_color(v)
        except ValueError as e:
            return f"parse_color({v[:40]!r}) is rejected: {e}"
        if tuple(c.components) != want: return f"parse_color({v[:40]!r}) is {c.components}, not {want}"
    # through the reader: the malformed colour is ignored and reported, the well-formed sibling attribute is kept
    d, logs = _logs(TT % ("", '<body><div><p tts:color="#ff0000x" tts:backgroundColor="rgb(1,2,256)" tts:fontStyle="italic">a</p>'
                              '<p tts:color="rgb( 1 , 2 , 3 )" tts:backgroundColor="rgba(1 ,2,3,4)">b</p></div></body>'))
    p1, p2 = list(list(d.get_body())[0])
    if p1.get_style(s.StyleProperties.Color) is not None: return 'tts:color="#ff0000x" is read as a colour'
    if p1.get_style(s.StyleProperties.BackgroundColor) is not None: return 'tts:backgroundColor="rgb(1,2,256)" is read as a colour'
    if p1.get_style(s.StyleProperties.FontStyle) is None: return "the well-formed sibling attribute of a malformed colour is lost"
    if p2.get_style(s.StyleProperties.Color) is None or tuple(p2.get_style(s.StyleProperties.Color).components) != (1, 2, 3, 255): return 'tts:color="rgb( 1 , 2 , 3 )" is not read as (1, 2, 3, 255)'
    if len(logs) < 3: return f"only {len(logs)} log records for three malformed colour attributes"


@witness("C04", "fontfamily-one-character")
def _():
    # repaired for another property: an unquoted family name of one character used to be rejected (the attribute was ignored)
    import ttconv.style_properties as s
    d = _imsc(TT % ("", '<body><div><p tts:fontFamily="A">a</p><p tts:fontFamily="B, sansSerif">b</p></div></body>'))
    p1, p2 = list(list(d.get_body())[0])
    if p1.get_style(s.StyleProperties.FontFamily) != ("A",): return f'tts:fontFamily="A" is read as {p1.get_style(s.StyleProperties.FontFamily)!r}'
    if p2.get_style(s.StyleProperties.FontFamily) != ("B", s.GenericFontFamilyType.sansSerif): return f'tts:fontFamily="B, sansSerif" is read as {p2.get_style(s.StyleProperties.FontFamily)!r}'


@witness("C04", "noncontent-tail-text")
def _():
    # regression: the text that follows a child that is no content element (tt:metadata, ttm:*, foreign and unknown elements, comment
    # and processing-instruction nodes) is character content of the parent; such a child contributes nothing, whatever it contains
    import xml.etree.ElementTree as et
    import ttconv.isd as I, ttconv.imsc.reader as r
    NSX = 'xmlns:ttm="http://www.w3.org/ns/ttml#metadata" xmlns:f="urn:example:foreign"'
    d = _imsc(TT % (NSX, '<body><div><p>Hello <metadata begin="5s"><ttm:desc>x</ttm:desc><p>hidden</p></metadata>world</p></div></body>'))
    got = _texts(I.ISD.from_model(d, 0))
    if "".join(got) != "Hello world": return f"<p>Hello <metadata>..</metadata>world</p> presents {got}"
    d = _imsc(TT % (NSX, '<body><div><p><span begin="1s" end="2s">one</span><metadata/>two</p></div></body>'))
    if _p(d).get_end() is not None: return f"the tail text of <metadata/> does not make the paragraph indefinite: it ends at {_p(d).get_end()}"
    if _texts(I.ISD.from_model(d, 5)) != ["two"]: return f"<p><span begin=1s end=2s>one</span><metadata/>two</p> presents {_texts(I.ISD.from_model(d, 5))} at 5 s"
    d = _imsc(TT % (NSX, '<body><div><p xml:space="default"><set tts:color="red"/>a<f:x xml:space="preserve" dur="1s"><span>hidden</span></f:x> b <foo/>c<br/><ttm:title>t</ttm:title>d</p></div></body>'))
    got = _texts(I.ISD.from_model(d, 0))
    if "".join(got) != "a b cd": return f"text around foreign, unknown and ttm: children is presented as {got}"
    # a sequential container: text is not timed content, the non-content children change nothing
    d = _imsc(TT % (NSX, '<body><div><p timeContainer="seq"><span dur="1s">one</span><metadata/>x<span dur="1s">two</span></p></div></body>'))
    if _p(d).get_end() != Fraction(2) or _texts(I.ISD.from_model(d, Fraction(3, 2))) != ["two"]: return "a non-content child in a seq container changes the timing"
    # comments and processing instructions as ElementTree presents them when the parser keeps them
    tb = et.TreeBuilder(insert_comments=True, insert_pis=True)
    root = et.fromstring(TT % ("", '<body><!-- c --><div><p>Hel<!-- c -->lo <?pi x?>world</p><!-- c --></div><?pi y?></body>'), parser=et.XMLParser(target=tb))
    if not any(c.tag is et.Comment for c in root.iter()): return "the test parser does not keep comments"
    got = _texts(I.ISD.from_model(r.to_model(et.ElementTree(root)), 0))
    if "".join(got) != "Hello world": return f"text around comment and processing-instruction nodes is presented as {got}"


@witness("C04", "seq-region-break-hides-nested-style")
def _():
    # repaired (lab commit d5261ab): in a region with timeContainer="seq", after a child with an indefinite end, a child that is no content
    # element ended the children loop and the nested styles after it were not read (without that child they were)
    import ttconv.style_properties as s
    reg = '<head><layout><region xml:id="r" timeContainer="seq"><p>a</p>%s<style tts:color="red"/></region></layout></head><body/>'
    a = _imsc(TT % ("", reg % "<metadata/>")).get_region("r").get_style(s.StyleProperties.Color)
    b = _imsc(TT % ("", reg % "")).get_region("r").get_style(s.StyleProperties.Color)
    if a != b or a is None: return f"nested style after a non-content child in a seq region: tts:color is {a}, without the child {b}"
