"""Witnesses of the recorded C04 findings (findings_proposed/C04.txt): each returns a failure string while the
defect is present (the check then prints KNOWN-FINDING for it) and None once it is repaired."""
from witnesses import witness, _imsc, _texts, TT
from fractions import Fraction


def _p(doc):
    return list(list(doc.get_body())[0])[0]


@witness("C04", "seq-indefinite-sibling")
def _():
    try:
        d = _imsc(TT % ("", '<body><div timeContainer="seq"><p>a</p><p>b</p></div></body>'))
    except TypeError as e:
        return f"a seq container whose first child is indefinite aborts the read: TypeError: {e}"
    import ttconv.isd as I
    if _texts(I.ISD.from_model(d, 1)) != ["a"]: return "second child of the seq container is presented"


@witness("C04", "tickrate-default")
def _():
    d = _imsc(TT % ('ttp:frameRate="25"', '<body><div><p begin="50t" end="100t">a</p></div></body>'))
    if _p(d).get_begin() != Fraction(2): return f'begin="50t" under ttp:frameRate="25" is read as {_p(d).get_begin()} s, TTML2 gives 2 s'


@witness("C04", "lax-value-syntax")
def _():
    d = _imsc(TT % ('ttp:frameRate="25"', '<body><div><p begin="10fx" end="100f">a</p></div></body>'))
    if _p(d).get_begin() is not None: return f'begin="10fx" is read as {_p(d).get_begin()} s instead of being ignored'


@witness("C04", "zero-rate-division")
def _():
    try:
        _imsc(TT % ('ttp:frameRate="0"', '<body><div><p begin="10f">a</p></div></body>'))
    except ZeroDivisionError:
        return 'ttp:frameRate="0" aborts the read with ZeroDivisionError'


@witness("C04", "tt-parameter-abort")
def _():
    try:
        _imsc(TT % ('tts:extent="100px"', '<body/>'))
    except (IndexError, ValueError) as e:
        return f'tts:extent="100px" on tt aborts the read with {type(e).__name__}'


@witness("C04", "bad-ruby-drops-span")
def _():
    import ttconv.isd as I
    d = _imsc(TT % ("", '<body><div><p><span tts:ruby="bogus">hello</span></p></div></body>'))
    if _texts(I.ISD.from_model(d, 0)) != ["hello"]: return 'a span with tts:ruby="bogus" is dropped together with its text'


@witness("C04", "style-invalid-value-abort")
def _():
    try:
        _imsc(TT % ("", '<head><styling><style xml:id="s1" tts:extent="1em 1em"/></styling></head><body><div><p style="s1">a</p></div></body>'))
    except ValueError as e:
        return 'a referenced <style tts:extent="1em 1em"/> aborts the read with ValueError (inline, the same attribute is logged and ignored)'


@witness("C04", "textshadow-comma-space")
def _():
    import ttconv.style_properties as s
    d = _imsc(TT % ("", '<body><div><p><span tts:textShadow="1px 1px, 2px 2px">x</span></p></div></body>'))
    sp = list(list(list(d.get_body())[0])[0])[0]
    if sp.get_style(s.StyleProperties.TextShadow) is None: return 'tts:textShadow="1px 1px, 2px 2px" (white space after the comma) is rejected'
