"""Witnesses of the C19 findings: each returns a string while the defect is present.
Repaired defects keep their witness (it must pass on the repaired code); the two findings that are still recorded
have a witness for what is left of them."""
from witnesses import witness


def _accepted(cls, key, v):
    try:
        c = cls.parse({key: v})
    except (ValueError, TypeError, AttributeError, ZeroDivisionError):
        return None
    return f"{key}={v!r} -> {getattr(c, key)!r}"


# ---------------------------------------------------------------- repaired
@witness("C19", "bool-decoders-accept-anything")
def _():
    from ttconv.config import GeneralConfiguration
    from ttconv.srt.config import SRTWriterConfiguration
    from ttconv.vtt.config import VTTWriterConfiguration
    from ttconv.stl.config import STLReaderConfiguration
    from ttconv.filters.doc.lcd import LCDDocFilterConfig
    bad = []
    for cls, key in ((SRTWriterConfiguration, "text_formatting"), (VTTWriterConfiguration, "cue_id"), (VTTWriterConfiguration, "line_position"),
                     (VTTWriterConfiguration, "text_align"), (STLReaderConfiguration, "disable_fill_line_gap"), (STLReaderConfiguration, "disable_line_padding"),
                     (LCDDocFilterConfig, "preserve_text_align"), (GeneralConfiguration, "progress_bar")):
        for v in ("no", "false", "0", [0], 0, 1, None):
            r = _accepted(cls, key, v)
            if r: bad.append(r)
        for v in (True, False):
            if getattr(cls.parse({key: v}), key) is not v: bad.append(f"{key}={v!r} not kept")
    if bad: return "; ".join(bad[:6])


@witness("C19", "safe-area-coerced")
def _():
    from ttconv.filters.doc.lcd import LCDDocFilterConfig
    bad = [r for v in ("10", " 1_0 ", 10.7, True, "٣", 30.0) for r in [_accepted(LCDDocFilterConfig, "safe_area", v)] if r]
    for v in (0, 10, 30):
        if LCDDocFilterConfig.parse({"safe_area": v}).safe_area != v: bad.append(f"safe_area={v} not kept")
    if bad: return "; ".join(bad)


@witness("C19", "fps-lenient")
def _():
    from fractions import Fraction
    from ttconv.imsc.config import IMSCWriterConfiguration
    bad = [r for v in ("-25/1", "0/1", " 25 / 1 ", "2_5/1", "+25/1", "٢٥/1", "25/1\n", "25/-1") for r in [_accepted(IMSCWriterConfiguration, "fps", v)] if r]
    for v, want in (("25/1", Fraction(25)), ("30000/1001", Fraction(30000, 1001)), ("50/2", Fraction(25))):
        if IMSCWriterConfiguration.parse({"fps": v}).fps != want: bad.append(f"fps={v!r} not {want}")
    if bad: return "; ".join(bad)


@witness("C19", "color-trailing-garbage")
def _():
    from ttconv.filters.doc.lcd import LCDDocFilterConfig
    from ttconv.style_properties import ColorType
    bad = [r for v in ("#FF0000zz", "rgb(1,2,3) x", "rgb(300,0,0)", "rgba(1,2,3,256)", "rgb(١,2,3)", "#FF00008", "rgba(1,2,3,4)junk", "rgb(1,2,3)\n")
           for r in [_accepted(LCDDocFilterConfig, "color", v)] if r]
    for v, want in (("#FF0000", (255, 0, 0, 255)), ("#00ff0080", (0, 255, 0, 128)), ("rgb(255,255,255)", (255, 255, 255, 255)), ("rgba(0,0,0,0)", (0, 0, 0, 0)),
                    ("white", (255, 255, 255, 255)), ("transparent", (0, 0, 0, 0))):
        if LCDDocFilterConfig.parse({"color": v}).color != ColorType(want): bad.append(f"color={v!r} not {want}")
    if bad: return "; ".join(bad)


@witness("C19", "start-tc-trailing-text")
def _():
    from ttconv.stl.config import STLReaderConfiguration
    bad = [r for v in ("10:00:00:00xyz", "10x00y00z00xyz", "10:00:00:000") for r in [_accepted(STLReaderConfiguration, "program_start_tc", v)] if r]
    for v in ("TCP", "10:00:00:00", "00:00:00:00"):
        if STLReaderConfiguration.parse({"program_start_tc": v}).program_start_tc != v: bad.append(f"program_start_tc={v!r} not kept")
    if bad: return "; ".join(bad)


@witness("C19", "max-row-count-bool")
def _():
    from ttconv.stl.config import STLReaderConfiguration
    bad = [r for v in (True, False) for r in [_accepted(STLReaderConfiguration, "max_row_count", v)] if r]
    for v in ("MNR", 23, 0):
        if STLReaderConfiguration.parse({"max_row_count": v}).max_row_count != v: bad.append(f"max_row_count={v!r} not kept")
    if bad: return "; ".join(bad)


@witness("C19", "font-family-one-character")
def _():
    from ttconv.stl.config import STLReaderConfiguration
    from ttconv.imsc.utils import parse_font_families
    try:
        if STLReaderConfiguration.parse({"font_stack": "a"}).font_stack != ("a",): return "font_stack='a' not ('a',)"
        if parse_font_families("x, y") != ["x", "y"]: return f"parse_font_families('x, y') = {parse_font_families('x, y')!r}"
    except ValueError as e:
        return f"a one-character family is rejected: {e}"


@witness("C19", "stl-non-string-value-error")
def _():
    # repaired for C09 (fa4cd8f, witness start-tc-non-string there); here: the class of the error for every kind of non-string
    from ttconv.stl.config import STLReaderConfiguration
    bad = []
    for key in ("program_start_tc", "font_stack"):
        for v in (True, False, 0, 5, 2.5, float("nan"), [], ["TCP"], {}, {"a": 1}):
            try:
                c = STLReaderConfiguration.parse({key: v}); bad.append(f"{key}={v!r} accepted: {getattr(c, key)!r}")
            except ValueError:
                pass
            except Exception as e:      # pylint: disable=broad-except
                bad.append(f"{key}={v!r}: {type(e).__name__}")
        if getattr(STLReaderConfiguration.parse({key: None}), key) is not None: bad.append(f"{key}=null not kept")
    if bad: return "; ".join(bad[:6])


@witness("C19", "rejection-not-a-value-error")
def _():
    # scc_reader.text_align, general.document_lang, general.log_level: a value of the wrong JSON type is a ValueError of the
    # configuration parser, not an AttributeError / TypeError from inside the library; documented values are kept
    from ttconv.scc.config import SccReaderConfiguration, TextAlignment
    from ttconv.config import GeneralConfiguration
    bad = []
    for cls, key, vals in ((SccReaderConfiguration, "text_align", (True, 5, 2.5, ["left"], {}, None)),
                           (GeneralConfiguration, "document_lang", (True, 5, [], {})),
                           (GeneralConfiguration, "log_level", (2.5, [], {}, True, 5))):
        for v in vals:
            try:
                c = cls.parse({key: v}); bad.append(f"{cls.name()}.{key}={v!r} accepted: {getattr(c, key)!r}")
            except ValueError:
                pass
            except Exception as e:      # pylint: disable=broad-except
                bad.append(f"{cls.name()}.{key}={v!r}: {type(e).__name__}: {e}")
    for v, want in (("left", TextAlignment.LEFT), ("center", TextAlignment.CENTER), ("right", TextAlignment.RIGHT), ("auto", TextAlignment.AUTO)):
        if SccReaderConfiguration.parse({"text_align": v}).text_align is not want: bad.append(f"text_align={v!r} not {want}")
    if SccReaderConfiguration.parse({}).text_align is not TextAlignment.AUTO: bad.append("text_align default")
    for v in ("INFO", "WARN", "ERROR", None):
        if GeneralConfiguration.parse({"log_level": v}).log_level != v: bad.append(f"log_level={v!r} not kept")
    for v in ("es-419", "en", None):
        if GeneralConfiguration.parse({"document_lang": v}).document_lang != v: bad.append(f"document_lang={v!r} not kept")
    g = GeneralConfiguration.parse({})
    if (g.log_level, g.progress_bar, g.document_lang) != ("INFO", True, None): bad.append(f"general defaults {g!r}")
    if bad: return "; ".join(bad[:6])


@witness("C19", "config-not-an-object")
def _():
    import ttconv.tt as tt
    from ttconv.scc.config import SccReaderConfiguration
    from ttconv.config import GeneralConfiguration
    bad = []
    for data in ({"scc_reader": 5}, {"scc_reader": []}, {"scc_reader": "x"}, {"scc_reader": True}, [], 5, "x", True):
        try:
            c = tt.read_config_from_json(SccReaderConfiguration, data); bad.append(f"{data!r} accepted: {c!r}")
        except ValueError:
            pass
        except Exception as e:      # pylint: disable=broad-except
            bad.append(f"{data!r}: {type(e).__name__}: {e}")
    if tt.read_config_from_json(SccReaderConfiguration, None) is not None: bad.append("no configuration is not None")
    if tt.read_config_from_json(SccReaderConfiguration, {}) is not None or tt.read_config_from_json(SccReaderConfiguration, {"scc_reader": None}) is not None:
        bad.append("absent section is not None")
    if tt.read_config_from_json(GeneralConfiguration, {"general": {"log_level": "WARN"}}).log_level != "WARN": bad.append("general section not parsed")
    if bad: return "; ".join(bad[:6])


# ---------------------------------------------------------------- still recorded (what is left of them)
@witness("C19", "undocumented-values-accepted")
def _():
    from ttconv.filters.doc.lcd import LCDDocFilterConfig
    from ttconv.scc.config import SccReaderConfiguration
    from ttconv.stl.config import STLReaderConfiguration
    bad = []
    for cls, key, v in ((SccReaderConfiguration, "text_align", "LEFT"), (STLReaderConfiguration, "program_start_tc", "tcp"),
                        (STLReaderConfiguration, "program_start_tc", "10x00y00z00"), (STLReaderConfiguration, "max_row_count", "mnr"),
                        (LCDDocFilterConfig, "color", "RED"), (LCDDocFilterConfig, "bg_color", "rgb( 1 , 2 , 3 )"), (STLReaderConfiguration, "font_stack", "a,,b")):
        r = _accepted(cls, key, v)
        if r: bad.append(r)
    import logging
    try:
        logging.Logger("c19-witness").setLevel("DEBUG"); bad.append("log_level='DEBUG' accepted")
    except ValueError:
        pass
    if bad: return "; ".join(bad)


@witness("C19", "documented-values-rejected")
def _():
    from ttconv.imsc.config import IMSCWriterConfiguration
    try:
        IMSCWriterConfiguration.parse({"fps": "0" * 4300 + "25/1"})
    except ValueError as e:
        return f"fps with a 4302-digit numerator rejected: {str(e)[:60]}"
