"""Witnesses of the C19 findings (recorded, not repaired): each returns a string while the defect is present."""
from witnesses import witness


@witness("C19", "bool-decoders-accept-anything")
def _():
    from ttconv.srt.config import SRTWriterConfiguration
    from ttconv.vtt.config import VTTWriterConfiguration
    bad = []
    for v in ("no", "false", "0", [0]):
        try:
            c = SRTWriterConfiguration.parse({"text_formatting": v})
        except (ValueError, TypeError):
            continue
        bad.append(f"text_formatting={v!r} -> {c.text_formatting}")
    try:
        c = VTTWriterConfiguration.parse({"cue_id": None})
        if c.cue_id is not True: bad.append(f"cue_id=null -> {c.cue_id} (default true)")
    except (ValueError, TypeError):
        pass
    if bad: return "; ".join(bad)


@witness("C19", "undocumented-values-accepted")
def _():
    from ttconv.filters.doc.lcd import LCDDocFilterConfig
    from ttconv.imsc.config import IMSCWriterConfiguration
    from ttconv.stl.config import STLReaderConfiguration
    bad = []
    for cls, key, v in ((LCDDocFilterConfig, "safe_area", "10"), (LCDDocFilterConfig, "safe_area", 10.7), (LCDDocFilterConfig, "color", "rgb(300,0,0)"),
                        (LCDDocFilterConfig, "color", "#FF0000zz"), (IMSCWriterConfiguration, "fps", "-25/1"), (IMSCWriterConfiguration, "fps", "0/1"),
                        (STLReaderConfiguration, "program_start_tc", "10x00y00z00xyz"), (STLReaderConfiguration, "max_row_count", True)):
        try:
            c = cls.parse({key: v})
        except (ValueError, TypeError, AttributeError):
            continue
        bad.append(f"{key}={v!r} -> {getattr(c, key)!r}")
    if bad: return "; ".join(bad)


@witness("C19", "documented-values-rejected")
def _():
    from ttconv.stl.config import STLReaderConfiguration
    try:
        STLReaderConfiguration.parse({"font_stack": "a"})
    except ValueError as e:
        return f"font_stack='a' rejected: {e}"
