"""Witnesses of the recorded C05 findings (findings_proposed/C05.txt): each returns a failure string while the defect is present
(the check then prints KNOWN-FINDING for it) and None once it is repaired."""
import io
from fractions import Fraction
from witnesses import witness


def _base():
    import ttconv.model as m
    d = m.ContentDocument(); b = m.Body(d); d.set_body(b); dv = m.Div(d); b.push_child(dv); p = m.P(d); dv.push_child(p)
    sp = m.Span(d); p.push_child(sp)
    return d, p, sp


def _rt(d, cfg=None):
    import xml.etree.ElementTree as et, ttconv.imsc.writer as w, ttconv.imsc.reader as r
    buf = io.BytesIO(); w.from_model(d, cfg).write(buf, encoding="utf-8")
    return r.to_model(et.ElementTree(et.fromstring(buf.getvalue())))


def _span(d2):
    return list(list(list(d2.get_body())[0])[0])[0]


@witness("C05", "none-special-value")
def _():
    import ttconv.model as m, ttconv.style_properties as s
    d, p, sp = _base(); sp.push_child(m.Text(d, "A")); sp.set_style(s.StyleProperties.TextEmphasis, s.SpecialValues.none)
    try:
        _rt(d)
    except AttributeError as e:
        return f"writing tts:textEmphasis none raises AttributeError: {e}"


@witness("C05", "adjacent-text")
def _():
    import ttconv.model as m
    d, p, sp = _base(); sp.push_child(m.Text(d, "A")); sp.push_child(m.Text(d, "B"))
    t = [c.get_text() for c in _span(_rt(d))]
    if "".join(t) != "AB": return f"two adjacent Text children A, B are re-read as {t}"


@witness("C05", "lang-not-written")
def _():
    import ttconv.model as m
    d, p, sp = _base(); d.set_lang("en"); p.set_lang("fr"); sp.set_lang("fr"); sp.push_child(m.Text(d, "A"))
    l = list(list(_rt(d).get_body())[0])[0].get_lang()
    if l != "fr": return f"a p with xml:lang fr in an en document is re-read with language {l!r}"


@witness("C05", "g-exponent")
def _():
    import ttconv.model as m, ttconv.style_properties as s
    d, p, sp = _base(); sp.push_child(m.Text(d, "A")); sp.set_style(s.StyleProperties.FontSize, s.LengthType(1234567, s.LengthType.Units.px))
    if _span(_rt(d)).get_style(s.StyleProperties.FontSize) is None: return "tts:fontSize 1234567px is written as 1.23457e+06px and dropped on re-read"


@witness("C05", "number-as-fraction")
def _():
    import ttconv.model as m, ttconv.style_properties as s
    d, p, sp = _base(); sp.push_child(m.Text(d, "A")); p.set_style(s.StyleProperties.Opacity, Fraction(3, 4))
    if list(list(_rt(d).get_body())[0])[0].get_style(s.StyleProperties.Opacity) is None: return 'tts:opacity Fraction(3, 4) is written as "3/4" and dropped on re-read'


@witness("C05", "linepadding-units")
def _():
    import ttconv.model as m, ttconv.style_properties as s
    d, p, sp = _base(); sp.push_child(m.Text(d, "A")); p.set_style(s.StyleProperties.LinePadding, s.LengthType(1, s.LengthType.Units.rh))
    if list(list(_rt(d).get_body())[0])[0].get_style(s.StyleProperties.LinePadding) is None: return "ebutts:linePadding 1rh (valid in the model) is rejected on re-read"


@witness("C05", "fontfamily-syntax")
def _():
    import ttconv.model as m, ttconv.style_properties as s
    d, p, sp = _base(); sp.push_child(m.Text(d, "A")); sp.set_style(s.StyleProperties.FontFamily, ("a\\b",))
    v = _span(_rt(d)).get_style(s.StyleProperties.FontFamily)
    if v != ("a\\b",): return f"font family 'a\\b' is re-read as {v}"


@witness("C05", "transparent-background")
def _():
    import ttconv.model as m, ttconv.style_properties as s
    d, p, sp = _base(); sp.push_child(m.Text(d, "A"))
    d.put_initial_value(s.StyleProperties.BackgroundColor, s.NamedColors.red.value)
    sp.set_style(s.StyleProperties.BackgroundColor, s.NamedColors.transparent.value)
    if _span(_rt(d)).get_style(s.StyleProperties.BackgroundColor) is None: return "an explicitly transparent background under an initial red background is lost on re-read"


@witness("C05", "negative-time")
def _():
    import ttconv.model as m
    d, p, sp = _base(); sp.push_child(m.Text(d, "A")); sp.set_begin(Fraction(-1))
    try:
        _rt(d)
    except ValueError as e:
        return f"writing begin=-1 (accepted by the model) raises ValueError: {e}"


@witness("C05", "shear-clamped")
def _():
    import ttconv.model as m, ttconv.style_properties as s
    d, p, sp = _base(); sp.push_child(m.Text(d, "A")); p.set_style(s.StyleProperties.Shear, 250)
    v = list(list(_rt(d).get_body())[0])[0].get_style(s.StyleProperties.Shear)
    if v != 250: return f"tts:shear 250 is re-read as {v}"


@witness("C05", "textshadow-list")
def _():
    import ttconv.model as m, ttconv.style_properties as s
    L = s.LengthType; U = L.Units
    d, p, sp = _base(); sp.push_child(m.Text(d, "A"))
    sp.set_style(s.StyleProperties.TextShadow, s.TextShadowType((s.TextShadowType.Shadow(L(1, U.px), L(2, U.px)), s.TextShadowType.Shadow(L(3, U.px), L(4, U.px)))))
    if _span(_rt(d)).get_style(s.StyleProperties.TextShadow) is None: return "a tts:textShadow with two shadows is dropped on re-read"


@witness("C05", "px-not-scanned")
def _():
    import ttconv.model as m, ttconv.style_properties as s
    L = s.LengthType; U = L.Units
    d, p, sp = _base(); sp.push_child(m.Text(d, "A")); d.set_px_resolution(m.PixelResolutionType(640, 480))
    r = m.Region("r1", d); d.put_region(r)
    r.set_style(s.StyleProperties.Position, s.PositionType(L(10, U.px), L(20, U.px)))
    d2 = _rt(d)
    if d2.get_px_resolution() != d.get_px_resolution(): return f"pixel resolution 640x480 used by tts:position is re-read as {d2.get_px_resolution()}"


# ---- what remains of repaired findings, recorded under narrower ids
@witness("C05", "fontfamily-empty")
def _():
    import ttconv.model as m, ttconv.style_properties as s
    for fam in ((), ("",)):
        d, p, sp = _base(); sp.push_child(m.Text(d, "A")); sp.set_style(s.StyleProperties.FontFamily, fam)
        v = _span(_rt(d)).get_style(s.StyleProperties.FontFamily)
        if v != fam: return f"tts:fontFamily {fam!r} (valid in the model) is written as an attribute the reader rejects: re-read as {v}"


@witness("C05", "textdecoration-no-component")
def _():
    import ttconv.model as m, ttconv.style_properties as s
    d, p, sp = _base(); sp.push_child(m.Text(d, "A"))
    sp.set_style(s.StyleProperties.TextDecoration, s.TextDecorationType(underline=True))
    sp.add_animation_step(m.DiscreteAnimationStep(s.StyleProperties.TextDecoration, Fraction(1), Fraction(2), s.TextDecorationType()))
    n = len(list(_span(_rt(d)).iter_animation_steps()))
    if n != 1: return f"an animation step that sets tts:textDecoration to the value without any component (no TTML representation) is lost on re-read ({n} steps)"


# ---- further shapes of the repaired findings (must pass)
@witness("C05", "has-px-none")
def _():
    import ttconv.model as m, ttconv.style_properties as s
    d, p, sp = _base(); sp.push_child(m.Text(d, "A"))
    sp.set_style(s.StyleProperties.TextShadow, s.SpecialValues.none); p.set_style(s.StyleProperties.RubyReserve, s.SpecialValues.none)
    try:
        d2 = _rt(d)
    except AttributeError as e:
        return f"writing tts:textShadow / tts:rubyReserve none raises AttributeError: {e}"
    if _span(d2).get_style(s.StyleProperties.TextShadow) is not s.SpecialValues.none: return "tts:textShadow none is not re-read"


@witness("C05", "shear-number-forms")
def _():
    import ttconv.model as m, ttconv.style_properties as s
    for v in (Fraction(50, 3), 1e-7, 12.5, -33):
        d, p, sp = _base(); sp.push_child(m.Text(d, "A")); p.set_style(s.StyleProperties.Shear, v)
        w = list(list(_rt(d).get_body())[0])[0].get_style(s.StyleProperties.Shear)
        if w is None or abs(Fraction(w) - Fraction(v)) > abs(Fraction(v)) / 10 ** 5: return f"tts:shear {v!r} is re-read as {w!r}"


@witness("C05", "initial-px-scanned")
def _():
    import ttconv.model as m, ttconv.style_properties as s
    L = s.LengthType; U = L.Units
    d, p, sp = _base(); sp.push_child(m.Text(d, "A")); d.set_px_resolution(m.PixelResolutionType(640, 480))
    d.put_initial_value(s.StyleProperties.FontSize, L(20, U.px))
    d2 = _rt(d)
    if d2.get_px_resolution() != d.get_px_resolution(): return f"pixel resolution 640x480 used by an initial value is re-read as {d2.get_px_resolution()}"


@witness("C05", "textdecoration-empty-attribute")
def _():
    import io, ttconv.model as m, ttconv.style_properties as s, ttconv.imsc.writer as w
    d, p, sp = _base(); sp.push_child(m.Text(d, "A")); p.set_style(s.StyleProperties.TextDecoration, s.TextDecorationType(underline=True))
    sp.set_style(s.StyleProperties.TextDecoration, s.TextDecorationType())
    buf = io.BytesIO(); w.from_model(d).write(buf, encoding="utf-8")
    if b'textDecoration=""' in buf.getvalue(): return 'a tts:textDecoration value without any component is written as tts:textDecoration="" (not a TTML value)'
    import ttconv.isd as I
    a = [e.get_style(s.StyleProperties.TextDecoration) for r in I.ISD.from_model(d, 0).iter_regions() for e in r.dfs_iterator() if isinstance(e, m.Span)]
    b = [e.get_style(s.StyleProperties.TextDecoration) for r in I.ISD.from_model(_rt(d), 0).iter_regions() for e in r.dfs_iterator() if isinstance(e, m.Span)]
    if a != b: return f"computed tts:textDecoration differs after the round trip: {a} vs {b}"


@witness("C05", "integer-exponent")
def _():
    import ttconv.model as m, ttconv.style_properties as s
    d, p, sp = _base(); sp.push_child(m.Text(d, "A")); d.set_display_aspect_ratio(Fraction(2000001, 1000000))
    d.set_px_resolution(m.PixelResolutionType(2000000, 1000000)); sp.set_style(s.StyleProperties.FontSize, s.LengthType(10, s.LengthType.Units.px))
    d2 = _rt(d)
    if d2.get_display_aspect_ratio() != d.get_display_aspect_ratio(): return f"display aspect ratio 2000001/1000000 is re-read as {d2.get_display_aspect_ratio()}"
    if d2.get_px_resolution() != d.get_px_resolution(): return f"pixel resolution 2000000x1000000 is re-read as {d2.get_px_resolution()}"


# ---- colours: what the writer prints is a strict TTML2 <color> and is read back; the reader accepts nothing longer (must pass)
@witness("C05", "color-strict-roundtrip")
def _():
    import re, ttconv.model as m, ttconv.style_properties as s
    import xml.etree.ElementTree as et, ttconv.imsc.writer as w
    from ttconv.utils import parse_color
    for comps in [(0, 0, 0, 255), (255, 255, 255, 255), (1, 2, 3, 4), (255, 0, 0, 0), (16, 15, 160, 254), (0, 0, 0, 1), (171, 205, 239, 18)]:
        d, p, sp = _base(); sp.push_child(m.Text(d, "A")); sp.set_style(s.StyleProperties.Color, s.ColorType(comps))
        buf = io.BytesIO(); w.from_model(d, None).write(buf, encoding="utf-8")
        attrs = [e.get("{http://www.w3.org/ns/ttml#styling}color") for e in et.fromstring(buf.getvalue()).iter() if e.get("{http://www.w3.org/ns/ttml#styling}color")]
        if len(attrs) != 1 or not re.fullmatch(r"#[0-9a-f]{6}([0-9a-f]{2})?", attrs[0]): return f"colour {comps} is written as {attrs}"
        got = _span(_rt(d)).get_style(s.StyleProperties.Color)
        if got is None or tuple(got.components) != comps: return f"colour {comps} (written {attrs[0]}) is re-read as {got}"
        for tail in ("0", " ", "ff0", "\n"):
            try:
                c = parse_color(attrs[0] + tail)
            except ValueError:
                continue
            if len(attrs[0] + tail) != 9: return f"the reader accepts {attrs[0] + tail!r} as {c.components}"
