"""C18 — readers and writers fail only in documented ways, on any input.

Engine: outcome-class search at scale on the real code (harness/c18run.py, harness/c18gen.py): grammar-generated files
of the five input formats, structure-aware mutations of those and of the bundled corpus, random bytes and a nesting-depth
stream, x reader configurations; every returned document goes through significant times, snapshots at and between them,
the ISD sequence, the LCD filter and the three writers under several configurations.  S = "never an internal error, never
an exception downstream of a returned document" is applied to every input; every failure is either covered by a listed
finding (narrow trigger on exception type + traceback site + where needed a predicate on the input) or reported as a
VIOLATION with the delta-debugged input as replay.  No finding is granted from the traceback alone (see FINDINGS): vtt-ruby-structure is
decided by C11's exact model of the WebVTT cue-text parser evaluated in Coq on every cue text of the run (judge_cues), the others by predicates
computed on the document by harness/c18run.py input_predicates.

Theorems (coq/Properties/C18.v) are about guard models of the four line-level state machines (Model/ReaderGuards.v); the
models are tied to the code by an in-Coq differential run on the same inputs (outcome class, number of cue-text parser
invocations, attachment of each cue) — see guard_correspondence below.
"""
import sys, os, re, json, time, random, collections, base64, hashlib
import common as C
import c18gen as G
import c18run as R

PROP = "C18"

# ------------------------------------------------------------------------------------------ recorded findings (triggers)
# Every matcher is a conjunction of a traceback pattern (exception type + innermost ttconv frames + stage) and a PREDICATE ON THE INPUT
# (the file, or the document the reader returned from it); the traceback pattern alone never excuses a failure.
#   id                              predicate on the input                                                                   kind
#   vtt-ruby-structure              C11's model of _parse_cue_text, evaluated in Coq on the failing cue text, raises the      exact
#                                   same exception class (Model/GuardCueCases.v cue_class; judge_cues below)
#   cue-shorter-than-a-millisecond  two neighbouring significant times of the written document round to the same millisecond  exact on the times (necessary:
#                                   (or, beyond 2^53 ms, to the same float): c18run.same_millisecond                            the interval must also hold a paragraph)
#   ruby-inactive-annotation        a child of a Ruby / Rtc of the document can be pruned (timing, animation, region,          necessary condition
#                                   display none, white space only, childless): c18run.ruby_child_prunable
#   writer-time-overflow            the largest significant time of the written document is above 1e290 s                      necessary condition
#   writer-time-int-digits          the largest significant time has more than 14000 bits (~4214 decimal digits)                necessary condition
#   recursion-deep-nesting          the input nests at least 100 tags / chained styles / blocks                                 necessary condition
#   srt-markup-declaration          the input contains '<!'                                                                     necessary condition
def _depth(task, f):
    return nesting_depth(task["fmt"], task["data"]) >= 100

def _marked_section(task, f):
    return b"<!" in task["data"]

def _pred(name, *values):
    def p(task, f):
        return f.get("pred", {}).get(name) in values
    return p

def _never(task, f):
    """vtt-ruby-structure is never granted from the traceback: harness judge_cues decides it from the cue text"""
    return False

# id, regex over "<Type>|<site>" (site = innermost-first ttconv frames with qualified names), stages it may surface in
# (regex over the stage label), predicate on the input
RUBY_RX = r"^(RuntimeError\|(model\.py:\w+\.push_child<-)?|TypeError\|model\.py:(Span|Rt|Rb|Rbc|Rtc|P)\.push_child<-)vtt/reader\.py:_TextCueParser\."
FINDINGS = [
    ("ruby-inactive-annotation", r"^ValueError\|model\.py:(Ruby|Rtc)\.push_children<-isd\.py:(ISD\._process_element|_clone_doc_with_one_region\._copy_content_element)<-", r".*", _pred("ruby_prunable", True)),
    ("recursion-deep-nesting", r"^RecursionError\|", r".*", _depth),
    ("vtt-ruby-structure", RUBY_RX, r"^read$", _never),
    ("srt-markup-declaration", r"^AssertionError\|srt/reader\.py:to_model$", r"^read$", _marked_section),
    ("writer-time-overflow", r"^OverflowError\|((srt/writer\.py:SrtContext|vtt/writer\.py:VttContext)\.add_isd<-|time_code\.py:\w+\.\w+<-(time_code\.py:\w+\.\w+<-)*imsc/attributes\.py:to_time_format<-)", r"(srt|vtt|imsc)", _pred("big_time", True)),
    ("writer-time-int-digits", r"^ValueError\|imsc/attributes\.py:to_time_format<-imsc/attributes\.py:\w+\.set<-", r"imsc", lambda task, f: f.get("pred", {}).get("huge_time") is True and "Exceeds the limit" in f["msg"]),
    ("cue-shorter-than-a-millisecond", r"^ValueError\|(srt/paragraph\.py:SrtParagraph|vtt/cue\.py:VttCue)\.to_string<-", r"(srt|vtt)", _pred("same_ms", "ms", "float")),
]
MATCHER_KINDS = {
    "vtt-ruby-structure": "exact predicate on the input: the exception class C11's model of the cue-text parser computes for the failing cue text (evaluated in Coq), and the traceback pattern",
    "cue-shorter-than-a-millisecond": "predicate on the input, exact on the times: two neighbouring significant times of the written document round to the same millisecond (or float), and the traceback pattern",
    "ruby-inactive-annotation": "predicate on the input, necessary condition: a child of a Ruby/Rtc of the document can be pruned from a snapshot (timing, animation, region, display none, white space, childless), and the traceback pattern",
    "writer-time-overflow": "predicate on the input, necessary condition: the largest significant time is above 1e290 s, and the traceback pattern",
    "writer-time-int-digits": "predicate on the input, necessary condition: the largest significant time has more than 14000 bits (about 4214 decimal digits), and the traceback pattern and message",
    "recursion-deep-nesting": "predicate on the input, necessary condition: nesting depth of at least 100, and the exception type",
    "srt-markup-declaration": "predicate on the input, necessary condition: the input contains '<!', and the traceback pattern",
}


def nesting_depth(fmt, data):
    """max number of simultaneously open tags / chained styles / blocks seen by a linear scan of the input"""
    if fmt in ("stl",): return (len(data) - 1024) // 128 if len(data) > 1024 else 0
    if fmt == "scc": return max(data.count(b"\n"), max((len(l) for l in data.split(b"\n")), default=0) // 5)
    depth = best = 0
    for m in re.finditer(rb"<(/?)[^<>]*?(/?)>", data):
        if m.group(1): depth = max(0, depth - 1)
        elif not m.group(2): depth += 1; best = max(best, depth)
    return max(best, data.count(b"<style "))


def match_finding(task, f):
    key = f"{f['type']}|{f['site']}"
    for fid, rx, stage_rx, pred in FINDINGS:
        if re.search(rx, key) and re.search(stage_rx, f["stage"]) and pred(task, f):
            return fid
    return None


# ------------------------------------------------------------------------------------------ WebVTT cue texts: the code against C11's model
CUE_FILE = "WEBVTT\n\n00:00:00.000 --> 00:00:01.000\n%s\n"
CLASS_NAMES = {0: "no exception", 11: "ValueError", 20: "AttributeError", 21: "TypeError", 24: "UnboundLocalError", 29: "RuntimeError", 99: "(model-internal)"}

def failing_cue(r):
    """the trace record of the cue whose parse raised the exception that ended the read (None when the read ended elsewhere)"""
    tr = r.get("trace") or []
    if tr and "text" in tr[-1] and tr[-1]["end"] not in ("ok", "open"): return tr[-1]
    return None

def cue_code(end):
    import guards18
    return guards18.M_CODE.get(end, 98)          # 98: a class the guard models have no name for (never predicted)

def judge_cues(run, cue_obs, cap=None):
    """cue_obs: {cue text: class name the code ended with ('ok' or an exception class)}.  Evaluates C11's model of _parse_cue_text on every text
    (in Coq) and returns {text: (verdict, predicted code, has ruby tag)} with verdict in
       'agree'        no exception, none predicted
       'finding'      TypeError / RuntimeError, and exactly that class predicted: the recorded finding vtt-ruby-structure
       'mismatch'     anything else (an exception the model does not predict, another class, a tree where the model raises)
       'unevaluated'  the text could not be evaluated (lone surrogates, beyond the budget, Coq failure): nothing is excused for it"""
    import guards18
    texts = list(cue_obs)
    if cap is not None and len(texts) > cap:
        first = [t for t in texts if cue_obs[t] != "ok" or "<ruby" in t.lower()]
        rest = [t for t in texts if not (cue_obs[t] != "ok" or "<ruby" in t.lower())]
        random.Random(run.seed + 181).shuffle(rest)
        texts = first + rest[:max(0, cap - len(first))]
    pred, failed = guards18.cue_text_predictions(run, texts)
    out = {}
    for t, end in cue_obs.items():
        if t not in pred: out[t] = ("unevaluated", None, None); continue
        p, rb = pred[t]; o = cue_code(end)
        out[t] = ("agree" if (o == p == 0) else "finding" if (o == p and o in (21, 29)) else "mismatch", p, rb)
    return out, failed

def cue_task(text, like=None):
    """the one-cue file that hands `text` to the cue-text parser, if it does (else None)"""
    data = (CUE_FILE % text).encode("utf-8", "surrogatepass")
    try:
        r = R.run_input("vtt", data, 0, seed=0, time_limit=30)
    except Exception:
        return None, None
    tr = r.get("trace") or []
    if len(tr) == 1 and tr[0].get("text") == text:
        return dict(fmt="vtt", data=data, cfg=0, seed=0, kind="cue-text", stream="cue-text", i=-1), r
    return None, None


# ------------------------------------------------------------------------------------------ input streams
def window(rng, fmt, data, max_bytes=1500):
    """bound the cost of a corpus file: keep the header and a random run of blocks"""
    if len(data) <= max_bytes: return data
    if fmt == "stl":
        nb = max(1, (len(data) - 1024) // 128); k = rng.randrange(0, nb); n = rng.randrange(1, 7)
        return data[:1024] + data[1024 + 128 * k:1024 + 128 * (k + n)]
    sep = b"\r\n\r\n" if b"\r\n\r\n" in data else b"\n\n"
    blocks = data.split(sep)
    if len(blocks) < 4: return data[:max_bytes]
    k = rng.randrange(1, len(blocks)); n = rng.randrange(1, 6)
    return sep.join(blocks[:1] + blocks[k:k + n]) + sep

def make_tasks(rng, n_per_reader, corp_files, depths, corp, matrix=0):
    tasks = []
    if matrix:
        m = list(G.style_matrix())
        for el, data in (m if matrix >= len(m) else rng.sample(m, matrix)):
            tasks.append(dict(fmt="imsc", kind="style-matrix", stream="style-matrix", data=data))
    for fmt in G.GENERATORS:
        for name, data in corp_files[fmt]:
            tasks.append(dict(fmt=fmt, kind="corpus", stream="corpus", data=data if len(data) <= 4000 else window(rng, fmt, data, 4000)))
        for _ in range(n_per_reader):
            k = rng.random()
            if k < 0.30: kind, stream, data = "grammar", "grammar", G.GENERATORS[fmt](rng)
            elif k < 0.62:
                mk, data = G.mutate(rng, G.GENERATORS[fmt](rng), fmt); kind, stream = mk, "grammar+mutation"
            elif k < 0.92:
                if corp[fmt]:
                    nm, base = rng.choice(corp[fmt]); mk, data = G.mutate(rng, window(rng, fmt, base), fmt); kind, stream = mk, "corpus+mutation"
                else:
                    mk, data = G.mutate(rng, G.GENERATORS[fmt](rng), fmt); kind, stream = mk, "grammar+mutation"
            else: kind, stream, data = "random", "random", G.random_bytes(rng, fmt)
            tasks.append(dict(fmt=fmt, kind=kind, stream=stream, data=data))
        for d in depths:
            tasks.append(dict(fmt=fmt, kind=f"depth", stream="depth", data=G.deep(rng, fmt, d), depth=d))
    for i, t in enumerate(tasks):
        t["i"] = i; t["cfg"] = rng.randrange(len(R.READER_CFGS[t["fmt"]])); t["seed"] = rng.randrange(1 << 30)
    return tasks


# ------------------------------------------------------------------------------------------ pool
def _work(batch):
    out = []
    for t in batch:
        t0 = time.time()
        r = R.run_input(t["fmt"], t["data"], t["cfg"], seed=t["seed"], time_limit=t.get("limit", 60))
        r["i"] = t["i"]; r["dt"] = time.time() - t0
        out.append(r)
    return out

def _isolated(t):
    """one input in a process of its own: a crash of the interpreter is observed instead of taking the pool down"""
    import multiprocessing as mp
    ctx = mp.get_context("fork")
    rx, tx = ctx.Pipe(duplex=False)
    def child():
        try: tx.send(_work([t])[0])
        finally: tx.close()
    p = ctx.Process(target=child); p.start(); tx.close()
    r = None
    try:
        if rx.poll(t.get("limit", 60) * 3 + 60): r = rx.recv()
    except (EOFError, OSError):
        r = None
    p.join(5)
    if p.is_alive(): p.kill(); p.join()
    if r is None:
        r = dict(i=t["i"], outcome="internal:ProcessDied", fails=[], trace=None, stats={}, dt=0,
                 read=dict(kind="internal", type="ProcessDied", site="(process)", msg=f"worker process died (exit code {p.exitcode})", stage="read"))
    return r

def run_pool(run, tasks, batch=20):
    """-> {i: result}.  A worker that dies (segfault, OOM kill) breaks the pool: the unfinished batches are re-run in a fresh pool one
    input per batch, and what is still unfinished after that one input per process, so that the culprit is identified and reported
    (a process that dies is a violation of 'terminates with a documented outcome')."""
    from concurrent.futures import ProcessPoolExecutor
    from concurrent.futures.process import BrokenProcessPool
    order = list(tasks); random.Random(1).shuffle(order)
    pending = [order[j:j + batch] for j in range(0, len(order), batch)]
    results = {}
    for attempt in range(2):
        if not pending: break
        broken = []
        ex = ProcessPoolExecutor(C.NCPU)
        futs = [(b, ex.submit(_work, b)) for b in pending]
        for b, fu in futs:
            try:
                for r in fu.result(): results[r["i"]] = r
            except BrokenProcessPool:
                broken.append(b)
            except Exception as e:                         # harness failure: fail closed
                run.violation(f"harness worker failed: {type(e).__name__}: {e}", dict(kind="harness"), False)
        ex.shutdown(wait=False, cancel_futures=True)
        pending = [[t] for b in broken for t in b]
    for b in pending:
        for t in b: results[t["i"]] = _isolated(t)
    return results


# ------------------------------------------------------------------------------------------ shrinking (delta debugging)
def shrink(task, key, budget_s=45, max_evals=500):
    """ddmin on lines, then tokens, then bytes, keeping a failure with the same type|site key"""
    fmt, cfg = task["fmt"], task["cfg"]
    t_end = time.time() + budget_s; evals = [0]

    def fails(data):
        if time.time() > t_end or evals[0] >= max_evals: return False
        evals[0] += 1
        r = R.run_input(fmt, data, cfg, seed=task["seed"], time_limit=20, full=True, observe=False)
        return any(f"{f['type']}|{f['site']}" == key for f in R.failures(r))

    def ddmin(parts, join):
        n = 2
        while len(parts) >= 2 and time.time() < t_end and evals[0] < max_evals:
            chunk = max(1, len(parts) // n); reduced = False
            for s in range(0, len(parts), chunk):
                cand = parts[:s] + parts[s + chunk:]
                if cand and fails(join(cand)):
                    parts = cand; n = max(n - 1, 2); reduced = True; break
            if not reduced:
                if chunk == 1: break
                n = min(len(parts), n * 2)
        return parts

    data = task["data"]
    if not fails(data): return data, evals[0]
    if fmt == "stl":
        head, rest = data[:1024], data[1024:]
        blocks = [rest[i:i + 128] for i in range(0, len(rest), 128)]
        if blocks: blocks = ddmin(blocks, lambda p: head + b"".join(p)); data = head + b"".join(blocks)
        return data, evals[0]
    lines = data.splitlines(keepends=True)
    if len(lines) > 1: data = b"".join(ddmin(lines, b"".join))
    if fmt == "imsc":
        # elements first (a start tag together with everything up to its end tag cannot be cut by ddmin on a flat token list,
        # so remove matching pairs and attributes one at a time), then the generic passes
        changed = True
        while changed and time.time() < t_end and evals[0] < max_evals:
            changed = False
            for m in list(re.finditer(rb'\s+[\w:.-]+="[^"]*"', data))[::-1]:
                if b"xmlns" in m.group(0) and b"xmlns=" not in m.group(0) and (m.group(0).split(b"=")[0].split(b":")[-1] + b":") in data: continue
                cand = data[:m.start()] + data[m.end():]
                if fails(cand): data = cand; changed = True
            for m in list(re.finditer(rb"<(\w+)\b[^<>]*?/>|<(\w+)\b[^<>]*?>[^<>]*</\2>", data))[::-1]:
                cand = data[:m.start()] + data[m.end():]
                if fails(cand): data = cand; changed = True
        return data, evals[0]
    toks = G.TOKEN_RE.findall(data)
    if 1 < len(toks) <= 4000: data = b"".join(ddmin(toks, b"".join))
    if len(data) <= 400:
        data = bytes(ddmin(list(data), bytes))
    return data, evals[0]


def show(data, n=400):
    try:
        s = data.decode("utf-8"); return s if len(s) <= n else s[:n] + f"...(+{len(s) - n} chars)"
    except UnicodeDecodeError:
        return "base64:" + base64.b64encode(data[:n]).decode() + ("..." if len(data) > n else "")


def replay_dict(task, data, failure, fid=None):
    return dict(kind="S-on-code", format=task["fmt"], reader_config=R.READER_CFGS[task["fmt"]][task["cfg"] % len(R.READER_CFGS[task["fmt"]])],
                cfg_index=task["cfg"], seed=task["seed"], input_text=show(data, 2000), input_b64=base64.b64encode(data).decode(),
                stage=failure["stage"], exception=failure["type"], site=failure["site"], message=failure["msg"], generated_as=task["kind"], stream=task["stream"],
                rule="S: a reader returns a document / None / raises an input-format error; nothing downstream of a returned document raises",
                rerun_one="PYTHONPATH=/verif/harness:/repo/src/main/python /venv/bin/python -c \"import base64,c18run as R; print(R.run_input(%r, base64.b64decode(%r), %d, seed=%d, full=True))\""
                          % (task["fmt"], base64.b64encode(data).decode() if len(data) < 3000 else "<input_b64>", task["cfg"], task["seed"]))


def replay(run, path):
    rp = json.load(open(path))["replay"]
    data = base64.b64decode(rp["input_b64"]); fmt = rp["format"]
    task = dict(fmt=fmt, data=data, cfg=rp.get("cfg_index", 0), seed=rp.get("seed", 0), kind="replay", stream="replay", i=0)
    r = R.run_input(fmt, data, task["cfg"], seed=task["seed"], time_limit=120, full=True)
    run.log("replay outcome:", r["outcome"], "| failures:", [(f["stage"], f["type"], f["site"]) for f in R.failures(r)])
    bad = 0
    verdicts = {}
    if fmt == "vtt":
        cue_obs = {rec["text"]: rec["end"] for rec in (r.get("trace") or []) if "text" in rec and rec["end"] != "open"}
        verdicts, cue_failed = judge_cues(run, cue_obs)
        for text, (v, p, rb) in verdicts.items():
            run.log(f"cue text {text[:200]!r}: the code ended with {cue_obs[text]}, C11's model predicts {CLASS_NAMES.get(p, p)}: {v}")
            if v in ("mismatch", "unevaluated") and cue_obs[text] in ("ok", "ValueError"):
                bad += 1
                run.violation(f"vtt cue text {text[:300]!r}: the cue-text parser ended with {cue_obs[text]}, C11's model of it (Model/VttReader.v parse_cue_text) predicts {CLASS_NAMES.get(p, p)}",
                              replay_dict(task, data, dict(stage="read", type="(none)", site="vtt/reader.py:_parse_cue_text", msg="the code and the model of the cue-text parser disagree")))
    for f in R.failures(r):
        rec = failing_cue(r) if (fmt == "vtt" and f is r["read"]) else None
        if rec is not None and rec["end"] == f["type"]:
            v = verdicts.get(rec["text"], ("unevaluated", None, None))
            fid = "vtt-ruby-structure" if (v[0] == "finding" and re.search(RUBY_RX, f"{f['type']}|{f['site']}")) else None
        else:
            fid = match_finding(task, f)
        if fid and run.known(fid, f"{f['stage']}: {f['type']} at {f['site']}"): continue
        bad += 1
        run.violation(f"{fmt} input: {f['stage']} raised {f['type']} at {f['site']}: {f['msg']}", replay_dict(task, data, f))
    run.cov.update(evaluations=1, distinct_nontrivial=2, rule="replay of one recorded input (full pipeline, all configurations)", samples=[show(data, 300)])
    return run.finish()


def load_proposed(run):
    """findings proposed by this check and not yet merged into KNOWN_FINDINGS.txt are honoured as listed"""
    pend = []
    try:
        for line in open(C.VERIF + f"/findings_proposed/{PROP}.txt", encoding="utf-8"):
            mt = re.match(r"finding\s+property=(\S+)\s+id=(\S+)\s+what=(.*)", line.strip())
            if mt and mt.group(1) == PROP and mt.group(2) not in {f["id"] for f in run.findings}:
                run.findings.append(dict(property=PROP, id=mt.group(2), what=mt.group(3))); pend.append(mt.group(2))
    except FileNotFoundError:
        pass
    if pend: run.cov["findings_pending_merge"] = pend


def main():
    run = C.Run(PROP, LEVEL)
    run.hygiene()
    sys.path.insert(0, C.SRC)
    load_proposed(run)
    if os.environ.get("VERIF_REPLAY"):
        return replay(run, os.environ["VERIF_REPLAY"])
    thorough = run.tier == "thorough"

    import guards18
    proofs_ok = guards18.build_and_prove(run, thorough)
    run.witnesses()

    # ---- search on the real code, in rounds (bounded memory) ------------------------------------------------
    n = int(os.environ.get("C18_N", 100000 if thorough else 2000))
    depths = [50, 100, 150, 200, 250, 300, 350, 400, 500, 700, 1000, 1200, 1500, 2000, 3000, 5000] * (3 if thorough else 1)
    corp = G.corpus(C.REPO)
    per_round = 10000
    rounds = max(1, (n + per_round - 1) // per_round)
    run.log(f"{n} generated inputs per reader in {rounds} round(s) + corpus {sum(len(v) for v in corp.values())} files + depth stream {len(depths)} per reader + IMSC style x element matrix ({'all 3 240' if thorough else 'sample of 400'}); "
            f"readers and pipeline run on {C.NCPU} processes")
    outcome_hist = collections.Counter(); kind_hist = collections.Counter(); stream_hist = collections.Counter(); fmt_hist = collections.Counter()
    known_hits = collections.Counter(); unmatched = collections.defaultdict(list); stage_fail_hist = collections.Counter()
    cpu = collections.Counter(); docs = 0; snapshots = 0; distinct = set(); missing = 0; evals = 0
    kept_tasks = []; kept_results = {}; spec_rows = []; samples_by_stream = {}; by_i = {}
    cue_obs = {}; cue_src = {}; cue_conflicts = []; pending_cue = []
    keep_quota = {f: (8000 if thorough else 2500) for f in ("srt", "vtt", "scc", "stl")}
    next_id = 0
    for k in range(rounds):
        n_k = min(per_round, n - k * per_round)
        tasks = make_tasks(run.rng, n_k, corp if k == 0 else {f: [] for f in G.GENERATORS}, depths if k == 0 else [], corp, matrix=(10**6 if thorough else 400) if k == 0 else 0)
        for t in tasks: t["i"] += next_id
        next_id += len(tasks)
        results = run_pool(run, tasks)
        for t in tasks:
            r = results.get(t["i"])
            if r is None: missing += 1; continue
            evals += 1
            fmt_hist[t["fmt"]] += 1; stream_hist[t["stream"]] += 1
            for kk in t["kind"].split("+"): kind_hist[kk] += 1
            outcome_hist[f"{t['fmt']}:{r['outcome']}"] += 1
            cpu[t["fmt"]] += r["dt"]
            if r["outcome"] == "doc": docs += 1; snapshots += r["stats"].get("snapshots", 0)
            if len(t["data"]) > 0 and t["stream"] != "corpus": distinct.add((t["fmt"], hashlib.sha1(t["data"]).digest()[:8]))
            if t["stream"] not in samples_by_stream: samples_by_stream[t["stream"]] = (t, r)
            fl = R.failures(r)
            spec_rows.append(guards18.spec_row(t["i"], r, bool(fl)))
            if t["fmt"] == "vtt":
                # every cue text the reader handed to its parser, with how the parse ended: compared below with C11's model of the parser
                for rec in (r.get("trace") or []):
                    if "text" not in rec or rec["end"] == "open": continue
                    if cue_obs.setdefault(rec["text"], rec["end"]) != rec["end"]: cue_conflicts.append((rec["text"], cue_obs[rec["text"]], rec["end"]))
                    if rec["end"] != "ok": cue_src.setdefault(rec["text"], t)
            for f in fl:
                stage_fail_hist[f"{f['stage'].split('{')[0].split('None')[0]}:{f['type']}"] += 1
                if t["fmt"] == "vtt" and f is r["read"] and f["type"] not in ("Timeout", "RecursionError"):
                    rec = failing_cue(r)
                    if rec is not None and rec["end"] == f["type"]:
                        pending_cue.append((t, f, rec["text"])); continue        # judged from the cue text, after the rounds
                fid = match_finding(t, f)
                if fid is not None and any(x["id"] == fid for x in run.findings):
                    known_hits[fid] += 1
                    if fid not in run.known_printed:
                        run.known(fid, f"{t['fmt']} input ({t['kind']}): {f['stage']} raised {f['type']} at {f['site'].split('<-')[0]}; input {show(t['data'], 120)!r}")
                else:
                    unmatched[f"{f['type']}|{f['site']}"].append((len(t["data"]), t["i"], f)); by_i[t["i"]] = t
            # inputs kept for the in-Coq comparison with the guard models
            q = keep_quota.get(t["fmt"], 0)
            if q > 0 and t["stream"] != "depth" and len(t["data"]) <= 6000 and run.rng.random() < (1.0 if rounds == 1 else 2.0 / rounds):
                keep_quota[t["fmt"]] -= 1; kept_tasks.append(t); kept_results[t["i"]] = r
        run.log(f"round {k + 1}/{rounds}: {evals} inputs so far, {sum(known_hits.values())} failures under listed findings, {len(unmatched)} unlisted signatures")
    if missing:
        run.violation(f"{missing} inputs produced no result (pool failure)", dict(kind="harness", missing=missing), False)

    # ---- WebVTT cue texts: the class the code raised (or none) against C11's model of the cue-text parser, evaluated in Coq ----------
    verdicts, cue_failed = judge_cues(run, cue_obs, cap=120000 if thorough else None)
    vhist = collections.Counter(); ruby_texts = 0
    for text, (v, p, rb) in verdicts.items():
        vhist[f"{v}:{cue_obs[text]}" + ("" if p is None or v != "mismatch" else f"/predicted {CLASS_NAMES.get(p, p)}")] += 1
        ruby_texts += bool(rb)
    run.cov["obligations"] += 1
    if cue_failed:
        run.violation("cue texts could not be evaluated against C11's model: " + "; ".join(cue_failed)[:600], dict(kind="broken-tie", files=cue_failed[:5]), found_input=False)
    for text, a, b in cue_conflicts[:3]:
        run.violation(f"the cue-text parser ended differently on the same cue text {text[:200]!r}: {a} and {b}", dict(kind="harness", cue_text=text), False)
    for t, f, text in pending_cue:
        v, p, rb = verdicts.get(text, ("unevaluated", None, None))
        key = f"{f['type']}|{f['site']}"
        if v == "finding" and re.search(RUBY_RX, key) and any(x["id"] == "vtt-ruby-structure" for x in run.findings):
            known_hits["vtt-ruby-structure"] += 1
            run.known("vtt-ruby-structure", f"vtt input ({t['kind']}): read raised {f['type']} at {f['site'].split('<-')[0]}, the class C11's model of the cue-text parser computes for the cue text {text[:120]!r}")
        else:
            f["cue"] = dict(text=text, predicted=p, verdict=v)
            unmatched[key + f"|cue-text predicted {CLASS_NAMES.get(p, p)}"].append((len(text), t["i"], f)); by_i[t["i"]] = t
    # a tree where the model raises (or a format error): no failure of the run, but the model that decides the finding is off the code
    groups = collections.defaultdict(list)
    for text, (v, p, rb) in verdicts.items():
        if v == "mismatch" and cue_obs[text] in ("ok", "ValueError"): groups[(cue_obs[text], p)].append(text)
    for (end, p), texts in sorted(groups.items(), key=str):
        text = min(texts, key=len); ct, cr = cue_task(text)
        t2 = ct or cue_src.get(text) or dict(fmt="vtt", data=(CUE_FILE % text).encode("utf-8", "surrogatepass"), cfg=0, seed=0, kind="cue-text", stream="cue-text", i=-1)
        run.violation(f"vtt cue text {text[:300]!r}: the cue-text parser ended with {end}, C11's model of it (Model/VttReader.v parse_cue_text, evaluated in Coq) predicts "
                      f"{CLASS_NAMES.get(p, p)}; {len(texts)} cue texts of this run differ this way",
                      dict(replay_dict(t2, t2["data"], dict(stage="read", type="(none)", site="vtt/reader.py:_parse_cue_text", msg=f"model predicts {CLASS_NAMES.get(p, p)}")), cue_text=text))
    if not cue_failed and not cue_conflicts and not groups and not any("cue" in f for fs in unmatched.values() for _, _, f in fs): run.cov["discharged"] += 1
    rt_two_deep = sum(1 for x in cue_obs if re.search(r"<rt[^<>]*>[^<>]*(<[^/<>][^<>]*>){2}[^<]*(</[^<>]*>[^<]*){2}(</rt>)?[^<]*(<rt|[^<])", x, re.I))
    cue_summary = dict(cue_texts=len(cue_obs), ruby_with_formatting_two_deep_in_rt_followed_by_base_text_or_rt=rt_two_deep, several_ruby_elements=sum(1 for x in cue_obs if x.lower().count("<ruby") > 1),
                       rt_without_end_tag=sum(1 for x in cue_obs if x.lower().count("<rt") > x.lower().count("</rt")), evaluated=sum(1 for v in verdicts.values() if v[0] != "unevaluated"), with_ruby_start_tag=ruby_texts, verdicts=dict(sorted(vhist.items())),
                       parser_failures_judged=len(pending_cue))
    run.log("cue texts against C11's model of the cue-text parser:", cue_summary)

    # ---- everything not covered by a listed finding is a violation, reported with the minimised input --------
    slow = []
    for key in sorted(unmatched):
        items = sorted(unmatched[key], key=lambda x: x[:2])
        size, i, f = items[0]; t = by_i[i]
        if "cue" in f:
            # not shrunk on the file (the shrunk input could turn into a recorded ruby structure with the same traceback): the cue text is the replay
            text = f["cue"]["text"]; ct, cr = cue_task(text)
            same = ct is not None and cr["read"] is not None and cr["read"]["type"] == f["type"]
            t2 = ct if same else t
            run.violation(f"vtt cue text {text[:300]!r} ({t['kind']}): the cue-text parser raised {f['type']} at {f['site']}: {f['msg']!r}; C11's model of the parser "
                          f"(Model/VttReader.v parse_cue_text, evaluated in Coq) predicts {CLASS_NAMES.get(f['cue']['predicted'], f['cue']['predicted'])} for this cue text"
                          f"{'' if f['cue']['verdict'] != 'unevaluated' else ' (not evaluated: nothing is excused)'}, so finding vtt-ruby-structure does not cover it; "
                          f"{len(items)} inputs of this run fail this way" + ("" if same else "; the one-cue file does not reproduce it, the replay is the generated file"),
                          dict(replay_dict(t2, t2["data"], f), cue_text=text, model_predicts=CLASS_NAMES.get(f["cue"]["predicted"], f["cue"]["predicted"])))
            continue
        if f["type"] == "Timeout":
            # the machine may just be busy: a time-out counts only if the input still does not finish with five times the limit, alone
            again = [R.run_input(by_i[j]["fmt"], by_i[j]["data"], by_i[j]["cfg"], seed=by_i[j]["seed"], time_limit=300, observe=False) for _, j, _ in items[:3]]
            if not any(g["type"] == "Timeout" for a in again for g in R.failures(a)):
                slow.append(dict(format=t["fmt"], kind=t["kind"], bytes=len(t["data"]), stage=f["stage"])); continue
        data, n_ev = shrink(t, key, budget_s=60 if thorough else 30)
        fid = match_finding(t, f)
        run.violation(f"{t['fmt']} input ({t['kind']}, reader config {R.READER_CFGS[t['fmt']][t['cfg']]}): stage {f['stage']} raised {f['type']} at {f['site']}: {f['msg']!r}; "
                      f"minimised input ({len(data)} bytes, {n_ev} evaluations): {show(data, 300)!r}; {len(items)} inputs of this run fail this way"
                      + (f"; trigger of finding {fid} matches but the finding is not listed" if fid else ""),
                      replay_dict(t, data, f))

    # ---- guard models vs code --------------------------------------------------------------------------------
    g = guards18.correspondence(run, kept_tasks, kept_results, spec_rows, thorough)

    if (not proofs_ok or g["broken"]) and len(unmatched) == len(slow):
        what = []
        if not proofs_ok: what.append("theorems of coq/Properties/C18.v no longer check: " + getattr(run, "proof_log", "")[-600:])
        what += g["broken"]
        run.violation("; ".join(what)[:1500], dict(kind="broken-tie", theorem_file="coq/Properties/C18.v", proofs_ok=proofs_ok, correspondence=g["broken"][:10],
                                                   first_disagreements=g.get("first", [])[:10]), found_input=False)

    samples = []
    for st in ("grammar", "grammar+mutation", "corpus+mutation", "random", "depth", "style-matrix"):
        if st in samples_by_stream:
            t, r = samples_by_stream[st]
            samples.append(dict(format=t["fmt"], stream=st, mutation=t["kind"], reader_config=R.READER_CFGS[t["fmt"]][t["cfg"]], input=show(t["data"], 240),
                                outcome=r["outcome"], downstream_failures=[f"{f['stage']}:{f['type']}" for f in r["fails"]][:4]))
    run.cov.update(
        evaluations=evals, distinct_nontrivial=len(distinct),
        rule="one evaluation = one input file through the real reader (as tt.py opens it: XML parser / UTF-8 text with universal newlines / bytes) under one reader "
             "configuration, classified as document | None | format error (XML parse error, ValueError, struct.error, UnicodeDecodeError) | internal; every "
             "returned document then goes through ISD.significant_times, ISD.from_model at every significant time, between them, before the first and after the "
             "last (at most 14 per document), ISD.generate_isd_sequence, the SRT / WebVTT / IMSC writers (configurations sampled per input from 3 x 9 x 8), "
             "serialisation of the IMSC tree, and the LCD filter (one of 5 configurations per input, on a re-read document) followed by snapshots and one writer. "
             "distinct_nontrivial = number of distinct non-empty generated inputs (by SHA-1 of the bytes, bundled corpus files excluded).",
        samples=samples, inputs_per_format=dict(fmt_hist), inputs_per_stream=dict(stream_hist), mutation_kinds=dict(kind_hist),
        outcome_histogram=dict(sorted(outcome_hist.items())), documents_returned=docs, snapshots_taken=snapshots,
        failures_by_stage_and_type=dict(sorted(stage_fail_hist.items())), known_finding_hits=dict(sorted(known_hits.items())),
        unlisted_failure_signatures=len(unmatched) - len(slow), slow_inputs_over_60s_that_finish_within_300s=slow, cpu_seconds_per_format={k: round(v, 1) for k, v in cpu.items()},
        depth_stream=sorted(set(depths)), guard_correspondence=g["summary"], vtt_cue_texts_against_C11_model=cue_summary,
        finding_matchers=MATCHER_KINDS)
    stale = [fid for fid, *_ in FINDINGS if fid not in known_hits and any(x["id"] == fid for x in run.findings) and fid not in run.known_printed]
    if stale: run.cov["findings_not_triggered_by_generated_inputs"] = stale
    run.assumptions += [
        "the claim is partial by nature: stack depth, memory and termination of expat / html.parser are not modelled; the theorems establish totality of the transcribed guards only",
        "exception classes: XML-layer errors raised by xml.etree before the IMSC reader runs count as 'XML parse error'; UnicodeDecodeError counts wherever the decoder raises it; "
        "RuntimeError, ZeroDivisionError, OverflowError, LookupError, NameError and a time-out count as internal (not documented)",
        "findings are matched by exception type + innermost ttconv frames (qualified function names) + stage AND a predicate on the input (coverage.finding_matchers): for "
        "vtt-ruby-structure the exact one (the class C11's model Model/VttReader.v parse_cue_text computes for the failing cue text, evaluated in Coq; C11's correspondence ties that "
        "model to the code, and tag names holding U+03A3 are outside it), for cue-shorter-than-a-millisecond the rounding of neighbouring significant times, for the others a necessary condition",
    ]
    return run.finish(["harness/c18gen.py (generators, mutators), harness/c18run.py (classification of exceptions, traceback sites, pipeline driver)",
                       "harness/guards18.py (literal printer of inputs and of the recorded observations, RLE of STL bytes)",
                       "harness/gen_c18.py (Unicode \\s / \\d / str.isspace / int() digit tables extracted from CPython by enumeration, fail-closed)"])


LEVEL = "exploration"

if __name__ == "__main__":
    sys.exit(main())
