"""C04 - reading IMSC/TTML XML follows TTML timing, styling and white-space semantics.

Theorems: coq/Properties/C04.v (time-expression syntaxes; interval resolution by induction on the XML tree).
Ties, all evaluated inside Coq on literals generated here (coq/Gen/Cases_C04_*.v):
  * M = code on documents: Model/ImscTiming.v read_tt against the canonical dump of ttconv.imsc.reader.to_model
    (element kinds, relative begin/end, xml:space, xml:lang, region, animation steps, anonymous spans, pruning);
  * S on the code: Spec/TtmlTimingSpec.v `presented` (texts shown at t, computed on the XML) against
    ISD.from_model snapshots of the document the reader built, at every interval boundary and between;
  * M = code and S on the code for time expressions (all 8 syntaxes, perturbed strings) and for
    ttp:frameRate / frameRateMultiplier / tickRate.
A second stream corrupts single attributes: the reader's result must equal the result for the document with the
attribute removed, and a log record must be emitted (implementation against itself; judged here).
About a third of the timing documents and of the style documents (hence of the pool of the corrupt stream) carry children that are
no content elements - tt:metadata and ttm: elements, foreign and unknown elements, comments and processing instructions as
ElementTree presents them - each with its own tail, in par and seq containers, before / after / between spans, br and set elements
(imsc_common.NonContentGen; the distribution is printed and stored in the evidence).  A third stream checks the statement of
C04_noncontent_children_transparent on the code itself: the document and the document without such children (tails kept in place)
must be read as the same document up to the split of adjacent anonymous spans.
The reader's patterns are compiled with re.ASCII: decimal digits outside ASCII are not digits for the code, as for the model."""
import copy, os, re, sys, time
from fractions import Fraction as F
import xml.etree.ElementTree as et
import common as C
import gen_tables
import imsc_common as IC

PROP = "C04"
TARGETS = ["Model/ImscCases.vo", "Model/ImscParams.vo", "Proofs/C04/TimeSyntax.vo", "Proofs/C04/TimeReject.vo", "Proofs/C04/Interval.vo", "Proofs/C04/Total.vo", "Proofs/C04/Params.vo", "Proofs/C04/Tables.vo", "Proofs/C04/BadAttr.vo", "Proofs/C04/Styles.vo", "Proofs/C04/Flatten.vo", "Proofs/C04/Color.vo", "Proofs/C04/Transparent.vo"]
HEADER = ("From TT Require Import Base.Prelude Base.ImscXml Model.ImscTime Model.ImscStyles Model.ImscTiming Model.ImscWrite Model.ImscWriteCases Spec.TtmlTimingSpec Model.ImscCases Model.ImscParams Proofs.C04.TimeReject.\n"
          "From Coq Require Import QArith.\nLocal Open Scope Z_scope.\n")
GRAMMAR = re.compile(r"(\d+(\.\d+)?(h|m|s|ms|f|t)|\d{2,}:\d\d:\d\d(\.\d+)?|\d{2,}:\d\d:\d\d:\d{2,})\Z", re.ASCII)


def load_proposed(run):
    pend = []
    try:
        for line in open(C.VERIF + f"/findings_proposed/{PROP}.txt", encoding="utf-8"):
            mt = re.match(r"finding\s+property=(\S+)\s+id=(\S+)\s+what=(.*)", line.strip())
            if mt and mt.group(1) == PROP and mt.group(2) not in {f["id"] for f in run.findings}:
                run.findings.append(dict(property=PROP, id=mt.group(2), what=mt.group(3))); pend.append(mt.group(2))
    except FileNotFoundError:
        pass
    if pend: run.cov["findings_pending_merge"] = pend


def xml_text(tt):
    return et.tostring(tt, encoding="unicode")


# ------------------------------------------------------------------------------------------ documents
def seed_corpus():
    """the bundled .ttml files, as ElementTree roots (no generator table: their time strings are parsed here)"""
    out = []
    base = C.REPO + "/src/test/resources"
    for root, _, files in os.walk(base):
        for f in sorted(files):
            if f.endswith(".ttml"):
                try:
                    out.append((os.path.relpath(os.path.join(root, f), base), et.parse(os.path.join(root, f)).getroot()))
                except et.ParseError:
                    pass
    return out


def table_for(tt):
    """time-expression table of a document that was not generated here: every begin/end/dur string that is in the
    TTML grammar, parsed by the harness into the abstract syntax (Coq re-prints and compares it)"""
    tab = {}
    for e in tt.iter():
        for a in ("begin", "end", "dur"):
            s = e.get(a)
            if s is None or not GRAMMAR.match(s): continue
            m = re.match(r"(\d+)(?:\.(\d+))?(h|ms|m|s|f|t)\Z", s)
            dl = lambda x: [int(c) for c in x] if x else []
            if m: tab[s] = ("off", dl(m.group(1)), dl(m.group(2)), m.group(3)); continue
            m = re.match(r"(\d{2,}):(\d)(\d):(\d)(\d)(?:\.(\d+))?\Z", s)
            if m: tab[s] = ("clk", dl(m.group(1)), int(m.group(2)), int(m.group(3)), int(m.group(4)), int(m.group(5)), dl(m.group(6))); continue
            m = re.match(r"(\d{2,}):(\d)(\d):(\d)(\d):(\d{2,})\Z", s)
            if m: tab[s] = ("clkf", dl(m.group(1)), int(m.group(2)), int(m.group(3)), int(m.group(4)), int(m.group(5)), dl(m.group(6)))
    return tab


def ctx_of(tt):
    gi = lambda s: int(s) if s is not None and re.fullmatch(r"[0-9]+", s) and int(s) > 0 else None
    fr = gi(tt.get(IC.q(IC.NS_TTP, "frameRate")))
    frm = tt.get(IC.q(IC.NS_TTP, "frameRateMultiplier")); mult = None
    if frm is not None:
        p = frm.split(" ")
        if len(p) == 2 and gi(p[0]) and gi(p[1]): mult = (int(p[0]), int(p[1]))
    return IC.TimeCtx(fr, mult, gi(tt.get(IC.q(IC.NS_TTP, "tickRate"))))


def doc_case(i, tt, table, ctx, rng):
    """run the code on one document; returns the Coq definitions and the bookkeeping record"""
    lit = IC.Lit(); sl = IC.StyleLit(lit, tt)
    doc, exc, logs = IC.read_tree(copy.deepcopy(tt))
    rec = dict(i=i, exc=exc, nlogs=len(logs), obs=None, seq_break=any("never begin" in msg for _, msg in logs))
    xl = lit.xml(tt)
    if exc is not None:
        expected = f"(DErr {IC.EXC_CODES.get(exc, 9)})"
        obs = []
    elif doc is None:
        expected = "(DErr 8)"; obs = []
    else:
        expected = IC.doc_lit(lit, doc, sl)
        obs = []
        for t in IC.probe_times(tt, table, ctx, doc, rng):
            try:
                obs.append((t, IC.observe(doc, t)))
            except Exception as e:
                rec.setdefault("isd_exc", []).append((str(t), type(e).__name__))
    rec["obs"] = obs
    tab = "[" + ";".join(f"({C.text(s)},{IC.ast_lit(a)})" for s, a in table.items()) + "]"
    obl = "[" + ";".join(f"({C.q(t)},[" + ";".join(C.text(s) for s in o) + "])" for t, o in obs) + "]"
    defs = (f"Definition x{i} : xml := {xl}.\nDefinition t{i} : list (text * texpr) := {tab}.\nDefinition q{i} : list (qname * text * option Z) := {sl.table()}.\n"
            f"Definition e{i} : dres := {expected}.\nDefinition o{i} : list (Q * list text) := {obl}.\n")
    return defs, rec


def write_shards(prefix, defs_list, lines_of, cap=180000):
    """defs_list: [(index, text)]; lines_of(indices) -> list of Eval lines; returns [(path, [indices])]"""
    files = []; cur = []; size = 0
    def flush():
        nonlocal cur, size
        if not cur: return
        p = f"{C.GEN}/{prefix}{len(files)}.v"
        with open(p, "w") as f:
            f.write(HEADER + "".join(t for _, t in cur) + "\n".join(lines_of([i for i, _ in cur])) + "\n")
        files.append((p, [i for i, _ in cur])); cur = []; size = 0
    for i, t in defs_list:
        cur.append((i, t)); size += len(t)
        if size >= cap: flush()
    flush()
    return files


def run_shards(files, nlines):
    """compile; returns (per-line lists of failing global indices, broken files)"""
    res = C.coqc_many([p for p, _ in files], 1500)
    bad = [[] for _ in range(nlines)]; broken = []
    for p, idx in files:
        rc, out = res[p]
        flat = " ".join(out.split())
        ms = re.findall(r"=\s*\(\s*(\d+)\s*,\s*(\[[^\]]*\]|nil)\s*\)", flat)
        if rc != 0 or len(ms) != nlines:
            broken.append((p, out[-600:])); continue
        for k, (n, b) in enumerate(ms):
            if int(n) != len(idx): broken.append((p, f"line {k}: {n} results for {len(idx)} cases"))
            bad[k] += [idx[int(x)] for x in re.findall(r"\d+", b)]
    return bad, broken


# ------------------------------------------------------------------------------------------ corrupt stream
STYLE_NS = (IC.NS_TTS, IC.NS_ITTS, IC.NS_EBUTTS)
TIME_BAD = ["", "bogus", "1.s", " 1s", "1 s", "5s5", "12:34", ":", "-", "1e", "10fx", "1s\n", "\u0663s", "00:00:01:3", "00:00:1",
            "1:00:00", "00:00:01.", "5 f", "+1s", "1,5s", "s", ".5s", "00:00:01:02.3x"]
RATE_BAD = ["", "x", "25x", "2 5", "-25", "25.5", "0", " 25", "\u0663"]
MULT_BAD = ["", "1000", "1000/1001", "1000  1001", "1000 1001 7", "1 0", "0 1", "a b"]
STYLE_BAD = ["", "bogus", "12", "#12", "1px 2", "-", "#ggg", "rgb(1,2)", "1c 1c 1c 1c 1c", "none none x", "#ff0000x", "rgb(1,2,256)", "rgb(\u0661,2,3)", "rgb(1,2,3) "]
PALETTES = {
    "begin": TIME_BAD, "end": TIME_BAD, "dur": TIME_BAD,
    "timeContainer": ["", "bogus", "Seq", "par seq"],
    IC.q(IC.NS_XML, "space"): ["", "bogus", "Preserve", " default"],
    IC.q(IC.NS_TTS, "ruby"): ["", "bogus", "Base", "container base"],
    IC.q(IC.NS_TTP, "frameRate"): RATE_BAD, IC.q(IC.NS_TTP, "tickRate"): RATE_BAD, IC.q(IC.NS_TTP, "frameRateMultiplier"): MULT_BAD,
    IC.q(IC.NS_TTP, "cellResolution"): ["", "40", "40x20", "a b", "0 0", "40 20 x", "-1 2", "40  20"],
    IC.q(IC.NS_TTS, "extent") + "@tt": ["100px", "", "a b", "100 100", "100% 100%", "1.5px 2px", "0px 0px", "100px 100px 1px"],
    IC.q(IC.NS_ITTP, "activeArea"): ["", "1% 2% 3%", "a b c d", "10px 10% 10% 10%", "200% 0% 10% 10%", "-1% 0% 10% 10%"],
    IC.q(IC.NS_ITTP, "aspectRatio"): ["", "16", "16:9", "16 0", "a b", "0 9", "16 9 1"],
    IC.q(IC.NS_TTP, "displayAspectRatio"): ["", "16", "16:9", "16 0", "a b", "0 9"],
}
# style attributes whose every string is a legal value are not corrupted (a font family may be any name)
STYLE_SKIP = {"fontFamily"}


def palette(e, k):
    if k in PALETTES: return PALETTES[k]
    if k == IC.q(IC.NS_TTS, "extent") and e.tag == IC.q(IC.NS_TT, "tt"): return PALETTES[k + "@tt"]
    if k.startswith("{") and k[1:].split("}")[0] in STYLE_NS and e.tag != IC.q(IC.NS_TT, "tt"):
        key = (k[1:].split("}")[0], k.split("}")[1])
        if key in IC.PROP_VALUES:
            # the malformed strings of the property's table (a string such as "12" is malformed for one property and fine for another)
            bad = [v for v in IC.PROP_VALUES[key][1] if (key, v) not in IC.MODEL_INVALID]
            return bad + ([""] if "" not in bad else []) + (["bogus"] if not bad else [])
    return None


def dump_doc(doc):
    """full canonical dump (every model field) for the corrupt stream"""
    import ttconv.model as m
    def el(e):
        if isinstance(e, m.Text): return ("Text", e.get_text())
        st = sorted((p.__name__, repr(e.get_style(p))) for p in e.iter_styles())
        an = [(a.style_property.__name__, a.begin, a.end, repr(a.value)) for a in e.iter_animation_steps()]
        tm = (None, None) if isinstance(e, m.Br) else (e.get_begin(), e.get_end())
        reg = None if isinstance(e, (m.Br, m.Region)) or e.get_region() is None else e.get_region().get_id()
        return (type(e).__name__, e.get_id(), tm, e.get_space().value, e.get_lang(), reg, st, an, [el(c) for c in e])
    return (doc.get_lang(), doc.get_cell_resolution(), doc.get_px_resolution(), doc.get_active_area(), doc.get_display_aspect_ratio(),
            sorted((p.__name__, repr(v)) for p, v in doc.iter_initial_values()),
            [el(r) for r in doc.iter_regions()], None if doc.get_body() is None else el(doc.get_body()))


def corruptible(tt):
    """(element path, attribute name) of every attribute the reader interprets and whose malformed value must be ignored"""
    out = []
    def walk(e, path):
        for k in e.attrib:
            if palette(e, k) is not None: out.append((path, k))
        for j, c in enumerate(e): walk(c, path + [j])
    walk(tt, [])
    return out


def at_path(tt, path):
    e = tt
    for j in path: e = e[j]
    return e


def all_paths(tt):
    out = []
    def walk(e, path):
        out.append(path)
        for j, c in enumerate(e): walk(c, path + [j])
    walk(tt, [])
    return out


# ------------------------------------------------------------------------------------------ transparency stream
def _tt_local(e):
    return e.tag.split("}")[1] if isinstance(e.tag, str) and e.tag.startswith("{" + IC.NS_TT + "}") else None


def keeps(parent, c):
    """Spec/TtmlContentSpec.v keeps: the children an element reads"""
    pl, cl = _tt_local(parent), _tt_local(c)
    if pl == "tt": return cl in ("head", "body")
    if pl == "head": return cl in ("layout", "styling")
    if pl == "layout": return cl == "region"
    if pl == "styling": return cl in ("initial", "style")
    timed = cl in ("body", "div", "p", "span", "br", "set") or (cl == "region" and c.get(IC.q(IC.NS_XML, "id")) is not None)
    if pl in ("body", "div", "p", "span", "br"): return timed
    if pl == "region" and parent.get(IC.q(IC.NS_XML, "id")) is not None: return timed or cl == "style"
    return False                                                   # set, and everything that is not read


def strip_tree(e):
    """Spec/TtmlContentSpec.v strip, on a copy: the children that are not kept are removed, each one's tail appended to the text before it"""
    out = et.Element(e.tag, dict(e.attrib)) if isinstance(e.tag, str) else copy.copy(e)
    out.text = e.text; out.tail = e.tail
    if not isinstance(e.tag, str): return out
    last = None
    def add(t):
        if t is None: return
        if last is None: out.text = (out.text or "") + t if out.text is not None else t
        else: last.tail = (last.tail or "") + t if last.tail is not None else t
    for c in e:
        if keeps(e, c):
            k = strip_tree(c); k.tail = None; out.append(k); last = k
        add(c.tail)
    return out


def fuse(node):
    """normal form of a dumped element up to the split of adjacent anonymous spans (same_node of the specification): adjacent text
    nodes, and adjacent spans without anything but one text node and the same xml:space / xml:lang, are joined"""
    if node[0] == "Text": return node
    kids = []
    for c in (fuse(x) for x in node[8]):
        if kids:
            a = kids[-1]
            if a[0] == "Text" and c[0] == "Text":
                kids[-1] = ("Text", a[1] + c[1]); continue
            anon = lambda n: n[0] == "Span" and n[1] is None and n[2] == (None, None) and n[5] is None and not n[6] and not n[7] and len(n[8]) == 1 and n[8][0][0] == "Text"
            if anon(a) and anon(c) and a[3:5] == c[3:5]:
                kids[-1] = a[:8] + ([("Text", a[8][0][1] + c[8][0][1])],); continue
        kids.append(c)
    return node[:8] + (kids,)


def fuse_doc(d):
    return d[:6] + ([fuse(r) for r in d[6]], None if d[7] is None else fuse(d[7]))


def classify_corrupt(name, on_tt, exc, same, logged, value=""):
    """finding id covering a failure of the ignored-and-logged clause, or None: every finding about attributes the reader knows is
    repaired (lax-value-syntax, zero-rate-division, tt-parameter-abort, bad-ruby-drops-span, lax-style-syntax), so nothing is excused"""
    return None


def main():
    run = C.Run(PROP, "proof")
    run.hygiene()
    sys.path.insert(0, C.SRC)
    load_proposed(run)
    changed, errors = gen_tables.generate({"ImscTables"})
    if errors:
        run.violation("table translator failed closed: " + "; ".join(errors), dict(kind="translator", errors=errors), False)
        return run.finish()
    if changed: run.log("tables regenerated from source:", changed)
    ok, log = run.build(TARGETS, clean=(run.tier == "thorough"))
    proofs_ok = ok and run.theorems()
    if not ok: run.proof_log = log[-3000:]
    run.witnesses()
    rng = run.rng
    thorough = run.tier == "thorough"
    ndocs = 5000 if thorough else 300
    C.clean_cases("Cases_C04_")

    # ---------------------------------------------------------------- documents: M = code, S on the code
    import logging
    logging.getLogger("ttconv").addHandler(logging.NullHandler()); logging.getLogger("ttconv").propagate = False
    docs = []       # (tt, table, ctx, flags, origin)
    for name, tt in seed_corpus():
        docs.append((tt, table_for(tt), ctx_of(tt), set(), "corpus:" + name))
    nc_total = {}; nc_docs = 0; n_generated = 0; nc_tail_docs = 0
    while len(docs) < ndocs:
        g = IC.DocGen(rng, p_noncontent=0.38)
        tt = g.document(); n_generated += 1
        if g.noncontent is not None:
            nc_docs += 1; IC.merge_stats(nc_total, g.noncontent); g.flags.add("non-content")
            if g.noncontent["tail_fresh"] + g.noncontent["tail_split"]: nc_tail_docs += 1
        docs.append((tt, g.table, g.ctx, g.flags, "generated"))
    run.log(f"timing documents with children that are no content elements: {nc_docs} of {n_generated} generated ({100 * nc_docs // max(1, n_generated)}%), {nc_tail_docs} with tail text after one; distribution: {nc_total}")
    defs = []; recs = []
    t0 = time.time()
    for i, (tt, table, ctx, flags, origin) in enumerate(docs):
        d, rec = doc_case(i, tt, table, ctx, rng)
        defs.append((i, d)); recs.append(rec)
    run.log(f"{len(docs)} documents read by the code in {time.time() - t0:.1f}s")
    lines = lambda idx: [
        "Eval vm_compute in check_all [" + ";".join(f"case_model x{i} q{i} e{i}" for i in idx) + "].",
        "Eval vm_compute in check_all [" + ";".join(f"case_spec x{i} t{i} o{i}" for i in idx) + "]."]
    files = write_shards("Cases_C04_doc_", defs, lines)
    (m_bad, s_bad), broken = run_shards(files, 2)
    n_obs = sum(len(r["obs"]) for r in recs)
    exc_docs = [r["i"] for r in recs if r["exc"] is not None]
    shapes = {k: sum(1 for d in docs if k in d[3]) for k in ("tick-default", "seq-region", "bad-ruby")}
    shapes["seq-child-after-indefinite-sibling"] = sum(1 for r in recs if r["seq_break"])
    run.log(f"documents: M/code mismatches {len(m_bad)}, S failures {len(s_bad)}, reader exceptions {len(exc_docs)}, snapshots {n_obs}, broken files {len(broken)}; "
            f"formerly failing shapes reached: {shapes}")

    # no recorded finding covers the documents any more: every S failure and every exception of the reader is a violation
    unlisted = sorted(set(s_bad) | set(exc_docs))
    isd_exc = [r for r in recs if r.get("isd_exc")]
    for i in unlisted[:3]:
        tt, table, ctx, flags, origin = docs[i]
        run.violation(f"document {i} ({origin}): the reader " + (f"raises {recs[i]['exc']}" if recs[i]["exc"] else "presents other text than the TTML2 timing semantics give"),
                      dict(kind="S-on-code", document=xml_text(tt), reader_exception=recs[i]["exc"],
                           observed=[(str(t), o) for t, o in recs[i]["obs"]], time_table={s: IC.ast_lit(a) for s, a in table.items()},
                           spec="coq/Spec/TtmlTimingSpec.v presented; re-evaluate with Model/ImscCases.v spec_answers"))
    if isd_exc and not unlisted:
        r = isd_exc[0]
        run.cov["isd_exceptions"] = len(isd_exc)

    # ---------------------------------------------------------------- style documents: M = code, S (style association) on the code
    import ttconv.imsc.style_properties as isp
    import imsc_docgen as DG
    pnames = DG.prop_names()
    nsty = 4000 if thorough else 300
    sdefs = []; sinfo = []
    snc_total = {}; snc_docs = 0
    for i in range(nsty):
        g = IC.StyleDocGen(rng, p_noncontent=0.35); stt = g.document()
        if g.noncontent is not None: snc_docs += 1; IC.merge_stats(snc_total, g.noncontent); g.flags.add("non-content")
        lit = IC.Lit(); sl = IC.StyleLit(lit, stt)
        doc, exc, logs = IC.read_tree(copy.deepcopy(stt))
        vals = []
        def ident(v):
            for j, w in enumerate(vals):
                if type(w) is type(v) and w == v: return j
            vals.append(v); return len(vals) - 1
        vrows = []; seen = set()
        for e in stt.iter():
            for k, v in e.attrib.items():
                cls = isp.StyleProperties.BY_QNAME.get(k)
                if cls is None or (k, v) in seen: continue
                seen.add((k, v))
                try:
                    val = cls.extract(None, v)
                    if not cls.model_prop.validate(val): raise ValueError("invalid")
                    vrows.append(f"({lit.qn(k)},{C.text(v)},{ident((cls.model_prop.__name__, val))})")
                except (ValueError, KeyError):
                    vrows.append(f"({lit.qn(k)},{C.text(v)},(-3))")
        wrows = [f"({lit.qn(k)},{C.text(v)},{C.boolean(ok)})" for (k, v), ok in g.wf.items()]
        kv = lambda items: "[" + ";".join(f"({a},{C.z(b)})" for a, b in sorted(items)) + "]"
        def vid(p, v):
            for j, w in enumerate(vals):
                if w[0] == p.__name__ and type(w[1]) is type(v) and w[1] == v: return j
            return -9
        if exc is not None or doc is None:
            expected = f"(DErr {IC.EXC_CODES.get(exc, 9)})"; obs = None
        else:
            expected = IC.doc_lit(lit, doc, sl); obs = IC.style_observation(stt, doc)
        # loops among style references are an error in TTML2 (no defined meaning): such documents are compared with the model only
        graph = {}
        for st in stt.iter(IC.q(IC.NS_TT, "style")):
            sid = st.get(IC.q(IC.NS_XML, "id"))
            if sid is not None and sid not in graph: graph[sid] = (st.get("style") or "").split(" ")
        def cyclic():
            state = {}
            def visit(n):
                if state.get(n) == 1: return True
                if state.get(n) == 2 or n not in graph: return False
                state[n] = 1
                if any(visit(x) for x in graph[n]): return True
                state[n] = 2; return False
            return any(visit(n) for n in graph)
        loop = cyclic()
        if loop: g.flags.add("style-loop")
        if loop and exc is None:
            sline = "true"
        elif obs is None:
            sline = "false"
        else:
            per = "[" + ";".join(kv([(pnames.index(p.__name__), vid(p, me.get_style(p))) for p in me.iter_styles()]) for me in obs) + "]"
            ini = kv([(pnames.index(p.__name__), vid(p, v)) for p, v in doc.iter_initial_values()])
            sline = f"case_styles y{i} [{';'.join(wrows)}] [{';'.join(vrows)}] {per} {ini}"
        sdefs.append((i, f"Definition y{i} : xml := {lit.xml(stt)}.\nDefinition m{i} := case_model y{i} {sl.table()} {expected}.\nDefinition s{i} := {sline}.\n"))
        sinfo.append(dict(doc=stt, exc=exc, flags=g.flags, mirrored=obs is not None or exc is not None, depth=g.graph_depth, forward=g.forward_refs))
    slines = lambda idx: ["Eval vm_compute in check_all [" + ";".join(f"m{i}" for i in idx) + "].",
                          "Eval vm_compute in check_all [" + ";".join(f"s{i}" for i in idx) + "]."]
    sfiles = write_shards("Cases_C04_sty_", sdefs, slines)
    (sm_bad, ss_bad), sbroken = run_shards(sfiles, 2)
    s_unlisted = list(ss_bad)
    sshape = dict(depth_histogram={str(k): sum(1 for x in sinfo if x["depth"] == k) for k in sorted({x["depth"] for x in sinfo})},
                  documents_with_forward_references=sum(1 for x in sinfo if x["forward"]),
                  invalid_value_in_style=sum(1 for x in sinfo if "style-invalid-value" in x["flags"]),
                  shadow_comma_space=sum(1 for x in sinfo if "textshadow-comma-space" in x["flags"]),
                  nested_style_after_indefinite_child_of_seq_region=sum(1 for x in sinfo if "seq-region-nested-style" in x["flags"]),
                  of_which_behind_a_child_that_is_no_style=sum(1 for x in sinfo if "seq-region-nested-style-hidden" in x["flags"]))
    run.log(f"style documents with children that are no content elements: {snc_docs} of {nsty} ({100 * snc_docs // max(1, nsty)}%); distribution: {snc_total}")
    run.log(f"style documents: {nsty}, M/code mismatches {len(sm_bad)}, S failures {len(ss_bad)}, "
            f"reader exceptions {sum(1 for x in sinfo if x['exc'])}, reference loops (model only) {sum(1 for x in sinfo if 'style-loop' in x['flags'])}; graphs: {sshape}")
    for i in s_unlisted[:3]:
        run.violation(f"style document {i}: " + (f"the reader raises {sinfo[i]['exc']}" if sinfo[i]["exc"] else "the specified styles differ from TTML2 style association"),
                      dict(kind="S-on-code", document=xml_text(sinfo[i]["doc"]), reader_exception=sinfo[i]["exc"], flags=sorted(sinfo[i]["flags"]),
                           spec="coq/Spec/TtmlStyleSpec.v doc_specified; re-evaluate with Model/ImscCases.v spec_styles"))

    # ---------------------------------------------------------------- time expressions and parameters
    from ttconv.imsc.utils import parse_time_expression
    import ttconv.imsc.attributes as at
    ntime = 40000 if thorough else 4000
    tdefs = []; tinfo = []
    rates = [None, F(24), F(25), F(30), F(30000, 1001), F(24000, 1001), F(60), F(0)]
    ticks = [None, 1, 10, 1000, 90000, 10000000, 0, F(30000, 1001), F(25)]
    for i in range(ntime):
        fr = rng.choice(rates); tr = rng.choice(ticks)
        a = IC.random_ast(rng); s = IC.ast_print(a); mutated = False
        if rng.random() < 0.45:
            mutated = True
            k = rng.random()
            if k < 0.4 and s:
                j = rng.randrange(len(s)); s = s[:j] + rng.choice("0123456789:.hmsft x\n-+e\u0663\uff15") + s[j + (rng.random() < 0.5):]
            elif k < 0.6: s = s + rng.choice(["x", "\n", " ", "s", "0", ".", "f5", "\n\n"])
            elif k < 0.75: s = s[:rng.randrange(len(s) + 1)]
            elif k < 0.9: s = rng.choice(["", " ", "1", "1.", ".5s", "1:2:3", "01:02:03:4", "1:02:03", "00:00:00.", "5ss", "5 s", "+5s", "1e3s"])
            else: s = rng.choice(["-", "", "f", "t", "ms"]) + s
        try:
            v = parse_time_expression(tr, fr, s); got = f"(TVal {C.q(v)})"; gk = "val"
        except ValueError:
            got = "TBad"; gk = "bad"
        except ZeroDivisionError:
            got = "TZeroDiv"; gk = "zero"
        ing = bool(GRAMMAR.match(s))
        lit_fr = C.opt(fr, C.q); lit_tr = C.opt(None if tr is None else F(tr), C.q)
        d = f"Definition m{i} := case_time {lit_tr} {lit_fr} {C.text(s)} {got}.\n"
        # S: strings printed from the grammar (unmutated) under defined, non-zero rates
        if not mutated and fr not in (None, F(0)) and tr not in (None, 0):
            d += f"Definition s{i} := case_time_spec {C.q(F(tr))} {C.q(fr)} {IC.ast_lit(a)} {got}.\n"
        else:
            # outside the grammar the value must be rejected; inside it (a mutation may land in the grammar) no claim here
            okk = (gk == "bad") if not ing else True
            if gk == "zero": okk = True          # zero rates are judged by the parameter cases
            d += f"Definition s{i} := {C.boolean(okk)}.\n"
        tdefs.append((i, d)); tinfo.append((s, fr, tr, gk, ing, mutated))
    tl = lambda idx: ["Eval vm_compute in check_all [" + ";".join(f"m{i}" for i in idx) + "].",
                      "Eval vm_compute in check_all [" + ";".join(f"s{i}" for i in idx) + "]."]
    tfiles = write_shards("Cases_C04_time_", tdefs, tl)
    (tm_bad, ts_bad), tbroken = run_shards(tfiles, 2)
    other_ts = list(ts_bad)       # a string outside the TTML grammar that is accepted is a violation (the finding lax-value-syntax is repaired)
    outside = sum(1 for x in tinfo if not x[4])
    run.log(f"time expressions: {ntime} strings ({outside} outside the grammar, {sum(1 for x in tinfo if x[0].endswith(chr(10)))} ending with a line feed, "
            f"{sum(1 for x in tinfo if any(c.isdigit() and not c.isascii() for c in x[0]))} with digits outside ASCII), M/code mismatches {len(tm_bad)}, S failures {len(other_ts)}")
    for i in other_ts[:2]:
        s, fr, tr, gk, ing, mut = tinfo[i]
        run.violation(f"time expression {s!r} (frame rate {fr}, tick rate {tr}) is read as {gk}, the TTML2 grammar says otherwise",
                      dict(kind="S-on-code", time_expression=s, frame_rate=str(fr), tick_rate=str(tr), outcome=gk, in_grammar=ing))

    # parameters
    npar = 6000 if thorough else 800
    pdefs = []; pinfo = []
    lit = IC.Lit()
    for i in range(npar):
        e = et.Element(IC.q(IC.NS_TT, "tt"))
        def val(pool, bad):
            return rng.choice(pool) if rng.random() < 0.8 else rng.choice(bad)
        if rng.random() < 0.6: e.set(at.FrameRateAttribute.frame_rate_qn, val(["24", "25", "30", "50", "60", "1", "120"], ["", "x", "25x", "2 5", "-25", "25.5", "0"]))
        if rng.random() < 0.45: e.set(at.FrameRateAttribute.frame_rate_multiplier_qn, val(["1000 1001", "1 1", "999 1000", "2 1"], ["", "1000", "1000/1001", "1000  1001", "1000 1001 7", "1 0", "0 1", "a b"]))
        if rng.random() < 0.5: e.set(at.TickRateAttribute.qn, val(["1", "10", "1000", "90000", "10000000"], ["", "x", "10x", "0", "-1", "1.5"]))
        fr = at.FrameRateAttribute.extract(e); tr = F(at.TickRateAttribute.extract(e)); exc = None
        attrs = "[" + ";".join(f"({lit.qn(k)},{C.text(v)})" for k, v in e.attrib.items()) + "]"
        d = (f"Definition m{i} := case_params {attrs} {C.q(fr)} {C.q(tr)}.\n"
             f"Definition s{i} := case_params_spec {attrs} {C.q(fr)} {C.q(tr)}.\n")
        pdefs.append((i, d)); pinfo.append((dict(e.attrib), fr, tr, exc))
    pfiles = write_shards("Cases_C04_par_", pdefs, tl)
    (pm_bad, ps_bad), pbroken = run_shards(pfiles, 2)
    p_unlisted = list(ps_bad)     # the parameter findings (zero-rate-division, tickrate-default, lax-value-syntax) are repaired: nothing is excused
    pshape = dict(zero=sum(1 for x in pinfo if any(v in ("0", "1 0", "0 1") for v in x[0].values())),
                  prefix=sum(1 for x in pinfo if any(re.match(r"[0-9]+[^0-9 ]", v) for v in x[0].values())),
                  tick_from_frame_rate=sum(1 for x in pinfo if at.TickRateAttribute.qn not in x[0] and at.FrameRateAttribute.frame_rate_qn in x[0]))
    run.log(f"parameters: {npar} attribute sets, M/code mismatches {len(pm_bad)}, S failures {len(ps_bad)}; formerly failing shapes reached: {pshape}")
    for i in p_unlisted[:2]:
        run.violation(f"document parameters {pinfo[i][0]} are read as frame rate {pinfo[i][1]}, tick rate {pinfo[i][2]}",
                      dict(kind="S-on-code", attributes=pinfo[i][0], frame_rate=str(pinfo[i][1]), tick_rate=str(pinfo[i][2]), spec="Spec/TtmlTimingSpec.v spec_frame_rate / spec_tick_rate"))

    # ---------------------------------------------------------------- document parameters on tt: cell resolution, pixel extent, active area, aspect ratios
    nttp = 6000 if thorough else 800
    qdefs = []; qinfo = []
    CELL = (["40 20", "32 15", "80 24", "1 1", "007 08"], ["", "40", "40x20", "a b", "0 0", "40 0", "40 20 x", "-1 2", "40  20", "40 20\n", " 40 20", "\u0664\u0660 20"])
    EXT = (["640px 480px", "1920px 1080px", "1px 1px", "640.0px 480px", "+640px 480px"], ["100px", "", "a b", "100 100", "100% 100%", "1.5px 2px", "0px 0px", "100px 100px 1px", "-640px 480px", "640px  480px", "640em 480px", "640px 480px\n", "1e3px 1px"])
    AA = (["10% 10% 80% 80%", "0% 0% 100% 100%", "12.5% 5% 75% 90%", "0.5% .5% 99% 99%"], ["", "1% 2% 3%", "a b c d", "10px 10% 10% 10%", "200% 0% 10% 10%", "-1% 0% 10% 10%", "10% 10% 80% 80% 1%", "10%  10% 80% 80%", "10% 10% 80% 100.5%"])
    AR = (["16 9", "4 3", "1 1", "185 100"], ["", "16", "16:9", "16 0", "a b", "0 9", "16 9 1", "16  9", "16 9\n", "0 0"])
    for i in range(nttp):
        e = et.Element(IC.q(IC.NS_TT, "tt")); e.set(IC.q(IC.NS_XML, "lang"), "en")
        def val(pool):
            return rng.choice(pool[0]) if rng.random() < 0.6 else rng.choice(pool[1])
        if rng.random() < 0.6: e.set(at.CellResolutionAttribute.qn, val(CELL))
        if rng.random() < 0.6: e.set(at.ExtentAttribute.qn, val(EXT))
        if rng.random() < 0.6: e.set(at.ActiveAreaAttribute.qn, val(AA))
        if rng.random() < 0.4: e.set(at.AspectRatioAttribute.qn, val(AR))
        if rng.random() < 0.4: e.set(at.DisplayAspectRatioAttribute.qn, val(AR))
        et.SubElement(e, IC.q(IC.NS_TT, "body"))
        doc, exc, logs = IC.read_tree(copy.deepcopy(e))
        attrs = "[" + ";".join(f"({lit.qn(k)},{C.text(v)})" for k, v in e.attrib.items()) + "]"
        if exc is not None or doc is None:
            qdefs.append((i, f"Definition m{i} := false.\n")); qinfo.append((dict(e.attrib), exc)); continue
        cr = doc.get_cell_resolution(); px = at.ExtentAttribute.extract(e); aa = doc.get_active_area(); dar = doc.get_display_aspect_ratio()
        if (px is None) != (doc.get_px_resolution() == type(doc.get_px_resolution())(1920, 1080)) and not (px is not None and (px.width, px.height) == (1920, 1080)):
            qdefs.append((i, f"Definition m{i} := false.\n")); qinfo.append((dict(e.attrib), "tts:extent on tt is not what the document got")); continue
        pair = lambda a, b: f"({C.z(a)},{C.z(b)})"
        d = (f"Definition m{i} := case_tt_params {attrs} {pair(cr.columns, cr.rows)} {C.opt(px, lambda p_: pair(p_.width, p_.height))} "
             + C.opt(aa, lambda a: "(" + ",".join(C.q(F(x)) for x in (a.left_offset, a.top_offset, a.width, a.height)) + ")") + " " + C.opt(dar, lambda x: C.q(F(x))) + ".\n")
        qdefs.append((i, d)); qinfo.append((dict(e.attrib), None))
    qfiles = write_shards("Cases_C04_ttp_", qdefs, lambda idx: ["Eval vm_compute in check_all [" + ";".join(f"m{i}" for i in idx) + "]."])
    (qm_bad,), qbroken = run_shards(qfiles, 1)
    q_exc = [i for i in range(nttp) if qinfo[i][1] is not None]
    run.log(f"tt parameters: {nttp} attribute sets (cell resolution, pixel extent, active area, aspect ratios; {sum(1 for x in qinfo if any(v in CELL[1] + EXT[1] + AA[1] + AR[1] for v in x[0].values()))} with a malformed value), "
            f"M/code mismatches {len(qm_bad)}, reader exceptions {len(q_exc)}")
    for i in q_exc[:2]:
        run.violation(f"document parameters {qinfo[i][0]} on tt: the reader raises {qinfo[i][1]}", dict(kind="S-on-code", attributes=qinfo[i][0], reader_exception=str(qinfo[i][1])))

    # ---------------------------------------------------------------- colour expressions: M = code, S (Spec/TtmlColorSpec.v) on the code
    from ttconv.utils import parse_color
    ncol = 40000 if thorough else 4000
    cdefs = []; cinfo = []; col_exc = []
    cg = IC.ColorGen(rng)
    for i in range(ncol):
        tree, st, cats = cg.sample()
        try:
            v = parse_color(st); comps = tuple(v.components)
            if len(comps) != 4 or not all(type(x) is int for x in comps): raise TypeError(f"components {comps!r}")
            got = "(Some (" + ",".join(C.z(x) for x in comps) + "))"; gk = "accepted"
        except ValueError:
            got = "None"; gk = "rejected"
        except Exception as ex:
            col_exc.append((st, f"{type(ex).__name__}: {ex}")); continue
        ing = IC.color_in_grammar(st)
        d = f"Definition m{i} := case_color {C.text(st)} {got}.\n"
        # S: a tree of the grammar must be read as the colour it denotes (judged in Coq); a string that the independent recogniser puts
        # outside the grammar must be rejected; (a mutation that lands in the grammar: no claim here beyond M = code)
        outside_ok = C.boolean(gk == "rejected" or ing)
        if tree is not None: d += f"Definition s{i} := case_color_tree {tree} {C.text(st)} {got} && {outside_ok}.\nDefinition w{i} := Bool.eqb (color_tree_wf {tree}) {C.boolean(ing)}.\n"
        else: d += f"Definition s{i} := {outside_ok}.\nDefinition w{i} := true.\n"
        cdefs.append((i, d)); cinfo.append((st, gk, ing, tree is not None, cats))
    ci = {i: x for (i, _), x in zip(cdefs, cinfo)}
    cl = lambda idx: ["Eval vm_compute in check_all [" + ";".join(f"m{i}" for i in idx) + "].",
                      "Eval vm_compute in check_all [" + ";".join(f"s{i}" for i in idx) + "].",
                      "Eval vm_compute in check_all [" + ";".join(f"w{i}" for i in idx) + "]."]
    cfiles = write_shards("Cases_C04_col_", cdefs, cl)
    (cm_bad, cs_bad, cw_bad), cbroken = run_shards(cfiles, 3)
    col_cats = {}
    for x in cinfo:
        for k in x[4]: col_cats[k] = col_cats.get(k, 0) + 1
    run.log(f"colour expressions: {len(cdefs)} strings ({sum(1 for x in cinfo if x[1] == 'accepted')} accepted, {sum(1 for x in cinfo if x[3])} yields of derivation trees, "
            f"{sum(1 for x in cinfo if not x[2])} outside the grammar), M/code mismatches {len(cm_bad)}, S failures {len(cs_bad)}, "
            f"trees on which the Coq grammar and the harness recogniser differ {len(cw_bad)}, other exceptions {len(col_exc)}; shapes: {dict(sorted(col_cats.items()))}")
    for i in cs_bad[:2]:
        st, gk, ing, _, cats = ci[i]
        run.violation(f"colour value {st[:80]!r} is {gk}, the TTML <color> grammar (Spec/TtmlColorSpec.v) says otherwise",
                      dict(kind="S-on-code", color=st, outcome=gk, in_grammar=ing, shapes=sorted(cats)))
    for st, ex in col_exc[:2]:
        run.violation(f"parse_color({st[:80]!r}) raises {ex}", dict(kind="S-on-code", color=st, exception=ex))

    # ---------------------------------------------------------------- transparency stream: the code on x and on strip x
    tr_docs = [d[0] for d in docs if "non-content" in d[3]] + [x["doc"] for x in sinfo if "non-content" in x["flags"]]
    tr_docs += [d[0] for d in docs[:40]]                              # the bundled files and a few documents without such children
    tr_bad = []; tr_done = 0; tr_changed = 0
    for tt in tr_docs:
        st = strip_tree(tt)
        da, ea, _ = IC.read_tree(copy.deepcopy(tt)); db, eb, _ = IC.read_tree(copy.deepcopy(st))
        tr_done += 1
        if xml_text(st) != xml_text(tt): tr_changed += 1
        if ea is not None or eb is not None or da is None or db is None:
            if (ea, da is None) != (eb, db is None): tr_bad.append((tt, st, f"outcomes {ea or ('no document' if da is None else 'document')} / {eb or ('no document' if db is None else 'document')}"))
            continue
        if fuse_doc(dump_doc(da)) != fuse_doc(dump_doc(db)): tr_bad.append((tt, st, "the documents read differ by more than the split of adjacent anonymous spans"))
    run.log(f"transparency stream: {tr_done} documents read with and without their non-content children ({tr_changed} changed by the removal, {sum(1 for x in sinfo if 'seq-region-nested-style' in x['flags'] and 'non-content' in x['flags'])} of them with a seq region whose nested styles follow a child that never ends), failures {len(tr_bad)}")
    for tt, st, why in tr_bad[:2]:
        run.violation("children that are no content elements are not transparent: " + why,
                      dict(kind="S-on-code", clause="C04_noncontent_children_transparent on the code", document=xml_text(tt), stripped=xml_text(st), detail=why))

    # ---------------------------------------------------------------- corrupt stream
    ncor = 6000 if thorough else 500
    cor_fail = {}; cor_unlisted = []; ncor_done = 0; cor_classes = {}; cor_unreached = 0
    pool = [(d[0], "non-content" in d[3]) for d in docs if corruptible(d[0])] + [(x["doc"], "non-content" in x["flags"]) for x in sinfo if x["exc"] is None and corruptible(x["doc"])]
    cor_nc = 0
    for it in range(ncor):
        tt, has_nc = rng.choice(pool)
        unknown = it % 6 == 5
        if unknown:
            # an attribute the reader does not know: the meaning must not change (and it should be reported)
            path = rng.choice(all_paths(tt)); bad = rng.choice(["x", "", "1s", "none"])
            name = rng.choice([IC.q(IC.NS_TTS, "bogus"), IC.q(IC.NS_TTP, "bogus"), IC.q("urn:example:foreign", "begin"), "bogus", IC.q(IC.NS_XML, "base"),
                               IC.q(IC.NS_TTP, "contentProfiles")])
            if name in at_path(tt, path).attrib: continue
            a = copy.deepcopy(tt); at_path(a, path).set(name, bad); b = copy.deepcopy(tt)
        else:
            path, name = rng.choice(corruptible(tt))
            bad = rng.choice(palette(at_path(tt, path), name))
            a = copy.deepcopy(tt); at_path(a, path).set(name, bad)
            b = copy.deepcopy(tt); del at_path(b, path).attrib[name]
        da, ea, la = IC.read_tree(a); db, eb, lb = IC.read_tree(b)
        if eb is not None or db is None: continue       # the base document itself hits a finding; judged by the document stream
        ncor_done += 1; cor_nc += has_nc
        cls = "unknown" if unknown else name.split("}")[-1]
        cor_classes[cls] = cor_classes.get(cls, 0) + 1
        same = ea is None and da is not None and dump_doc(da) == dump_doc(db)
        logged = len(la) > len(lb)
        if same and logged: continue
        if same and not unknown and path != []:                       # not the root (a misplaced tt:tt inside the content is no root)
            # is the element read at all?  (children of a sequential container after a child that never ends, descendants of an element
            # the reader skips, ... are not: nothing is to be reported for them)  Probe: a malformed begin (end) on it must be reported.
            pr = copy.deepcopy(b); at_path(pr, path).set("end" if name == "begin" else "begin", "!")
            dp, ep, lp = IC.read_tree(pr)
            if ep is None and len(lp) <= len(lb):
                cor_unreached += 1; continue
        on_tt = path == []
        if unknown: fid = "unknown-attribute-not-logged" if same else None
        else: fid = classify_corrupt(name, on_tt, ea, same, logged, bad)
        info = dict(attribute=name, value=bad, element=str(at_path(tt, path).tag), exception=ea, same_as_removed=same, logged=logged, document=xml_text(a))
        if fid is None: cor_unlisted.append(info)
        else: cor_fail.setdefault(fid, []).append(info)
    for fid, infos in sorted(cor_fail.items()):
        if not run.known(fid, f"{len(infos)} corrupted attributes, e.g. {infos[0]['attribute'].split('}')[-1]}={infos[0]['value']!r}"):
            cor_unlisted += infos
    run.log(f"corrupt stream: {ncor_done} single-attribute corruptions ({cor_nc} in documents with non-content children, {cor_unreached} on elements the reader does not reach), failures by finding { {k: len(v) for k, v in cor_fail.items()} }, unlisted {len(cor_unlisted)}")
    for info in cor_unlisted[:3]:
        run.violation(f"malformed {info['attribute'].split('}')[-1]}={info['value']!r} on {str(info['element']).split('}')[-1]}: "
                      + (f"the reader raises {info['exception']}" if info["exception"] else
                         ("the result differs from the document without the attribute" if not info["same_as_removed"] else "no log record is emitted")),
                      dict(kind="S-on-code", clause="malformed attributes are ignored and reported", **info))

    C.clean_cases("Cases_C04_")
    # ---------------------------------------------------------------- recorded findings: Findings/C04.v must compile
    rc, out = C.coqc(C.COQ + "/Findings/C04.v", 600)
    if rc != 0: run.cov["stale_findings"] = ["coq/Findings/C04.v no longer compiles: " + out[-300:]]

    # ---------------------------------------------------------------- broken ties
    all_broken = broken + tbroken + pbroken + sbroken + qbroken + cbroken
    qm_only = [i for i in qm_bad if qinfo[i][1] is None]
    n_mism = len(m_bad) + len(tm_bad) + len(pm_bad) + len(sm_bad) + len(qm_only) + len(cm_bad) + len(cw_bad)
    s_fail_found = bool(unlisted or other_ts or p_unlisted or cor_unlisted or s_unlisted or q_exc or cs_bad or col_exc or tr_bad)
    if (n_mism or all_broken or not proofs_ok) and not s_fail_found:
        what = []
        if not proofs_ok: what.append("theorems of coq/Properties/C04.v no longer check: " + getattr(run, "proof_log", "")[-600:])
        if m_bad: what.append(f"Model/ImscTiming.v read_tt disagrees with imsc.reader.to_model on {len(m_bad)} documents, first #{m_bad[0]}")
        if tm_bad: what.append(f"Model/ImscTime.v parse_time_x disagrees with parse_time_expression on {len(tm_bad)} strings, first {tinfo[tm_bad[0]][:3]}")
        if sm_bad: what.append(f"Model/ImscTiming.v / ImscStyles.v read_tt disagrees with the reader on {len(sm_bad)} style documents, first #{sm_bad[0]}: {xml_text(sinfo[sm_bad[0]]['doc'])[:800]}")
        if qm_only: what.append(f"Model/ImscParams.v disagrees with the reader on {len(qm_only)} sets of tt parameters, first {qinfo[qm_only[0]][0]}")
        if cm_bad: what.append(f"Model/ImscWrite.v parse_color disagrees with ttconv.utils.parse_color on {len(cm_bad)} strings, first {ci[cm_bad[0]][0][:120]!r} ({ci[cm_bad[0]][1]} by the code)")
        if cw_bad: what.append(f"Spec/TtmlColorSpec.v wf_color and the harness recogniser color_in_grammar differ on {len(cw_bad)} derivation trees, first yield {ci[cw_bad[0]][0][:120]!r}")
        if pm_bad: what.append(f"Model/ImscTime.v extract_frame_rate/extract_tick_rate disagree on {len(pm_bad)} attribute sets, first {pinfo[pm_bad[0]][0]}")
        if all_broken: what.append(f"case files did not evaluate: {all_broken[0]}")
        run.violation("; ".join(what), dict(kind="broken-tie", theorem_file="coq/Properties/C04.v", proofs_ok=proofs_ok,
                                            first_document=xml_text(docs[m_bad[0]][0]) if m_bad else None,
                                            first_time=[str(x) for x in tinfo[tm_bad[0]]] if tm_bad else None), found_input=False)

    # ---------------------------------------------------------------- coverage
    sizes = [sum(1 for _ in d[0].iter()) for d in docs]
    depth = lambda e: 1 + max([depth(c) for c in e] or [0])
    changes = sum(1 for r in recs for (a, b) in zip(r["obs"], r["obs"][1:]) if a[1] != b[1])
    nonempty = sum(1 for r in recs for o in r["obs"] if o[1])
    run.cov.update(evaluations=len(docs) + n_obs + nsty + ntime + npar + 2 * ncor_done + len(cdefs), style_documents=nsty,
                   distinct_nontrivial=changes + sum(1 for x in tinfo if x[3] == "val") + ncor_done,
                   rule="documents: grammar-generated TTML (every element kind incl. ruby, begin/end/dur in the 8 time-expression syntaxes under random "
                        "ttp:frameRate / frameRateMultiplier / tickRate, par and seq containers nested to depth >= 4, set, timed regions, mixed content, "
                        "xml:space / xml:lang, region references; in about a third of them children that are no content elements - metadata, foreign and unknown "
                        "elements, comments, processing instructions - with tail text, anywhere) plus the bundled .ttml files; each is read by the code, dumped, and observed through "
                        "ISD.from_model at every boundary, midpoint and beyond. distinct_nontrivial = snapshots whose text differs from the previous probe "
                        "+ time strings with a value + single-attribute corruptions.",
                   samples=[dict(document=xml_text(docs[min(len(docs) - 1, 7)][0])[:600]), dict(time_expression=tinfo[0][0])],
                   documents=len(docs), snapshots=n_obs, snapshots_nonempty=nonempty, snapshot_changes=changes,
                   element_count_histogram={str(k): sum(1 for s in sizes if k <= s < k * 2) for k in (1, 2, 4, 8, 16, 32, 64, 128)},
                   max_depth=max(depth(d[0]) for d in docs), seq_documents=sum(1 for d in docs if any(e.get("timeContainer") == "seq" for e in d[0].iter())),
                   reader_exceptions={k: sum(1 for r in recs if r["exc"] == k) for k in {r["exc"] for r in recs if r["exc"]}},
                   time_strings=ntime, time_outcomes={k: sum(1 for x in tinfo if x[3] == k) for k in ("val", "bad", "zero")},
                   color_strings=len(cdefs), color_outcomes={k: sum(1 for x in cinfo if x[1] == k) for k in ("accepted", "rejected")}, color_shapes=dict(sorted(col_cats.items())),
                   parameter_sets=npar, tt_parameter_sets=nttp, corruptions=ncor_done, corruptions_by_attribute=cor_classes, corrupt_failures={k: len(v) for k, v in cor_fail.items()},
                   model_code_mismatches=n_mism, s_failures_on_code=len(s_bad),
                   noncontent_children=dict(timing_documents=nc_docs, of_generated=n_generated, with_tail_text=nc_tail_docs, distribution=nc_total,
                                            style_documents=snc_docs, of_style_documents=nsty, style_distribution=snc_total,
                                            corrupt_pool_documents=sum(1 for d in pool if d[1]), corruptions_in_such_documents=cor_nc,
                                            transparency_documents=tr_done, transparency_changed=tr_changed, transparency_failures=len(tr_bad)))
    run.assumptions += ["XML parsing (expat / ElementTree) is outside the model: M and S start from the ElementTree structure",
                        "time-attribute strings are valued by S through the table of abstract expressions they were printed from (Coq re-prints and compares each)",
                        "style attribute values in the timing documents are well-formed; value syntax is checked by the style cases",
                        "probe times come from a Python mirror of the specification's interval function and from ISD.significant_times"]
    return run.finish(["harness/gen_c04.py (table translator, fail-closed)", "harness/imsc_common.py (ElementTree -> literal printer, generator)"])


if __name__ == "__main__":
    sys.exit(main())
