"""C18 execution core: run one input through a real ttconv reader and, if a document comes back, through the whole
downstream pipeline (significant times, snapshots at and between them, ISD sequence, LCD filter, the three writers under
several configurations), classify every outcome, and describe every failure by its exception type and traceback site.

Used by harness/c18.py (in a process pool) and harness/witnesses_c18.py.  Nothing here touches /repo: the two cue-text
parsers are observed through subclasses / wrappers installed in this process only.
"""
import io, os, signal, struct, sys, traceback, logging
from fractions import Fraction

FORMAT_KINDS = ("XmlParseError", "ValueError", "StructError", "UnicodeDecodeError")
INTERNAL_NAMED = ("AttributeError", "TypeError", "IndexError", "KeyError", "UnboundLocalError", "AssertionError", "RecursionError")


class InputTimeout(BaseException):
    pass


class XmlInputError(Exception):
    """anything the XML layer (xml.etree / expat, called by tt.py before the IMSC reader) raises on the bytes of the file"""


def _alarm(signum, frame):
    raise InputTimeout()


def exc_class(e):
    """exception -> ('format' | 'internal', canonical name)"""
    import xml.etree.ElementTree as et
    if isinstance(e, InputTimeout): return "internal", "Timeout"
    if isinstance(e, XmlInputError): return "format", "XmlParseError"
    if isinstance(e, et.ParseError): return "format", "XmlParseError"
    if isinstance(e, UnicodeDecodeError): return "format", "UnicodeDecodeError"
    if isinstance(e, struct.error): return "format", "StructError"
    if isinstance(e, ValueError): return "format", "ValueError"
    n = type(e).__name__
    return "internal", n


def exc_site(e, depth=5):
    """innermost-first list of 'file.py:function' frames inside the ttconv package (harness frames dropped)"""
    fr = []
    tb = e.__traceback__
    while tb is not None:
        co = tb.tb_frame.f_code
        p = co.co_filename.replace("\\", "/")
        if "/ttconv/" in p: fr.append(p.split("/ttconv/")[-1] + ":" + getattr(co, "co_qualname", co.co_name).replace(".<locals>", ""))
        tb = tb.tb_next
    fr.reverse()
    out = []
    for x in fr:                       # collapse recursion: a frame repeated consecutively is kept once
        if not out or out[-1] != x: out.append(x)
    # collapse 2-cycles of mutual recursion (from_xml <- process <- from_xml ...)
    i = 0; res = []
    while i < len(out):
        if len(res) >= 2 and i + 1 < len(out) and out[i] == res[-2] and out[i + 1] == res[-1]:
            i += 2; continue
        res.append(out[i]); i += 1
    return "<-".join(res[:depth]) if res else "(outside ttconv)"


def describe(e):
    kind, name = exc_class(e)
    return dict(kind=kind, type=name, site=exc_site(e), msg=str(e)[:160])


# ------------------------------------------------------------------------------------------ configurations
SCC_CFGS = [None, "auto", "left", "center", "right"]
STL_CFGS = [None,
            dict(program_start_tc="TCP"),
            dict(max_row_count="MNR"),
            dict(program_start_tc="TCP", max_row_count="MNR", disable_fill_line_gap=True),
            dict(program_start_tc="00:00:00:00", max_row_count=11, disable_line_padding=True),
            dict(program_start_tc="10:00:00:00", font_stack=("Arial", "monospace")),
            dict(program_start_tc="01:00:00;00", max_row_count=99, disable_fill_line_gap=True, disable_line_padding=True),
            dict(max_row_count=23, font_stack=()),
            dict(max_row_count=0), dict(max_row_count=-5, program_start_tc="TCP")]
READER_CFGS = {"imsc": [None], "srt": [None], "vtt": [None], "scc": SCC_CFGS, "stl": STL_CFGS}

SRT_W = [None, dict(text_formatting=True), dict(text_formatting=False)]
VTT_W = [None] + [dict(line_position=a, text_align=b, cue_id=c) for a in (False, True) for b in (False, True) for c in (False, True)]
IMSC_W = [None, dict(), dict(time_format="clock_time"), dict(time_format="frames", fps=(25, 1)), dict(time_format="frames", fps=(30000, 1001)),
          dict(time_format="clock_time_with_frames", fps=(30, 1)), dict(fps=(24, 1)), dict(time_format="clock_time", fps=(50, 1))]
LCD_CFGS = [dict(), dict(safe_area=0, preserve_text_align=True), dict(safe_area=30, color="red", bg_color="#0000ff80"),
            dict(bg_color="black"), dict(color="#ffffff", preserve_text_align=True, safe_area=5)]


def reader_config(fmt, cfg):
    if cfg is None: return None
    if fmt == "scc":
        from ttconv.scc.config import SccReaderConfiguration, TextAlignment
        return SccReaderConfiguration(text_align=TextAlignment.from_value(cfg))
    if fmt == "stl":
        from ttconv.stl.config import STLReaderConfiguration
        return STLReaderConfiguration(**cfg)
    return None


def read(fmt, data, cfg=None):
    """what `tt convert` does to get from the bytes of the input file to a document"""
    if fmt == "imsc":
        import xml.etree.ElementTree as et, ttconv.imsc.reader as r
        try:
            tree = et.parse(io.BytesIO(data))
        except (RecursionError, MemoryError, InputTimeout):
            raise
        except Exception as e:          # ParseError; LookupError for an unknown encoding name; ValueError for a NUL in it ...
            raise XmlInputError(f"{type(e).__name__}: {e}") from None
        return r.to_model(tree)
    if fmt == "scc":
        import ttconv.scc.reader as r
        return r.to_model(io.TextIOWrapper(io.BytesIO(data), encoding="utf-8").read(), reader_config(fmt, cfg))
    if fmt == "stl":
        import ttconv.stl.reader as r
        return r.to_model(io.BytesIO(data), reader_config(fmt, cfg))
    if fmt == "srt":
        import ttconv.srt.reader as r
        return r.to_model(io.TextIOWrapper(io.BytesIO(data), encoding="utf-8"))
    if fmt == "vtt":
        import ttconv.vtt.reader as r
        return r.to_model(io.TextIOWrapper(io.BytesIO(data), encoding="utf-8"))
    raise KeyError(fmt)


# ------------------------------------------------------------------------------------------ observation of the cue-text parsers
TRACE = None      # list collecting per-cue records while a read is being observed


def install_observers():
    """record, for every cue the SRT / WebVTT readers hand to their text parsers: whether the paragraph is attached, the
    callback / token sequence, and how the parse ended.  Observation only: every call is forwarded unchanged."""
    import ttconv.srt.reader as sr, ttconv.vtt.reader as vr, ttconv.model as model
    from ttconv.vtt.tokenizer import StartTagToken, EndTagToken, StringToken, TimestampTagToken
    if getattr(sr, "_c18_observed", False): return
    base = sr._TextParser

    class Obs(base):
        def __init__(self, paragraph, line_number):
            self._rec = dict(attached=(paragraph is not None and paragraph.parent() is not None), p_none=paragraph is None, ev=[], end="open")
            if TRACE is not None: TRACE.append(self._rec)
            super().__init__(paragraph, line_number)
        def handle_starttag(self, tag, attrs):
            t = tag.lower(); k = "plain"
            if t == "font":
                k = "font-nocolor"           # the first color attribute that has a value counts (a valueless one is skipped)
                for a in attrs:
                    if a[0] == "color":
                        if a[1] is None: k = "font-color-none"; continue
                        k = "font-color"; break
            self._rec["ev"].append(("S", k, tag))
            try:
                return super().handle_starttag(tag, attrs)
            except ValueError:
                self._rec["ev"][-1] = ("S", "font-color-bad", tag); raise
        def handle_endtag(self, tag):
            self._rec["ev"].append(("E", "", tag)); return super().handle_endtag(tag)
        def handle_data(self, data):
            self._rec["ev"].append(("D", str(data.count("\n")))); return super().handle_data(data)
        def feed(self, data):
            try:
                r = super().feed(data)
            except BaseException as e:
                self._rec["end"] = exc_class(e)[1]; raise
            return r
        def close(self):
            try:
                r = super().close()
            except BaseException as e:
                self._rec["end"] = exc_class(e)[1]; raise
            self._rec["end"] = "ok"; return r
    sr._TextParser = Obs

    orig = vr._parse_cue_text
    def parse_cue_text(cue_text, paragraph, line_number):
        rec = dict(attached=(paragraph is not None and paragraph.parent() is not None), p_none=paragraph is None, ev=[], end="open",
                   text=cue_text)         # the cue text as the reader hands it over: input of the C11 model of this parser (guards18.cue_text_predictions)
        if TRACE is not None: TRACE.append(rec)
        parser = vr._TextCueParser(paragraph, line_number)
        try:
            for token in vr.CueTextTokenizer(cue_text):
                if isinstance(token, StartTagToken):
                    t = token.tag.lower()
                    rec["ev"].append(("S", "ruby" if t.startswith("ruby") else "rt" if t.startswith("rt") else "span", t))
                elif isinstance(token, EndTagToken): rec["ev"].append(("E", "", token.tag.lower()))
                elif isinstance(token, StringToken): rec["ev"].append(("D", str(token.value.count("\n"))))
                elif isinstance(token, TimestampTagToken): rec["ev"].append(("T", ""))
                else: rec["ev"].append(("?", type(token).__name__))
                parser.handle_token(token)
        except BaseException as e:
            rec["end"] = exc_class(e)[1]; raise
        rec["end"] = "ok"
    parse_cue_text._c18_orig = orig
    vr._parse_cue_text = parse_cue_text

    # SccLine.process and stl tf.to_model: one record per invocation
    import ttconv.scc.line as sl, ttconv.stl.tf as tf
    def wrap(f):
        def g(*a, **kw):
            rec = dict(end="open")
            if TRACE is not None: TRACE.append(rec)
            try:
                r = f(*a, **kw)
            except BaseException as e:
                rec["end"] = exc_class(e)[1]; raise
            rec["end"] = "ok"; return r
        return g
    sl.SccLine.process = wrap(sl.SccLine.process)
    tf.to_model = wrap(tf.to_model)
    sr._c18_observed = True


# ------------------------------------------------------------------------------------------ the downstream pipeline
def _lcd_config(c):
    from ttconv.filters.doc.lcd import LCDDocFilterConfig
    import ttconv.utils as u
    kw = dict(c)
    for k in ("color", "bg_color"):
        if k in kw: kw[k] = u.parse_color(kw[k])
    return LCDDocFilterConfig(**kw)

def _imsc_config(c):
    if c is None: return None
    from ttconv.imsc.config import IMSCWriterConfiguration
    from ttconv.imsc.attributes import TimeExpressionSyntaxEnum
    kw = {}
    if "time_format" in c: kw["time_format"] = TimeExpressionSyntaxEnum[c["time_format"]]
    if "fps" in c: kw["fps"] = Fraction(*c["fps"])
    return IMSCWriterConfiguration(**kw)

# ------------------------------------------------------------------------------------------ predicates on the input of the recorded findings
LWSP = " \t\r\n"

def ruby_child_prunable(doc):
    """finding ruby-inactive-annotation, evaluated on the document the reader returned: some child of a Ruby or Rtc element can be left
    out of a snapshot -- it (or everything it holds) has a begin or an end, an animation step, a region of its own or tts:display none, holds
    only white space, or is childless (a childless element is pruned when its region is not the selected one); or the ruby element is in no
    region while the document has regions (then the text of its children is pruned in every snapshot).  A necessary condition
    of the failure, not the failure itself: a ruby element all of whose children are unconditional never loses a child.
    Iterative (documents of the depth stream nest thousands of elements)."""
    import ttconv.model as M, ttconv.style_properties as S
    body = doc.get_body()
    if body is None: return False
    def cond(e):
        if e.get_begin() is not None or e.get_end() is not None or e.get_region() is not None: return True
        if next(iter(e.iter_animation_steps()), None) is not None: return True
        return e.get_style(S.StyleProperties.Display) is S.DisplayType.none
    memo = {}
    def prunable(root):
        stack = [(root, False)]
        while stack:
            e, done = stack.pop()
            if id(e) in memo: continue
            if isinstance(e, M.Text): memo[id(e)] = all(c in LWSP for c in e.get_text()); continue
            if isinstance(e, M.Br): memo[id(e)] = False; continue
            if cond(e): memo[id(e)] = True; continue
            kids = list(e)
            if isinstance(e, (M.Rb, M.Rbc)): memo[id(e)] = not kids; continue
            if done: memo[id(e)] = all(memo[id(k)] for k in kids)
            else:
                stack.append((e, True)); stack.extend((k, False) for k in kids)
        return memo[id(root)]
    has_regions = next(iter(doc.iter_regions()), None) is not None
    todo = [(body, body.get_region())]
    while todo:
        e, region = todo.pop()
        if isinstance(e, M.Text): continue
        kids = list(e)
        if isinstance(e, (M.Ruby, M.Rtc)):
            if any(prunable(k) for k in kids): return True
            # content that is in no region at all: every snapshot of a region prunes its childless descendants (the text), hence its rt
            if has_regions and region is None: return True
        todo.extend((k, k.get_region() if not isinstance(k, M.Text) and k.get_region() is not None else region) for k in kids)
    return False

def clock_ms(t):
    """the millisecond ClockTime.from_seconds(t) holds: round(t, 3) is exact round-half-even on a Fraction"""
    return round(Fraction(t) * 1000)

def clock_float(ms):
    """ClockTime.to_seconds(): hours * 3600 + minutes * 60 + seconds (an exact int) + milliseconds / 1000.0"""
    return (ms // 1000) + (ms % 1000) / 1000.0

def same_millisecond(sig):
    """finding cue-shorter-than-a-millisecond, evaluated on the significant times of the document that is written: two neighbours a < b
    whose time codes do not compare as begin < end -- 'ms': they round to the same millisecond; 'float': the milliseconds differ but
    to_seconds() returns the same float (times beyond 2^53 ms).  None: every interval keeps begin < end."""
    kind = None
    # the last interval is unbounded: the writers give its cue the default end "begin + 10 s", computed on floats
    # (cue.set_end(cue.get_begin().to_seconds() + 10.0)): beyond 2^53 s the sum is the begin itself and the cue collapses too
    pairs = list(zip(sig, sig[1:]))
    if sig: pairs.append((sig[-1], sig[-1] + 10))
    for a, b in pairs:
        ma, mb = clock_ms(a), clock_ms(b)
        if ma >= mb: return "ms"
        try:
            if clock_float(ma) >= clock_float(mb): kind = "float"
        except OverflowError:
            pass                          # that is finding writer-time-overflow
    return kind

def time_beyond_float(sig, doc):
    """finding writer-time-overflow: a time of the document is so large that a writer's conversion to float (of the time itself, of the time
    in frames, hours or milliseconds) overflows.  Necessary condition evaluated on the input: the largest significant time is above
    1e290 s, or some begin / end / animation-step time of the document is (float max is 1.8e308; the writers multiply by at most the frame
    rate x 1000)."""
    if sig and max(sig) > 10 ** 290: return True
    # the IMSC writer prints the begin / end of EVERY element, region and animation step as they stand in the model, also those that
    # never become significant times (clipped by an ancestor's end, on an element that is never active)
    import ttconv.model as M
    todo = list(doc.iter_regions()) + ([doc.get_body()] if doc.get_body() is not None else [])
    while todo:
        e = todo.pop()
        if isinstance(e, M.Text): continue
        ts = [e.get_begin(), e.get_end()] + [x for a in e.iter_animation_steps() for x in (a.begin, a.end)]
        if any(t is not None and abs(t) > 10 ** 290 for t in ts): return True
        todo.extend(e)
    return False

def time_digits_beyond_int_str(sig):
    """finding writer-time-int-digits: a time so large that its frame count has more decimal digits than str(int) converts (4300 by default).
    Necessary condition on the input: the largest significant time has more than 14000 bits (about 4214 digits; the frame rates of the writer
    configurations and the factor 3600 add fewer than 10 digits)."""
    return bool(sig) and int(max(sig)).bit_length() > 14000

def raw_times(doc):
    """every begin / end / animation-step time that stands in the model (the IMSC writer prints them all)"""
    import ttconv.model as M
    out = []
    todo = list(doc.iter_regions()) + ([doc.get_body()] if doc.get_body() is not None else [])
    while todo:
        e = todo.pop()
        if isinstance(e, M.Text): continue
        out.extend(t for t in [e.get_begin(), e.get_end()] + [x for a in e.iter_animation_steps() for x in (a.begin, a.end)] if t is not None)
        todo.extend(e)
    return out

def input_predicates(doc, sig):
    """-> dict stamped on every downstream failure of this document (harness/c18.py FINDINGS consults it)"""
    out = {}
    for name, f in (("ruby_prunable", lambda: ruby_child_prunable(doc)), ("same_ms", lambda: same_millisecond(list(sig)) if sig is not None else None),
                    ("big_time", lambda: time_beyond_float(list(sig), doc) if sig is not None else None),
                    ("huge_time", lambda: time_digits_beyond_int_str(list(sig) + [abs(t) for t in raw_times(doc)]) if sig is not None else None)):
        try: out[name] = f()
        except InputTimeout: raise
        except BaseException as e: out[name] = f"predicate failed: {type(e).__name__}: {e}"[:120]   # fails closed: a string is not a recognised value
    return out


def probe_times(sig, rnd, cap=14):
    """the significant times, the midpoints between neighbours, one time before the first and one after the last"""
    ts = list(sig)
    mids = [(a + b) / 2 for a, b in zip(ts, ts[1:])]
    extra = [Fraction(0)] + ([ts[-1] + 1, ts[-1] + Fraction(1, 1000)] if ts else []) + ([ts[0] / 2] if ts and ts[0] > 0 else [])
    allt = ts + mids + extra
    if len(allt) > cap:
        keep = [allt[i] for i in sorted(rnd.sample(range(len(allt)), cap - 2))] + [ts[0], ts[-1]]
        allt = keep
    return allt

def pipeline(doc, reread, rnd, fails, stats, full=False):
    """every stage appends dict(stage=..., kind/type/site/msg) to `fails` on any exception"""
    from ttconv.isd import ISD
    import ttconv.srt.writer as sw, ttconv.vtt.writer as vw, ttconv.imsc.writer as iw
    from ttconv.srt.config import SRTWriterConfiguration
    from ttconv.vtt.config import VTTWriterConfiguration
    from ttconv.filters.doc.lcd import LCDDocFilter

    ctx = dict(pred={})                 # predicates on the document the current stage works on (the read one, or the LCD-filtered one)
    def stage(name, f):
        try:
            return True, f()
        except InputTimeout:
            raise
        except BaseException as e:      # noqa: any exception downstream of a returned document is a failure
            d = describe(e); d["stage"] = name; d["pred"] = ctx["pred"]; fails.append(d); return False, None

    ctx["pred"] = input_predicates(doc, None)
    ok, sig = stage("sig_times", lambda: ISD.significant_times(doc))
    times = probe_times(sig, rnd) if ok else [Fraction(0), Fraction(1), Fraction(5, 2)]
    stats["sig"] = len(sig) if ok else -1
    ctx["pred"] = input_predicates(doc, sig if ok else None)
    stats["pred"] = {k: v for k, v in ctx["pred"].items() if v}
    seen = set()
    for t in times:
        try:
            ISD.from_model(doc, t)
        except InputTimeout:
            raise
        except BaseException as e:
            d = describe(e); d["stage"] = "isd"; d["t"] = str(t); d["pred"] = ctx["pred"]
            if (d["type"], d["site"]) not in seen:
                seen.add((d["type"], d["site"])); fails.append(d)
    stats["snapshots"] = len(times)
    stage("isd_sequence", lambda: ISD.generate_isd_sequence(doc))

    def writers(d, prefix, srt_cfgs, vtt_cfgs, imsc_cfgs):
        for c in srt_cfgs:
            stage(f"{prefix}srt{c}", lambda: sw.from_model(d, None if c is None else SRTWriterConfiguration(**c)))
        for c in vtt_cfgs:
            stage(f"{prefix}vtt{c}", lambda: vw.from_model(d, None if c is None else VTTWriterConfiguration(**c)))
        for c in imsc_cfgs:
            ok, tree = stage(f"{prefix}imsc{c}", lambda: iw.from_model(d, _imsc_config(c)))
            if ok: stage(f"{prefix}imsc-serialise", lambda: tree.write(io.BytesIO(), encoding="utf-8"))

    if full:
        writers(doc, "", SRT_W, VTT_W, IMSC_W)
        lcds = LCD_CFGS
    else:
        writers(doc, "", [rnd.choice(SRT_W)], [rnd.choice(VTT_W)], rnd.sample(IMSC_W, 2))
        lcds = [rnd.choice(LCD_CFGS)]
    for c in lcds:
        ok, d2 = stage("reread", reread)
        if not ok or d2 is None: continue
        ctx["pred"] = input_predicates(d2, None)
        ok, _ = stage(f"lcd{c}", lambda: LCDDocFilter(_lcd_config(c)).process(d2))
        if not ok: continue
        ctx["pred"] = input_predicates(d2, None)          # the filtered document
        ok, sig2 = stage(f"lcd{c}>isd", lambda: ISD.significant_times(d2))
        if not ok: continue
        ctx["pred"] = input_predicates(d2, sig2)
        def snaps():
            for t in probe_times(sig2, rnd, 6): ISD.from_model(d2, t)
        stage(f"lcd{c}>isd", snaps)
        if full: writers(d2, f"lcd{c}>", SRT_W[:1], VTT_W[:1] + VTT_W[-1:], IMSC_W[:1])
        else:
            w = rnd.randrange(3)
            writers(d2, f"lcd{c}>", SRT_W[:1] if w == 0 else [], VTT_W[-1:] if w == 1 else [], IMSC_W[:1] if w == 2 else [])


def run_input(fmt, data, cfg_index=0, seed=0, time_limit=30, full=False, observe=True):
    """-> dict(outcome='doc'|'none'|'format:<T>'|'internal:<T>', read=<failure description or None>, fails=[...], trace=[...], stats={})"""
    import random
    global TRACE
    logging.disable(logging.CRITICAL)
    rnd = random.Random(seed)
    cfg = READER_CFGS[fmt][cfg_index % len(READER_CFGS[fmt])]
    res = dict(outcome=None, read=None, fails=[], trace=None, stats={})
    if observe and fmt in ("srt", "vtt", "scc", "stl"):
        install_observers(); TRACE = []
    old = signal.signal(signal.SIGALRM, _alarm)
    signal.setitimer(signal.ITIMER_REAL, time_limit)
    try:
        try:
            doc = read(fmt, data, cfg)
        except InputTimeout:
            res["outcome"] = "internal:Timeout"; res["read"] = dict(kind="internal", type="Timeout", site="read", msg=f"> {time_limit}s", stage="read")
            return res
        except BaseException as e:
            d = describe(e); d["stage"] = "read"
            res["outcome"] = d["kind"] + ":" + d["type"]; res["read"] = d
            return res
        finally:
            if TRACE is not None: res["trace"] = TRACE; TRACE = None
        if doc is None:
            res["outcome"] = "none"; return res
        res["outcome"] = "doc"
        try:
            pipeline(doc, lambda: read(fmt, data, cfg), rnd, res["fails"], res["stats"], full)
        except InputTimeout:
            res["fails"].append(dict(kind="internal", type="Timeout", site="pipeline", msg=f"> {time_limit}s", stage="pipeline"))
        return res
    finally:
        signal.setitimer(signal.ITIMER_REAL, 0)
        signal.signal(signal.SIGALRM, old)
        TRACE = None


def failures(res):
    """all failures of a result that the property forbids: an internal outcome of the reader, any exception downstream"""
    out = []
    if res["read"] is not None and res["read"]["kind"] == "internal": out.append(res["read"])
    out += res["fails"]
    return out


def signature(f):
    st = f["stage"]
    st = st.split("{")[0].split("None")[0] if not st.startswith("lcd") else "lcd" + (">" + st.split(">")[1].split("{")[0].split("None")[0] if ">" in st else "")
    return f"{st}|{f['type']}|{f['site']}"


def decode_text(data):
    """the text the SRT / WebVTT / SCC readers see: UTF-8 with universal newlines (raises UnicodeDecodeError like the readers do)"""
    return io.TextIOWrapper(io.BytesIO(data), encoding="utf-8").read()
