"""C06 — SRT/WebVTT cues carry exactly the visible text over exactly its intervals.   (shared with C07: harness/c07.py)

Theorems: coq/Properties/C06.v; refuted statements: coq/Findings/C06.v.
M = coq/Model/IsdFilters.v + coq/Model/CueWriter.v on top of the shared snapshot model (Model/Isd.v, Model/SigTimes.v
`isd_sequence`); S = coq/Spec/CueSpec.v.

Ties, all evaluated inside Coq on generated case files (one document x SRT {text_formatting on, off} x the 8 WebVTT
configurations (line_position, text_align, cue_id)):
  * M = code: the string Model/CueWriter.v computes equals the string srt.writer.from_model / vtt.writer.from_model
    returned (or both fail at the same stage);
  * S on the code (C06): the implementation's output is parsed by the strict cue parser below AND by the Coq
    recognisers of Spec/CueSpec.v; both must find the same (begin, end, payload-without-tags) triples, and these must
    be the cue list `cue_spec` prescribes (Spec/CueSpec.v `cues_ok`);
  * S on the code (C07): srt_wf / vtt_wf accept the output; `runs` of every payload gives each visible character the
    style the snapshot prescribes.
A disagreement with S is a KNOWN-FINDING when a trigger of a listed finding (coq/Model/CueTriggers.v, evaluated in
Coq on the same case) covers it, a VIOLATION otherwise.
"""
import logging, os, random, re, sys, traceback
from concurrent.futures import ProcessPoolExecutor
from fractions import Fraction as F
import common as C
import isdlit as L
import isdcore, gen_tables

HEADER = ("From TT Require Import Model.Doc Gen.StyleTables Model.Isd Model.SigTimes Model.CueWriter Model.CueCases Proofs.C06.Text.\n"
          "Open Scope Z_scope.\n")
VCFG = [(lp, ta, ci) for lp in (False, True) for ta in (False, True) for ci in (False, True)]
CONFIG_NAMES = ["srt text_formatting=True", "srt text_formatting=False"] + \
               [f"vtt line_position={a} text_align={b} cue_id={c}" for a, b, c in VCFG]
TRIGGERS = ["collapsed", "arrow", "blank-line", "snapshot-error", "srt-markup", "reset-style", "align-lost"]
NTRIG = len(TRIGGERS)


# ------------------------------------------------------------------------------------------------ documents
# Self-contained generator (same shape as harness/docgen.py, which other checks own and tune): a replay seed must keep
# giving the same document.
_COLORS = None
def _colors():
    """shared objects only: equal colours are the same object, as with NamedColors in the readers"""
    global _COLORS
    if _COLORS is None:
        import ttconv.style_properties as s
        N = s.NamedColors
        _COLORS = [N.red.value, N.blue.value, s.ColorType((1, 2, 3, 4)), N.transparent.value, N.white.value, N.black.value,
                   N.lime.value, N.yellow.value, N.cyan.value, s.ColorType((255, 255, 255, 128))]
    return _COLORS


def rlen(rng, units):
    import ttconv.style_properties as s
    return s.LengthType(F(rng.randint(0, 40), rng.choice([1, 2, 4])), rng.choice(units))


def rvalue(rng, p):
    """a random valid value of style property p (all 36 properties)"""
    import ttconv.style_properties as s
    U = s.LengthType.Units
    n = p.__name__
    if n in ("BackgroundColor", "Color"): return rng.choice(_colors())
    if n == "Direction": return rng.choice(list(s.DirectionType))
    if n == "Disparity": return rlen(rng, [U.pct, U.px, U.c, U.em, U.rw])
    if n == "Display": return rng.choice([s.DisplayType.auto, s.DisplayType.auto, s.DisplayType.none])
    if n == "DisplayAlign": return rng.choice(list(s.DisplayAlignType))
    if n == "Extent": return s.ExtentType(height=rlen(rng, [U.pct, U.px, U.c, U.rh]), width=rlen(rng, [U.pct, U.px, U.c, U.rw]))
    if n == "FillLineGap": return rng.choice([True, False])
    if n == "FontFamily": return rng.choice([("Arial", s.GenericFontFamilyType.serif), (s.GenericFontFamilyType.monospace,)])
    if n == "FontSize": return rlen(rng, [U.pct, U.px, U.c, U.em, U.rh, U.rw])
    if n == "FontStyle": return rng.choice(list(s.FontStyleType))
    if n == "FontWeight": return rng.choice(list(s.FontWeightType))
    if n == "LineHeight": return rng.choice([s.SpecialValues.normal, rlen(rng, [U.pct, U.px, U.c, U.em, U.rh])])
    if n == "LinePadding": return rlen(rng, [U.c, U.rh, U.rw])
    if n in ("LuminanceGain", "Opacity", "Shear"): return F(rng.randint(0, 4), 4)
    if n == "MultiRowAlign": return rng.choice(list(s.MultiRowAlignType))
    if n == "Origin": return s.CoordinateType(x=rlen(rng, [U.pct, U.px, U.c, U.rw]), y=rlen(rng, [U.pct, U.px, U.c, U.rh]))
    if n == "Overflow": return rng.choice(list(s.OverflowType))
    if n == "Padding": return s.PaddingType(*[rlen(rng, [U.pct, U.px, U.c, U.em, U.rh]) for _ in range(4)])
    if n == "Position":
        return s.PositionType(h_offset=rlen(rng, [U.pct, U.px, U.c, U.rw]), v_offset=rlen(rng, [U.pct, U.px, U.c, U.rh]),
                              h_edge=rng.choice(list(s.PositionType.HEdge)), v_edge=rng.choice(list(s.PositionType.VEdge)))
    if n == "RubyAlign": return rng.choice(list(s.RubyAlignType))
    if n == "RubyPosition": return rng.choice(list(s.AnnotationPositionType))
    if n == "RubyReserve":
        return rng.choice([s.SpecialValues.none, s.RubyReserveType(rng.choice(list(s.RubyReserveType.Position)),
                                                                   rng.choice([None, rlen(rng, [U.pct, U.px, U.c, U.em, U.rh])]))])
    if n == "ShowBackground": return rng.choice(list(s.ShowBackgroundType))
    if n == "TextAlign": return rng.choice(list(s.TextAlignType))
    if n == "TextCombine": return rng.choice(list(s.TextCombineType))
    if n == "TextDecoration": return s.TextDecorationType(*[rng.choice([None, True, False]) for _ in range(3)])
    if n == "TextEmphasis":
        return rng.choice([s.SpecialValues.none, s.TextEmphasisType(rng.choice(list(s.TextEmphasisType.Style)), rng.choice([None] + _colors()),
                                                                    rng.choice(list(s.TextEmphasisType.Position)))])
    if n == "TextOutline": return rng.choice([s.SpecialValues.none, s.TextOutlineType(rlen(rng, [U.pct, U.px, U.c, U.em, U.rh]), rng.choice([None] + _colors()))])
    if n == "TextShadow":
        return rng.choice([s.SpecialValues.none, s.TextShadowType(tuple(
            s.TextShadowType.Shadow(rlen(rng, [U.pct, U.px, U.c, U.em]), rlen(rng, [U.pct, U.px, U.c, U.em]),
                                    rng.choice([None, rlen(rng, [U.px, U.c])]), rng.choice([None] + _colors())) for _ in range(rng.randint(1, 2))))])
    if n == "UnicodeBidi": return rng.choice(list(s.UnicodeBidiType))
    if n == "Visibility": return rng.choice(list(s.VisibilityType))
    if n == "WrapOption": return rng.choice(list(s.WrapOptionType))
    if n == "WritingMode": return rng.choice(list(s.WritingModeType))
    raise KeyError(n)


def rtime(rng, maxv=12, none_p=0.35, minv=0):
    if rng.random() < none_p: return None
    if rng.random() < 0.03: return F(rng.randint(0, 10 ** 4), rng.choice([997, 1001, 30000]))
    d = rng.choice([1, 1, 1, 2, 3])
    return F(rng.randint(minv * d, maxv * d), d)


TEXTS = ["T%d", " T%d ", "  ", " a  b%d", "x%d\n y", "\tq%d", "", "r%d \r\n", " ", "A&B%d", "1<2 %d", "a>b%d", "x --> y%d", "<b>%d",
         "q%d</i>", "caf\u00e9%d", "\u00a0", "\u65e5\u672c%d", "{b}%d", "&amp;%d", "line%d\n\nnext", "\r\nz%d", "w%d\r", "<font color=\"red\">%d",
         "e%d\u3000", "\U0001F600%d", "-->", "a<%d", "<c.red>%d", "&lt;%d", "--%d>"]


class CueGen:
    """Random well-formed documents for the writers: most content visible, several simultaneously active regions with several
    div/p each, nested divs, ruby, both white-space modes, markup-significant text, sub-millisecond and unbounded intervals, the
    style properties the writers read (on every level), region geometry for line positions, animation, display."""
    def __init__(self, rng, styled=0.08, markup=0.25, ruby_p=0.08, style_density=0.02, anim_density=0.006, display_p=0.03,
                 region_ref_p=0.45, timing_p=0.15, subms_p=0.04, nested_p=0.25, end_p=1.0, focus=None):
        self.rng = rng; self.sd = style_density; self.ad = anim_density; self.dp = display_p
        self.end_p = end_p; self.focus = focus
        self.ruby_p = ruby_p; self.rrp = region_ref_p; self.tp = timing_p; self.n = 0
        self.styled = styled; self.markup = markup; self.subms_p = subms_p; self.in_ruby = 0; self.ruby_quiet = True; self.nested_p = nested_p
        import ttconv.style_properties as s
        self.ALL = sorted(s.StyleProperties.ALL, key=lambda p: p.__name__)

    def uid(self, prefix):
        self.n += 1; return f"{prefix}{self.n}"

    def deco(self, e, dens=None):
        import ttconv.model as m, ttconv.style_properties as s
        SP = s.StyleProperties
        rng = self.rng; dens = self.sd if dens is None else dens
        quiet = self.in_ruby and self.ruby_quiet       # hidden / timed ruby children make snapshot generation raise (C01 finding)
        dp = 0.0 if quiet else self.dp
        for p in self.ALL:
            if p is SP.Display:
                r = rng.random()
                if r < dp: e.set_style(p, s.DisplayType.none)
                elif r < dp * 1.5: e.set_style(p, s.DisplayType.auto)
                if rng.random() < dp * 1.5:
                    e.add_animation_step(m.DiscreteAnimationStep(p, rtime(rng, 6), rtime(rng, 8), rng.choice(list(s.DisplayType))))
                continue
            if rng.random() < dens: e.set_style(p, rvalue(rng, p))
            if rng.random() < self.ad:
                e.add_animation_step(m.DiscreteAnimationStep(p, rtime(rng, 6), rtime(rng, 8), rvalue(rng, p)))
        p = self.styled
        if isinstance(e, m.Region):
            if rng.random() < 0.5: e.set_style(SP.DisplayAlign, rng.choice(list(s.DisplayAlignType)))
            if rng.random() < 0.5: e.set_style(SP.Origin, rvalue(rng, SP.Origin))
            if rng.random() < 0.5: e.set_style(SP.Extent, rvalue(rng, SP.Extent))
            if rng.random() < 0.2: e.set_style(SP.Position, rvalue(rng, SP.Position))
            if self.focus == "edge":          # a region that reaches beyond the root container: the line percentage must stay in 0..100
                U = s.LengthType.Units
                y = rng.choice([F(90), F(95), F(100), F(-5), F(0), F(120)]); h = rng.choice([F(20), F(30), F(10), F(200)])
                e.set_style(SP.Origin, s.CoordinateType(x=s.LengthType(F(10), U.pct), y=s.LengthType(y, U.pct)))
                e.set_style(SP.Extent, s.ExtentType(height=s.LengthType(h, U.pct), width=s.LengthType(F(80), U.pct)))
                if e.has_style(SP.Position): e.set_style(SP.Position, None)
                e.set_style(SP.DisplayAlign, rng.choice(list(s.DisplayAlignType)))
            return
        if isinstance(e, m.Br): return
        scale = 3.0 if isinstance(e, m.Span) else 1.0
        if rng.random() < p * scale: e.set_style(SP.Color, rng.choice(_colors()))
        if rng.random() < p * scale: e.set_style(SP.BackgroundColor, rng.choice(_colors()))
        if rng.random() < p * scale: e.set_style(SP.FontWeight, rng.choice(list(s.FontWeightType)))
        if rng.random() < p * scale: e.set_style(SP.FontStyle, rng.choice(list(s.FontStyleType)))
        if rng.random() < p * scale:
            e.set_style(SP.TextDecoration, s.TextDecorationType(*[rng.choice([None, True, False]) for _ in range(3)]))
        if rng.random() < p * 0.5 and e.has_style(SP.Color) is False:
            e.add_animation_step(m.DiscreteAnimationStep(SP.Color, rtime(rng, 6), rtime(rng, 8), rng.choice(_colors())))
        if isinstance(e, (m.P, m.Div, m.Body)):
            if rng.random() < 0.3: e.set_style(SP.TextAlign, rng.choice(list(s.TextAlignType)))
            if rng.random() < 0.15: e.set_style(SP.Direction, rng.choice(list(s.DirectionType)))

    def timing(self, e):
        rng = self.rng
        if self.in_ruby and self.ruby_quiet: return
        if rng.random() < self.tp: e.set_begin(rtime(rng, 3))
        if rng.random() < self.tp * self.end_p:
            if rng.random() < self.subms_p:      # an interval shorter than a millisecond
                e.set_end((e.get_begin() or F(0)) + F(1, rng.choice([1500, 3000, 7000, 2001])))
            else:
                e.set_end(rtime(rng, 14, minv=(0 if rng.random() < 0.1 else 3)))

    def region(self, e, prefix="s"):
        w = {"b": 0.4, "d": 1.6, "p": 1.2}.get(prefix, 0.1)
        if self.in_ruby and self.ruby_quiet: return
        if self.regs and self.rng.random() < self.rrp * w: e.set_region(self.rng.choice(self.regs))

    def common(self, e, prefix, timed=True):
        import ttconv.model as m
        e.set_id(self.uid(prefix))
        if timed: self.timing(e)
        self.region(e, prefix); self.deco(e)
        if self.rng.random() < 0.25: e.set_space(m.WhiteSpaceHandling.PRESERVE)
        if self.rng.random() < 0.1: e.set_lang(self.rng.choice(["fr", "en-US", ""]))

    def text(self, parent):
        import ttconv.model as m
        rng = self.rng; self.n += 1; k = self.n
        t = rng.choice(TEXTS if rng.random() < self.markup else TEXTS[:9])
        if "-->" in t and rng.random() < 0.75: t = "T%d"          # keep "-->" (which spoils every configuration of a document) rare
        parent.push_child(m.Text(self.d, t % k if "%d" in t else t))

    def span(self, depth, allow_nested=True):
        import ttconv.model as m
        rng = self.rng; e = m.Span(self.d); self.common(e, "s")
        for _ in range(rng.randint(0, 3)):
            k = rng.random()
            if k < 0.65: self.text(e)
            elif k < 0.78: b = m.Br(self.d); b.set_id(self.uid("br")); e.push_child(b)
            elif depth < 3 and allow_nested: e.push_child(self.span(depth + 1))
        return e

    def wrap(self, cls, prefix):
        import ttconv.model as m
        e = cls(self.d); self.common(e, prefix)
        for _ in range(self.rng.randint(0, 2)): e.push_child(self.span(1 if self.focus == "ruby" else 2, allow_nested=self.focus == "ruby"))
        if self.ruby_quiet:        # an annotation emptied by white-space handling makes snapshot generation raise (C01 finding)
            sp = m.Span(self.d); sp.set_id(self.uid("s")); self.n += 1; sp.push_child(m.Text(self.d, "R%d" % self.n)); e.push_child(sp)
        return e

    def ruby(self):
        import ttconv.model as m
        self.in_ruby += 1
        try:
            rng = self.rng; self.ruby_quiet = rng.random() < (0.97 if self.focus == "ruby" else 0.85)
            e = m.Ruby(self.d); self.common(e, "ruby")
            pat = rng.randrange(4)
            if pat == 0: cs = [self.wrap(m.Rb, "rb"), self.wrap(m.Rt, "rt")]
            elif pat == 1: cs = [self.wrap(m.Rb, "rb"), self.wrap(m.Rp, "rp"), self.wrap(m.Rt, "rt"), self.wrap(m.Rp, "rp")]
            else:
                rbc = m.Rbc(self.d); self.common(rbc, "rbc")
                for _ in range(rng.randint(0, 2)): rbc.push_child(self.wrap(m.Rb, "rb"))
                def rtc():
                    x = m.Rtc(self.d); self.common(x, "rtc")
                    kids = [self.wrap(m.Rt, "rt") for _ in range(rng.randint(0, 2))]
                    if rng.random() < 0.4 and kids: kids = [self.wrap(m.Rp, "rp")] + kids + [self.wrap(m.Rp, "rp")]
                    if kids: x.push_children(kids)
                    return x
                cs = [rbc, rtc()] + ([rtc()] if pat == 3 else [])
            e.push_children(cs)
            return e
        finally:
            self.in_ruby -= 1

    def blank_styled_p(self):
        """a paragraph that shows nothing but carries tags: styled spans holding only br / white space"""
        import ttconv.model as m, ttconv.style_properties as s
        SP = s.StyleProperties
        rng = self.rng; e = m.P(self.d); e.set_id(self.uid("p")); self.timing(e); self.region(e, "p")
        for _ in range(rng.randint(1, 2)):
            sp = m.Span(self.d); sp.set_id(self.uid("s"))
            k = rng.randrange(5)
            if k == 0: sp.set_style(SP.Color, rng.choice(_colors()[:3]))
            elif k == 1: sp.set_style(SP.FontWeight, s.FontWeightType.bold)
            elif k == 2: sp.set_style(SP.FontStyle, s.FontStyleType.italic)
            elif k == 3: sp.set_style(SP.TextDecoration, s.TextDecorationType(underline=True))
            else: sp.set_style(SP.BackgroundColor, rng.choice(_colors()[:3]))
            for _ in range(rng.randint(1, 2)):
                if rng.random() < 0.6: b = m.Br(self.d); b.set_id(self.uid("br")); sp.push_child(b)
                else: sp.push_child(m.Text(self.d, rng.choice([" ", "  ", "\t", "\u00a0"])))
            e.push_child(sp)
        return e

    def p(self):
        import ttconv.model as m
        rng = self.rng
        if self.focus == "tagsonly" and rng.random() < 0.4: return self.blank_styled_p()
        e = m.P(self.d); self.common(e, "p")
        for _ in range(rng.randint(1, 3)):
            k = rng.random()
            if k < self.ruby_p: e.push_child(self.ruby())
            elif k < 0.85: e.push_child(self.span(0))
            else: b = m.Br(self.d); b.set_id(self.uid("br")); e.push_child(b)
        return e

    def div(self, depth):
        import ttconv.model as m
        rng = self.rng; e = m.Div(self.d); self.common(e, "d")
        if self.focus == "nested":          # body/div/div[/div]/p: few paragraphs, each below a nested division
            inner = m.Div(self.d); self.common(inner, "d"); e.push_child(inner)
            if depth == 0 and rng.random() < 0.4:
                inner2 = m.Div(self.d); self.common(inner2, "d"); inner.push_child(inner2); inner = inner2
            for _ in range(rng.choice([1, 1, 1, 2])): inner.push_child(self.p())
            return e
        for _ in range(rng.randint(0, 3)):
            if depth < 2 and rng.random() < self.nested_p: e.push_child(self.div(depth + 1))
            else: e.push_child(self.p())
        return e

    def doc(self, nreg):
        import ttconv.model as m, ttconv.style_properties as s
        SP = s.StyleProperties
        rng = self.rng
        d = self.d = m.ContentDocument(); self.regs = []
        d.set_cell_resolution(m.CellResolutionType(rows=rng.choice([15, 15, 24, 1, 53]), columns=rng.choice([32, 32, 40, 1, 97])))
        d.set_px_resolution(m.PixelResolutionType(width=rng.choice([1920, 640, 1]), height=rng.choice([1080, 480, 7])))
        if rng.random() < 0.3: d.set_lang(rng.choice(["en", "fr-CA"]))
        if rng.random() < 0.2: d.set_active_area(m.ActiveAreaType(F(1, 10), F(1, 10), F(4, 5), F(4, 5)))
        if rng.random() < 0.2: d.set_display_aspect_ratio(F(16, 9))
        for p in self.ALL:
            if rng.random() < (0.04 if self.sd > 0 else 0.01) and p is not SP.Position:
                d.put_initial_value(p, rvalue(rng, p))
        for i in range(nreg):
            r = m.Region(f"r{i}", d)
            if rng.random() < 0.25: r.set_begin(rtime(rng, 4))
            if rng.random() < 0.25: r.set_end(rtime(rng, 14, minv=2))
            if rng.random() < 0.5: r.set_style(SP.ShowBackground, rng.choice(list(s.ShowBackgroundType)))
            self.deco(r, dens=self.sd * 2)
            if rng.random() < 0.2: r.set_lang("de")
            d.put_region(r); self.regs.append(r)
        if rng.random() < 0.03: return d
        b = m.Body(d); self.common(b, "b")
        ndiv = rng.randint(1, 3)
        if self.focus == "nested": ndiv = rng.choice([1, 1, 2])
        if self.focus == "unbounded":       # every region shows text in the final, unbounded interval: one division per region, no end
            for r in self.regs:
                dv = self.div(0); dv.set_region(r); dv.set_end(None); b.push_child(dv)
            b.set_end(None)
        for _ in range(ndiv): b.push_child(self.div(0))
        d.set_body(b)
        return d


def refresh_colours(d):
    """replace every colour value by a NEW equal object (as a reader that parses #rrggbb does): Python object identity then no
    longer coincides with equality, which the model assumes; such documents are judged by S only"""
    import ttconv.style_properties as s, ttconv.model as m
    SP = s.StyleProperties
    def walk(e):
        for p in (SP.Color, SP.BackgroundColor):
            if e.is_style_applicable(p) if hasattr(e, "is_style_applicable") else True:
                v = e.get_style(p)
                if isinstance(v, s.ColorType): e.set_style(p, s.ColorType(tuple(v.components)))
        for c in e: walk(c)
    for r in d.iter_regions(): walk(r)
    if d.get_body() is not None: walk(d.get_body())


def is_fresh(seed, prop):
    return prop == "C07" and seed % 12 == 0


def make_doc(seed, prop):
    d = make_doc0(seed, prop)
    if is_fresh(seed, prop): refresh_colours(d)
    return d


FOCI = ["nested", "ruby", "unbounded", "tagsonly", "edge"]


def doc_focus(seed):
    """every fifth document or so exercises one of the repaired paths on purpose (the others reach them by chance)"""
    r = random.Random(seed ^ 0x5EED).random()
    return FOCI[int(r * 25)] if r < 0.2 else None


def make_doc0(seed, prop):
    rng = random.Random(seed)
    prof = rng.randrange(4)
    focus = doc_focus(seed)
    kw = dict(focus=focus)
    if focus == "nested": kw.update(nested_p=0.0, display_p=0.0, timing_p=0.08)
    if focus == "ruby": kw.update(ruby_p=0.45)
    if focus == "unbounded": kw.update(end_p=0.0, display_p=0.0, timing_p=0.25, region_ref_p=0.1)
    if prop == "C07":
        a = dict(styled=(0.10, 0.18, 0.25, 0.12)[prof], markup=(0.45, 0.3, 0.5, 0.6)[prof], ruby_p=0.04,
                 style_density=(0.0, 0.02, 0.04, 0.0)[prof], subms_p=0.03, nested_p=0.1, timing_p=0.12, anim_density=0.004)
    else:
        a = dict(styled=(0.03, 0.06, 0.10, 0.0)[prof], markup=(0.15, 0.25, 0.1, 0.3)[prof], ruby_p=(0.05, 0.03, 0.06, 0.0)[prof],
                 style_density=(0.0, 0.02, 0.05, 0.0)[prof])
    a.update(kw)
    g = CueGen(rng, **a)
    nreg = rng.choice([0, 1, 1, 2, 2, 3, 3])
    if focus == "unbounded": nreg = rng.choice([2, 2, 3])
    if focus == "edge": nreg = rng.choice([1, 2, 3])
    return g.doc(nreg=nreg)


def doc_features(d, outs):
    """what a generated document exercises (for the input distribution in the evidence)"""
    import ttconv.model as m
    f = set()
    def base_text(e):
        return any(isinstance(x, m.Text) and x.get_text().strip() for x in e.dfs_iterator())
    body = d.get_body()
    if body is not None:
        for e in body.dfs_iterator():
            if isinstance(e, m.Div) and isinstance(e.parent(), m.Div): f.add("nested div")
            if isinstance(e, (m.Rb, m.Rbc)) and base_text(e): f.add("ruby base text")
            if isinstance(e, (m.Rt, m.Rtc)) and base_text(e): f.add("ruby annotation text")
            if isinstance(e, m.Span) and isinstance(e.parent(), m.Rb) and any(isinstance(c, m.Span) for c in e): f.add("nested span in rb")
    for i, r in enumerate(outs):
        if r[0] != "ok": continue
        if "ruby base text" in f and re.search(r"R\d+", r[1]): f.add("ruby base text in an output")
        if i >= 2 and VCFG[i - 2][0]:
            cues = re.findall(_VTT_TS + r" --> " + _VTT_TS + r"[^\n]*\n", r[1])
            t = [(_ms(c[0:4]), _ms(c[4:8])) for c in cues]
            if len(t) >= 2 and t[-1] == t[-2] and t[-1][1] - t[-1][0] == 10000: f.add("several cues in the unbounded last interval")
            if re.search(r"line:(0|100)%", r[1]): f.add("line at a bound (0% / 100%)")
    return sorted(f)


# ------------------------------------------------------------------------------------------------ the implementation
def stage(e):
    tb = traceback.extract_tb(e.__traceback__)
    files = [f.filename for f in tb]; names = [f.name for f in tb]
    if isinstance(e, ValueError) and "to_string" in names: return 4
    if isinstance(e, ValueError) and "from_seconds" in names: return 3
    if "generate_isd_sequence" in names and files[-1].endswith(("/isd.py", "/model.py")): return 1
    if isinstance(e, AttributeError) and "process_p" in names: return 5
    return 99


def run_writers(d):
    import ttconv.srt.writer as sw, ttconv.vtt.writer as vw
    from ttconv.vtt.config import VTTWriterConfiguration as VC
    from ttconv.srt.config import SRTWriterConfiguration as SC
    def call(f):
        try:
            r = f()
            if not isinstance(r, str): return ("err", 98, f"returned {type(r).__name__}")
            return ("ok", r)
        except RecursionError: raise
        except Exception as e:      # noqa: the outcome class is what is compared
            return ("err", stage(e), f"{type(e).__name__}: {e}")
    out = [call(lambda: sw.from_model(d, SC(text_formatting=fmt))) for fmt in (True, False)]
    out += [call(lambda: vw.from_model(d, VC(line_position=a, text_align=b, cue_id=c))) for a, b, c in VCFG]
    return out


# ------------------------------------------------------------------------------------------------ strict cue parsers
# Independent of Spec/CueSpec.v: regular expressions over the whole file.  A file that does not match yields None.
_SRT_TS = r"(\d{2,}):([0-5]\d):([0-5]\d),(\d{3})"
_VTT_TS = r"(\d{2,}):([0-5]\d):([0-5]\d)\.(\d{3})"
_SRT_CUE = re.compile(r"(\d+)\n" + _SRT_TS + r" --> " + _SRT_TS + r"\n((?:[^\n]*[^\s][^\n]*\n)+)")
_VTT_CUE = re.compile(r"(?:([^\n]+)\n)?" + _VTT_TS + r" --> " + _VTT_TS + r"((?: [a-z]+:[^\s]+)*)\n((?:[^\n]+\n)+)")
_SRT_TAG = re.compile(r"</?[biu]>|<font color=\"[^\"]*\">|</font>")
_VTT_TAG = re.compile(r"</?(?:[biu]|c(?:\.[^\s.<>&]+)*)>")
_VTT_ESC = {"&amp;": "&", "&lt;": "<", "&gt;": ">", "&lrm;": "‎", "&rlm;": "‏", "&nbsp;": " "}


def _ms(g): return ((int(g[0]) * 60 + int(g[1])) * 60 + int(g[2])) * 1000 + int(g[3])


def parse_srt(txt):
    """[(begin ms, end ms, payload without tags)] or None"""
    txt = re.sub("\r\n|\r", "\n", txt)     # CR LF and CR terminate lines, as LF does
    cues, pos, first = [], 0, True
    while pos < len(txt):
        if not first:
            if txt[pos] != "\n": return None
            pos += 1
        m = _SRT_CUE.match(txt, pos)
        if not m or "-->" in m.group(10): return None
        if int(m.group(1)) != len(cues) + 1: return None
        cues.append((_ms(m.groups()[1:5]), _ms(m.groups()[5:9]), _SRT_TAG.sub("", m.group(10)[:-1])))
        pos = m.end(); first = False
    return cues


def parse_vtt(txt):
    txt = re.sub("\r\n|\r", "\n", txt)
    if not txt.startswith("WEBVTT\n\n"): return None
    pos = len("WEBVTT\n\n")
    if txt.startswith("STYLE\n", pos):
        end = txt.find("\n\n", pos)
        if end < 0 or "-->" in txt[pos:end]: return None
        pos = end + 2
    cues, first = [], True
    while pos < len(txt):
        if not first:
            if txt[pos] != "\n": return None
            pos += 1
        m = _VTT_CUE.match(txt, pos)
        if not m or "-->" in m.group(11) or (m.group(1) is not None and "-->" in m.group(1)): return None
        body = m.group(11)[:-1]
        plain = _VTT_TAG.sub("", body)
        if "<" in plain: return None
        def unesc(mm):
            if mm.group(0) not in _VTT_ESC: raise ValueError(mm.group(0))
            return _VTT_ESC[mm.group(0)]
        try: plain = re.sub(r"&[^;\s&<]*;?", unesc, plain)
        except ValueError: return None
        cues.append((_ms(m.groups()[1:5]), _ms(m.groups()[5:9]), plain))
        pos = m.end(); first = False
    return cues


# ------------------------------------------------------------------------------------------------ one document (worker)
def pylit(r):
    return f"(PyOk {C.text(r[1])})" if r[0] == "ok" else f"(PyErr {r[1]})"


def work(args):
    k, seed, prop = args
    logging.disable(logging.CRITICAL)
    d = make_doc(seed, prop)
    outs = run_writers(d)
    parsed = [(parse_srt if i < 2 else parse_vtt)(r[1]) if r[0] == "ok" else None for i, r in enumerate(outs)]
    shared, pre = {}, []
    def share(lit, ty):          # identical literals (the same output under several configurations) are written once
        if len(lit) < 40: return lit
        if lit not in shared:
            shared[lit] = f"x{k}_{len(shared)}"; pre.append(f"Definition {shared[lit]} : {ty} := {lit}.")
        return shared[lit]
    ol = [share(pylit(r), "pyout") for r in outs]
    pl = [share("[" + "; ".join(f"({b}, {e}, {share(C.text(t), 'text')})" for b, e, t in (p or [])) + "]", "list (Z * Z * text)") for p in parsed]
    defs = ("\n".join(pre) + "\n" +
            f"Definition d{k} := {L.doc_lit(d)}.\n"
            f"Definition s{k} : list (bool * pyout) := [(true, {ol[0]}); (false, {ol[1]})].\n"
            f"Definition v{k} : list (vtt_config * pyout) := [" +
            "; ".join(f"(mkVttConfig {C.boolean(a)} {C.boolean(b)} {C.boolean(c)}, {o})" for (a, b, c), o in zip(VCFG, ol[2:])) + "].\n"
            f"Definition c{k} : list (list (Z * Z * text)) := [{'; '.join(pl)}].")
    nreg = len(list(d.iter_regions()))
    return k, defs, outs, [p is not None for p in parsed], (nreg, doc_features(d, outs), doc_focus(seed))


def slots_for(prop, k, fresh=False):
    w = "cases_skip 10" if fresh else f"cases_writers d{k} s{k} v{k}"
    if prop == "C06":
        return [w, f"cases_cues d{k} s{k} v{k} c{k}", f"[match isd_sequence d{k} with Ok s => seq_shape s | Err _ => true end]", f"cases_triggers d{k} s{k} v{k}", f"cases_ties d{k}"], [10, 10, 1, 10 * NTRIG, 1]
    return [w, f"cases_wf s{k} v{k}", f"cases_runs d{k} s{k} v{k}", f"cases_settings d{k} v{k}", f"cases_triggers d{k} s{k} v{k}",
            f"cases_ties d{k}"], [10, 10, 10, 8, 10 * NTRIG, 1]


def load_proposed(run):
    pend = []
    try:
        for line in open(C.VERIF + f"/findings_proposed/{run.prop}.txt", encoding="utf-8"):
            mt = re.match(r"finding\s+property=(\S+)\s+id=(\S+)\s+what=(.*)", line.strip())
            if mt and mt.group(1) == run.prop and mt.group(2) not in {f["id"] for f in run.findings}:
                run.findings.append(dict(property=run.prop, id=mt.group(2), what=mt.group(3))); pend.append(mt.group(2))
    except FileNotFoundError:
        pass
    if pend: run.cov["findings_pending_merge"] = pend


# which trigger explains which S failure, and the finding it belongs to
C06_EXPLAIN = [("collapsed", "no-cues-when-writer-raises"), ("arrow", "payload-not-recoverable"), ("blank-line", "payload-not-recoverable")]
C07_WF_EXPLAIN = [("collapsed", "collapsed-interval-valueerror"), ("arrow", "arrow-in-payload"), ("blank-line", "blank-looking-line-in-payload")]
# C07 runs and cue settings are not judged where there is no file or the file does not parse
C07_RUNS_SKIP = ["collapsed", "arrow", "blank-line"]


def check(prop, targets, extra_rule):
    run = C.Run(prop, "proof")
    run.hygiene()
    sys.path.insert(0, C.SRC)
    load_proposed(run)
    changed, errors = gen_tables.generate({"StyleTables", "CueTables"})
    if errors:
        run.violation("table translator failed closed: " + "; ".join(errors), dict(kind="translator", errors=errors), False)
        return run.finish()
    ok, log = run.build(targets, clean=(run.tier == "thorough"))
    proofs_ok = ok and run.theorems()
    if not ok: run.proof_log = log[-2500:]
    # recorded-findings file: compiles iff the refutation witnesses still refute
    frc, fout = C.coqc(f"{C.COQ}/Findings/{prop}.v", 900)
    run.cov["obligations"] += 1
    if frc == 0: run.cov["discharged"] += 1
    else:
        run.violation(f"coq/Findings/{prop}.v no longer compiles (a recorded refutation is stale or the model changed): " + fout[-400:],
                      dict(kind="findings-file", log=fout[-1500:]), False)
    run.witnesses()

    ndocs = 300 if run.tier == "quick" else 5000
    seeds = [(k, run.rng.getrandbits(60), prop) for k in range(ndocs)]
    with ProcessPoolExecutor(C.NCPU) as ex:
        results = list(ex.map(work, seeds, chunksize=8))
    run.log(f"implementation run on {ndocs} documents")
    blocks, info = [], {}
    seedof = {k: s for k, s, _ in seeds}
    for k, defs, outs, parsed_ok, nreg in results:
        sl, cnt = slots_for(prop, k, is_fresh(seedof[k], prop))
        blocks.append((k, defs, sl, cnt)); info[k] = (outs, parsed_ok, nreg)
    files = isdcore.write_shards(f"Cases_{prop}_", HEADER, blocks, max_bytes=150_000)
    run.log(f"{len(files)} case files written ({sum(os.path.getsize(p) for p, _ in files) // 1000} kB)")
    bad, broken = isdcore.eval_shards(files, timeout=2400)
    if broken:
        # a case file that did not evaluate (coqc killed: out of memory on a loaded machine, time-out) is evaluated once more, alone;
        # only what fails twice is reported
        again = [f for f in files if f[0] in {b[0] for b in broken}]
        run.log(f"{len(broken)} case files did not evaluate; evaluating them again one at a time")
        broken = []
        for f in again:
            bad2, broken2 = isdcore.eval_shards([f], timeout=2400)
            broken += broken2
            for slot, rows in bad2.items(): bad.setdefault(slot, []).extend(rows)
        run.cov["case_files_evaluated_twice"] = len(again)
    C.clean_cases(f"Cases_{prop}_")

    nslots = len(slots_for(prop, 0)[0])
    trig_slot = nslots - 2; tie_slot = nslots - 1
    fired = {}                                     # (k, config) -> set of trigger names
    for k, i in bad.get(trig_slot, []):
        fired.setdefault((k, i // NTRIG), set()).add(TRIGGERS[i % NTRIG])
    ties = {k for k, _ in bad.get(tie_slot, [])}
    m_bad = bad.get(0, [])

    def replay(case):
        k, i = case
        d = make_doc(seedof[k], prop); outs = info[k][0]
        return dict(document_seed=seedof[k], generator=f"harness/c06.py make_doc({seedof[k]}, {prop!r})", document=L.doc_lit(d)[:6000],
                    configuration=CONFIG_NAMES[i], implementation_output=outs[i][1] if outs[i][0] == "ok" else outs[i][2],
                    triggers_fired=sorted(fired.get(case, ())))

    stats = dict(outputs_ok=0, outputs_nonempty=0, cues=0, raised={}, unparsed_by_harness=0)
    for k, (outs, parsed_ok, nreg) in info.items():
        for i, r in enumerate(outs):
            if r[0] == "ok":
                stats["outputs_ok"] += 1
                n = r[1].count(" --> ")
                if n: stats["outputs_nonempty"] += 1; stats["cues"] += n
                if not parsed_ok[i]: stats["unparsed_by_harness"] += 1
            else:
                stats["raised"][str(r[1])] = stats["raised"].get(str(r[1]), 0) + 1

    known_hits, unexplained, excluded = {}, [], {"snapshot-error": 0, "srt-markup": 0, "no-parseable-file": 0}
    def judge(slot, explain, skip=(), offset=0):
        for k0, i0 in bad.get(slot, []):
            case = (k0, i0 + offset)
            f = fired.get(case, set())
            if "snapshot-error" in f: excluded["snapshot-error"] += 1; continue
            if any(t in f for t in skip): excluded["no-parseable-file"] += 1; continue
            hit = [fid for t, fid in explain if t in f]
            if hit:
                for fid in dict.fromkeys(hit): known_hits.setdefault(fid, []).append(case)
            elif "srt-markup" in f and case[1] < 2: excluded["srt-markup"] += 1
            else: unexplained.append((slot, case))
    shape_bad = []
    if prop == "C06":
        judge(1, C06_EXPLAIN)
        shape_bad = bad.get(2, [])       # the shape hypothesis of the text theorems, evaluated on every generated sequence
    else:
        judge(1, C07_WF_EXPLAIN)
        judge(2, [("reset-style", "nested-span-resets-style")], skip=C07_RUNS_SKIP)
        judge(3, [("align-lost", "align-lost-when-paragraphs-merged")], skip=C07_RUNS_SKIP, offset=2)
    run.log(f"{ndocs} documents x 10 configurations: outputs {stats['outputs_ok']} ({stats['outputs_nonempty']} with cues, {stats['cues']} cues), "
            f"raised {stats['raised']}; model/code mismatches {len(m_bad)}, near-tie line positions left out in {len(ties)} documents, "
            f"S failures under listed findings { {k: len(v) for k, v in known_hits.items()} }, excluded {excluded}, "
            f"unexplained {len(unexplained)}, broken case files {len(broken)}")
    for fid, cases in known_hits.items():
        k, i = cases[0]
        if not run.known(fid, f"{len(cases)} generated outputs, e.g. document seed {seedof[k]} / {CONFIG_NAMES[i]}"):
            unexplained.append((-1, cases[0]))
    if unexplained:
        slot, case = unexplained[0]
        run.violation(f"{prop}: the implementation's output contradicts Spec/CueSpec.v on an input no listed finding covers "
                      f"(slot {slot}, document seed {seedof[case[0]]}, {CONFIG_NAMES[case[1]]}; {len(unexplained)} such outputs)",
                      dict(kind="S-on-code", spec="coq/Spec/CueSpec.v", slot=slot, first=replay(case), count=len(unexplained)))
    if shape_bad:
        run.violation(f"harness/c06.py generated a document whose snapshots do not have the shape Properties/C06.v assumes (seq_shape), "
                      f"document seed {seedof[shape_bad[0][0]]}", dict(kind="hypothesis", first=replay((shape_bad[0][0], 0))), found_input=False)
    if (m_bad or broken or not proofs_ok) and not unexplained:
        what = []
        if not proofs_ok: what.append(f"theorems of coq/Properties/{prop}.v no longer check: " + getattr(run, "proof_log", "")[-500:])
        if m_bad: what.append(f"correspondence Model/CueWriter.v vs srt/vtt writer.from_model disagrees on {len(m_bad)} outputs")
        if broken: what.append(f"case files did not evaluate: {broken[0]}")
        run.violation("; ".join(what), dict(kind="broken-tie", theorem_file=f"coq/Properties/{prop}.v", proofs_ok=proofs_ok,
                                            correspondence="Model/CueWriter.v srt_from_model / vtt_from_model vs ttconv.srt.writer / ttconv.vtt.writer from_model",
                                            first=replay(m_bad[0]) if m_bad else None), found_input=False)
    regs, feats, foci = {}, {}, {}
    for k, (_, _, (nreg, fs, fo)) in info.items():
        regs[nreg] = regs.get(nreg, 0) + 1
        for x in fs: feats[x] = feats.get(x, 0) + 1
        foci[str(fo)] = foci.get(str(fo), 0) + 1
    trig_hist = {}
    for s in fired.values():
        for t in s: trig_hist[t] = trig_hist.get(t, 0) + 1
    d0 = make_doc(seedof[0], prop)
    run.cov.update(evaluations=ndocs * 10, distinct_nontrivial=stats["outputs_nonempty"],
                   rule="random well-formed documents (harness/c06.py CueGen: 0-3 regions with geometry, body/div/div/p/"
                        "span/br/text, ruby, region references; one document in five is built around a repaired path: a single paragraph "
                        "below nested divisions, ruby with styled / nested base spans, every region showing text in the unbounded last "
                        "interval, paragraphs that hold only tags, regions reaching beyond the root container; timing incl. sub-millisecond and unbounded intervals, xml:space, the style "
                        "properties the writers read on every level, text with & < > --> tags-as-text CR LF NBSP) x SRT text_formatting on/off "
                        "x the 8 WebVTT configurations. " + extra_rule + " distinct_nontrivial = outputs that contain at least one cue.",
                   samples=[dict(document=L.doc_lit(d0)[:1500], outputs=[(r[1][:300] if r[0] == 'ok' else r[2]) for r in info[0][0][:3]])],
                   documents=ndocs, regions_per_document=regs, documents_exercising=feats, documents_per_focus=foci, outputs=stats,
                   triggers_fired_per_output=trig_hist,
                   model_code_mismatches=len(m_bad), near_tie_documents=len(ties), excluded=excluded,
                   documents_with_fresh_colour_objects=sum(1 for k in info if is_fresh(seedof[k], prop)),
                   s_accepted=({"cues (C06)": ndocs * 10 - len(bad.get(1, []))} if prop == "C06" else
                               {"grammar": ndocs * 10 - len(bad.get(1, [])), "runs": ndocs * 10 - len(bad.get(2, [])),
                                "cue settings": ndocs * 8 - len(bad.get(3, []))}),
                   s_failures_under_findings={k: len(v) for k, v in known_hits.items()}, s_failures_unexplained=len(unexplained))
    run.assumptions += ["documents are well formed (content model of model.py; C15); region identity is modelled by id",
                        "object identity of colour values is read as equality (colours are shared objects, as with NamedColors)",
                        "the significant times are those ISD.significant_times reports (C02 judges them)",
                        "outputs whose snapshot generation raises (C01 finding ruby-inactive-annotation) are compared with M only",
                        "SubRip has no escape mechanism: outputs whose text itself contains a SubRip tag are compared with M only"]
    return run.finish(["harness/isdlit.py (Python objects -> Gallina literals)", "harness/gen_core.py, harness/gen_c06.py (table translators)",
                       "harness/c06.py strict cue parsers (cross-checked against the Coq recognisers on every output)",
                       "Spec/CueSpec.v: my reading of WebVTT section 4 and of the de-facto SubRip grammar"])


def main():
    return check("C06", ["Proofs/C06/Text.vo", "Proofs/C06/SpecLink.vo", "Proofs/C06/Shape.vo", "Proofs/C06/Exists.vo", "Proofs/C06/Breaks.vo",
                         "Proofs/C06/Strip.vo", "Proofs/C06/Content.vo", "Proofs/C06/Fixed.vo", "Proofs/C06/BaseSpec.vo", "Model/CueCases.vo"],
                 "Each output is compared with M as a string; its cues (strict parser here AND Spec/CueSpec.v parser, which must agree) "
                 "are compared with cue_spec evaluated in Coq.")


if __name__ == "__main__":
    sys.exit(main())
