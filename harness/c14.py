"""C14 — snapshot acceleration and repeated use never change results or the source.  Theorems: coq/Properties/C14.v.
Ties: M (Model/SigTimes.v `isd_cached`) against ISD.from_model(doc, t, sig_times); S (Spec/RenderSpec.v) is evaluated
in Coq on the code's cached and uncached snapshots.  The "source unchanged / repeatable" half is observed on the
Python object graph: random operation histories with a deep structural fingerprint after every call."""
import logging, sys
import common as C
import isdlit as L
import docgen, isdcore, gen_tables

HEADER = ("From TT Require Import Model.Doc Gen.StyleTables Model.Isd Model.SigTimes Model.IsdCases Model.SigCases.\n"
          "Open Scope Z_scope.\n")
OPS = ["sig", "snap", "snap_cached", "seq", "srt", "vtt", "imsc"]


def main():
    run = C.Run("C14", "proof")
    run.hygiene()
    sys.path.insert(0, C.SRC)
    changed, errors = gen_tables.generate({"StyleTables"})
    if errors:
        run.violation("table translator failed closed: " + "; ".join(errors), dict(kind="translator", errors=errors), False)
        return run.finish()
    ok, log = run.build(["Proofs/C14/Cache.vo", "Proofs/C14/Restrict.vo", "Model/SigCases.vo"], clean=(run.tier == "thorough"))
    proofs_ok = ok and run.theorems()
    if not ok: run.proof_log = log[-2500:]
    run.witnesses()
    logging.disable(logging.CRITICAL)
    from ttconv.isd import ISD
    import ttconv.srt.writer as srt_w, ttconv.vtt.writer as vtt_w, ttconv.imsc.writer as imsc_w
    import xml.etree.ElementTree as et

    ndocs = 200 if run.tier == "quick" else 3000
    nhist = 5 if run.tier == "quick" else 10
    rng = run.rng
    blocks, docs, nq, n_skipped_regions = [], {}, 0, 0
    hist_fail, n_ops, op_hist = [], 0, {o: 0 for o in OPS}
    for k in range(ndocs):
        g = docgen.Gen(rng, style_density=0.06, anim_density=(0.05 if k % 2 else 0.01), display_p=0.05, ruby_p=0.04, region_ref_p=0.35)
        if k % 3 == 2: g.tp = 0.85; g.ruby_p = 0.0      # narrow content intervals: the cache skips whole documents/regions
        d = g.doc(nreg=(0 if k % 5 == 0 else rng.choice([0, 1, 2, 2, 3])))
        if k % 5 == 0 and not list(d.iter_regions()):
            import ttconv.style_properties as s_
            d.put_initial_value(s_.StyleProperties.BackgroundColor, rng.choice(docgen.COLORS))   # default region paints the initial background
        # regions whose background is visible only by animation or initial values
        import ttconv.style_properties as s, ttconv.model as m
        for r in d.iter_regions():
            if rng.random() < 0.3: r.set_style(s.StyleProperties.ShowBackground, s.ShowBackgroundType.whenActive)
            if rng.random() < 0.3: r.set_style(s.StyleProperties.BackgroundColor, rng.choice(docgen.COLORS))
            if rng.random() < 0.2: r.set_style(s.StyleProperties.Opacity, rng.choice([0, 1]))
        try:
            st = ISD.significant_times(d)
        except Exception:
            st = None
        qs = docgen.query_times(rng, d, 8 if run.tier == "quick" else 14)
        docs[k] = (d, qs)
        if st is not None:
            items, pairs = [], []
            for t in qs:
                c_lit, c_obj = isdcore.snapshot(d, t, st); u_lit, u_obj = isdcore.snapshot(d, t)
                o = lambda x: "None" if x is None else "(Some " + x + ")"
                items.append(f"({L.qlit(t)}, {o(c_lit)})"); pairs.append(f"({o(c_lit)}, {o(u_lit)})")
                if c_lit is not None and u_lit is not None: n_skipped_regions += len(list(u_obj.iter_regions())) - len(list(c_obj.iter_regions()))
            nq += len(qs)
            defs = (f"Definition d{k} := {L.doc_lit(d)}.\nDefinition q{k} : list (Q * option (list elem)) := [{'; '.join(items)}].\n"
                    f"Definition r{k} : list (option (list elem) * option (list elem)) := [{'; '.join(pairs)}].")
            blocks.append((k, defs, [f"cases_cached d{k} q{k}", f"cases_render r{k}"], [len(qs), len(qs)]))
        # ---- operation histories on the same document object: fingerprint after every call, repeated calls equal ----
        for h in range(nhist if k % 4 == 0 else 1):
            fp0 = L.doc_lit(d); results = {}
            sigs = None
            for step in range(rng.randint(2, 12)):
                op = rng.choice(OPS); key = op; n_ops += 1; op_hist[op] += 1
                try:
                    if op == "sig": sigs = ISD.significant_times(d); res = [str(x) for x in sigs]
                    elif op == "snap": t = rng.choice(qs); key = ("snap", t); res = isdcore.snapshot(d, t)[0]
                    elif op == "snap_cached":
                        if sigs is None: sigs = ISD.significant_times(d)
                        t = rng.choice(qs); key = ("snapc", t); res = isdcore.snapshot(d, t, sigs)[0]
                    elif op == "seq": res = [(str(x), L.isd_lit(i)) for x, i in ISD.generate_isd_sequence(d, is_multithreaded=False)]
                    elif op == "srt": res = srt_w.from_model(d)
                    elif op == "vtt": res = vtt_w.from_model(d)
                    else: res = et.tostring(imsc_w.from_model(d).getroot())
                except Exception as e:
                    res = "raised " + type(e).__name__
                if key in results and results[key] != res: hist_fail.append((k, str(key), "a repeated call returned a different result"))
                results[key] = res
                if L.doc_lit(d) != fp0: hist_fail.append((k, str(key), "the source document changed")); break
    files = isdcore.write_shards("Cases_C14_", HEADER, blocks)
    bad, broken = isdcore.eval_shards(files)
    C.clean_cases("Cases_C14_")
    m_bad = bad.get(0, []); s_bad = bad.get(1, [])
    run.log(f"{ndocs} documents, {nq} cached/uncached snapshot pairs ({n_skipped_regions} regions skipped by the cache), {n_ops} history operations: "
            f"model/code mismatches {len(m_bad)}, render differences {len(s_bad)}, history failures {len(hist_fail)}, broken {len(broken)}")

    def replay(case):
        k, i = case; d, qs = docs[k]
        st = ISD.significant_times(d)
        return dict(document=L.doc_lit(d), time=str(qs[i]), cached=isdcore.snapshot(d, qs[i], st)[0], uncached=isdcore.snapshot(d, qs[i])[0])
    if s_bad:
        run.violation(f"cached and uncached snapshots render differently (document {s_bad[0][0]}, time index {s_bad[0][1]})",
                      dict(kind="S-on-code", spec="coq/Spec/RenderSpec.v render", first=replay(s_bad[0]), count=len(s_bad)))
    if hist_fail:
        k, key, what = hist_fail[0]
        run.violation(f"{what} after {key} (document {k})", dict(kind="S-on-code", clause=what, op=key, document=L.doc_lit(docs[k][0])))
    if (m_bad or broken or not proofs_ok) and not (s_bad or hist_fail):
        what = []
        if not proofs_ok: what.append("theorems of coq/Properties/C14.v no longer check: " + getattr(run, "proof_log", "")[-500:])
        if m_bad: what.append(f"correspondence Model/SigTimes.v isd_cached vs ISD.from_model(doc, t, sig_times) disagrees on {len(m_bad)} snapshots")
        if broken: what.append(f"case files did not evaluate: {broken[0]}")
        run.violation("; ".join(what), dict(kind="broken-tie", theorem_file="coq/Properties/C14.v", proofs_ok=proofs_ok,
                                            correspondence="Model/SigTimes.v isd_cached vs ISD.from_model with sig_times",
                                            first=replay(m_bad[0]) if m_bad else None), found_input=False)
    run.cov.update(evaluations=nq + n_ops, distinct_nontrivial=nq,
                   rule="random documents with 0-3 regions (backgrounds visible only by animation / initial values, opacity 0, whenActive) x "
                        "query times: cached snapshot vs M and cached vs uncached through the render specification in Coq; plus random "
                        "histories of 2-12 operations over {significant_times, from_model cached/uncached, generate_isd_sequence, SRT, VTT, IMSC "
                        "writer} on one document object with a structural fingerprint after every call. distinct_nontrivial = snapshot pairs.",
                   samples=[dict(document=L.doc_lit(docs[0][0])[:1200])], documents=ndocs, regions_skipped_by_cache=n_skipped_regions,
                   history_operations=n_ops, operation_histogram=op_hist, model_code_mismatches=len(m_bad), render_differences=len(s_bad))
    run.assumptions += ["'the source is unchanged' is true of an immutable model by construction: that half is established by the fingerprint runs (testing)",
                        "process-global effects of the writers (namespace registration, loggers) are observed only through C19"]
    return run.finish(["harness/isdlit.py", "harness/gen_core.py"])


if __name__ == "__main__":
    sys.exit(main())
