"""C14 — snapshot acceleration and repeated use never change results or the source.  Theorems: coq/Properties/C14.v.
Ties: M (Model/SigTimes.v `isd_cached`, Model/IsdCache.v `run_history`) against ISD.from_model(doc, t, sig_times); S
(Spec/RenderSpec.v) is evaluated in Coq on the code's cached and uncached snapshots; the hypotheses of the theorems
(Spec/DocWf.v `doc_wf`, Model/CloneTrigger.v `clone_empties_doc`) are evaluated on every generated document.
The "source unchanged / repeatable" half is observed on the Python object graph: random operation histories with a deep
structural fingerprint after every call, several SignificantTimes objects per document used in any order, objects of
another document passed in, and — on a copy — calls after the document was modified through the model API."""
import copy, logging, re, sys
import common as C
import isdlit as L
import docgen, isdcore, gen_tables

PROP = "C14"
HEADER = ("From TT Require Import Model.Doc Gen.StyleTables Model.Isd Model.SigTimes Model.IsdCases Model.SigCases.\n"
          "Open Scope Z_scope.\n")
OPS = ["sig", "snap", "snap_cached", "snap_cached", "seq", "srt", "vtt", "imsc", "foreign"]


def load_proposed(run):
    pend = []
    try:
        for line in open(C.VERIF + f"/findings_proposed/{PROP}.txt", encoding="utf-8"):
            mt = re.match(r"finding\s+property=(\S+)\s+id=(\S+)\s+what=(.*)", line.strip())
            if mt and mt.group(1) == PROP and mt.group(2) not in {f["id"] for f in run.findings}:
                run.findings.append(dict(property=PROP, id=mt.group(2), what=mt.group(3))); pend.append(mt.group(2))
    except FileNotFoundError:
        pass
    if pend: run.cov["findings_pending_merge"] = pend


def scatter_ruby_regions(rng, d, gen):
    """give the spans below rb/rt/rp their own region references: half of the ruby elements get the shape of the recorded
    finding (all children of the base in one region, the annotation with a child in every region), the others its benign
    neighbours (random regions)"""
    import ttconv.model as m
    regs = list(d.iter_regions())
    if len(regs) < 2 or d.get_body() is None: return 0
    n = 0

    def span(reg):
        sp = m.Span(d); sp.set_id(gen.uid("s")); sp.set_region(reg); gen.text(sp); return sp
    for e in list(d.get_body().dfs_iterator()):
        if not isinstance(e, m.Ruby): continue
        shaped = rng.random() < 0.5
        base_reg = rng.choice(regs)
        for part in e.dfs_iterator():
            if isinstance(part, m.Rb):
                if shaped and not list(part): part.push_child(span(base_reg)); n += 1
                for c in part:
                    if isinstance(c, m.Span) and (shaped or rng.random() < 0.5): c.set_region(base_reg if shaped else rng.choice(regs)); n += 1
            elif isinstance(part, (m.Rt, m.Rp)):
                if shaped:
                    for r in regs: part.push_child(span(r)); n += 1
                else:
                    for c in part:
                        if isinstance(c, m.Span) and rng.random() < 0.5: c.set_region(rng.choice(regs)); n += 1
    return n


def inject_never_active(rng, d):
    """elements that are never active: begin == end, or a child that begins after its parent's end"""
    import ttconv.model as m
    from fractions import Fraction as F
    if d.get_body() is None: return 0
    els = [e for e in d.get_body().dfs_iterator() if isinstance(e, (m.Div, m.P, m.Span))]
    n = 0
    for e in rng.sample(els, min(len(els), rng.randint(1, 3))):
        par = e.parent()
        if rng.random() < 0.5 or par is None or isinstance(par, (m.Body, m.Rb, m.Rt, m.Rp)):
            x = F(rng.randint(0, 8), rng.choice([1, 2])); e.set_begin(x); e.set_end(x)
        else:
            par.set_end(F(2)); e.set_begin(F(5))
        n += 1
    return n


def inject_equal_sets(rng, d):
    """value-equal <set> steps (same property, value, begin, end; the same object or equal copies) on several elements
    whose time bases differ"""
    import ttconv.model as m, ttconv.style_properties as s
    from fractions import Fraction as F
    if d.get_body() is None: return 0
    els = [e for e in d.get_body().dfs_iterator() if isinstance(e, (m.Div, m.P, m.Span))]
    if len(els) < 2: return 0
    SP = s.StyleProperties
    prop, val = rng.choice([(SP.BackgroundColor, s.NamedColors.blue.value), (SP.Opacity, F(1, 2)), (SP.Visibility, s.VisibilityType.hidden),
                            (SP.Display, s.DisplayType.none), (SP.Color, s.NamedColors.red.value)])
    b, e = F(rng.randint(0, 2)), F(rng.randint(3, 6))
    shared = m.DiscreteAnimationStep(prop, b, e, val)
    chosen = rng.sample(els, min(len(els), rng.randint(2, 4)))
    for i, x in enumerate(chosen):
        x.set_begin(F(i * rng.randint(1, 3) + rng.randint(0, 1)))
        if rng.random() < 0.5: x.set_end(None)
        x.add_animation_step(shared if rng.random() < 0.5 else m.DiscreteAnimationStep(prop, b, e, val))
    return len(chosen)


def edit(rng, d, gen):
    """one modification of the document through the public model API; returns a description or None"""
    import ttconv.model as m, ttconv.style_properties as s
    from fractions import Fraction as F
    SP = s.StyleProperties
    kind = rng.choice(["begin", "end", "begin", "end", "text", "region", "remove_child", "push_child", "put_initial", "put_initial", "remove_initial"])
    if kind == "put_initial":
        prop, val = rng.choice([(SP.Color, s.NamedColors.red.value), (SP.Opacity, F(rng.randint(0, 3), 4)), (SP.Display, s.DisplayType.none),
                                (SP.Display, s.DisplayType.auto), (SP.BackgroundColor, s.NamedColors.blue.value), (SP.Visibility, s.VisibilityType.hidden)])
        d.put_initial_value(prop, val); return "put_initial_value " + prop.__name__
    if kind == "remove_initial":
        ivs = [p for p, _ in d.iter_initial_values()]
        if not ivs: return None
        p = rng.choice(ivs); d.remove_initial_value(p); return "remove_initial_value " + p.__name__
    if d.get_body() is None: return None
    els = [e for e in d.get_body().dfs_iterator()]
    timed = [e for e in els if not isinstance(e, (m.Br, m.Text))]
    texts = [e for e in els if isinstance(e, m.Text)]
    if kind == "text" and texts:
        e = rng.choice(texts); e.set_text(e.get_text() + "Z"); return "set_text"
    if kind == "region" and timed and list(d.iter_regions()):
        e = rng.choice(timed); e.set_region(rng.choice(list(d.iter_regions()))); return "set_region"
    if kind == "remove_child":
        ps = [e for e in els if isinstance(e, (m.Body, m.Div, m.P, m.Span)) and e.has_children()]
        if not ps: return None
        e = rng.choice(ps); e.remove_child(rng.choice(list(e))); return "remove_child"
    if kind == "push_child":
        ps = [e for e in els if isinstance(e, (m.P, m.Span))]
        if not ps: return None
        e = rng.choice(ps); sp = m.Span(d); sp.set_id(gen.uid("s")); gen.text(sp)
        if rng.random() < 0.5: sp.set_begin(F(rng.randint(0, 4)))
        e.push_child(sp); return "push_child"
    if timed:
        e = rng.choice(timed)          # any element: a leaf container or an ancestor of much content
        if kind == "end": e.set_end(rng.choice([None, F(rng.randint(1, 20), 2)])); return "set_end"
        e.set_begin(rng.choice([None, F(rng.randint(0, 12), 2)])); return "set_begin"
    return None


def main():
    run = C.Run(PROP, "proof")
    load_proposed(run)
    run.hygiene()
    sys.path.insert(0, C.SRC)
    changed, errors = gen_tables.generate({"StyleTables"})
    if errors:
        run.violation("table translator failed closed: " + "; ".join(errors), dict(kind="translator", errors=errors), False)
        return run.finish()
    ok, log = run.build(["Proofs/C14/Cache.vo", "Proofs/C14/Restrict.vo", "Proofs/C14/Sound.vo", "Proofs/C14/Sequence.vo",
                         "Proofs/C14/CacheState.vo", "Model/SigCases.vo"], clean=(run.tier == "thorough"))
    proofs_ok = ok and run.theorems()
    if not ok: run.proof_log = log[-2500:]
    run.witnesses()
    rc, out = C.coqc(C.COQ + "/Findings/C14.v", 600)
    if rc != 0: run.cov["stale_findings"] = ["coq/Findings/C14.v no longer compiles: " + out[-300:]]
    logging.disable(logging.CRITICAL)
    from ttconv.isd import ISD
    import ttconv.srt.writer as srt_w, ttconv.vtt.writer as vtt_w, ttconv.imsc.writer as imsc_w
    import ttconv.style_properties as s, ttconv.model as m
    import xml.etree.ElementTree as et

    ndocs = 200 if run.tier == "quick" else 3000
    nhist = 5 if run.tier == "quick" else 10
    rng = run.rng
    blocks, docs, nq, n_skipped_regions, n_scatter, n_hist_q = [], {}, 0, 0, 0, 0
    hist_fail, hist_render, n_ops, op_hist = [], [], 0, {o: 0 for o in set(OPS)}
    mut_hist, n_mut, n_stale, stale_first, mut_fail, edit_fail, mblocks, n_mq = {}, 0, 0, None, [], [], [], 0
    n_never, n_eqsets, n_fixed_hist, seq_render = 0, 0, 0, []
    prev_doc = None
    for k in range(ndocs):
        g = docgen.Gen(rng, style_density=0.06, anim_density=(0.05 if k % 2 else 0.01), display_p=0.05, ruby_p=0.04, region_ref_p=0.35)
        if k % 3 == 2: g.tp = 0.85; g.ruby_p = 0.0      # narrow content intervals: the cache skips whole documents/regions
        if k % 7 == 3: g.ruby_p = 0.25; g.dp = 0.0; g.tp = 0.1; g.rrp = 0.04; g.ad = 0.005   # ruby whose bases / annotations name regions
        d = g.doc(nreg=(0 if k % 5 == 0 else (rng.choice([2, 3]) if k % 7 == 3 else rng.choice([0, 1, 2, 2, 3]))))
        if k % 7 == 3: n_scatter += scatter_ruby_regions(rng, d, g)
        if k % 5 == 0 and not list(d.iter_regions()):
            d.put_initial_value(s.StyleProperties.BackgroundColor, rng.choice(docgen.COLORS))   # default region paints the initial background
        # regions whose background is visible only by animation or initial values
        for r in d.iter_regions():
            if k % 3 == 2 and rng.random() < 0.7:          # unanimated regions: the only ones _region_always_has_background can rule out
                for a in list(r.iter_animation_steps()): r.remove_animation_step(a)
            if rng.random() < (0.6 if k % 3 == 2 else 0.3): r.set_style(s.StyleProperties.ShowBackground, s.ShowBackgroundType.whenActive)
            if rng.random() < 0.3: r.set_style(s.StyleProperties.BackgroundColor, rng.choice(docgen.COLORS))
            if rng.random() < 0.2: r.set_style(s.StyleProperties.Opacity, rng.choice([0, 1]))
        nreg_d = len(list(d.iter_regions()))
        if nreg_d <= 1 and k % 2 == 0: n_never += inject_never_active(rng, d)       # the cache then holds the caller's own document
        if k % 5 == 2: n_eqsets += inject_equal_sets(rng, d)
        d_fresh = copy.deepcopy(d)       # an equal document that no ISD function has seen: answers on it are "fresh"
        fp_src = L.doc_lit(d)            # the fingerprint of the source before any ISD function has seen it
        try:
            st = ISD.significant_times(d)
        except Exception:
            st = None
        if L.doc_lit(d) != fp_src: hist_fail.append((k, "significant_times", "the source document changed"))
        qs = docgen.query_times(rng, d, 8 if run.tier == "quick" else 14)
        docs[k] = (d, qs)
        o = lambda x: "None" if x is None else "(Some " + x + ")"
        if st is not None:
            items, pairs = [], []
            for t in qs:
                c_lit, c_obj = isdcore.snapshot(d, t, st); u_lit, u_obj = isdcore.snapshot(d, t)
                items.append(f"({L.qlit(t)}, {o(c_lit)})"); pairs.append(f"({o(c_lit)}, {o(u_lit)})")
                if c_lit is not None and u_lit is not None: n_skipped_regions += len(list(u_obj.iter_regions())) - len(list(c_obj.iter_regions()))
            nq += len(qs)
            # one SignificantTimes object, a history of query times in random order with repetitions: against Model/IsdCache.v
            st_h = ISD.significant_times(d)
            hq = [rng.choice(qs) for _ in range(6 if run.tier == "quick" else 10)]
            hitems = [f"({L.qlit(t)}, {o(isdcore.snapshot(d, t, st_h)[0])})" for t in hq]
            n_hist_q += len(hq)
            defs = (f"Definition d{k} := {fp_src}.\nDefinition q{k} : list (Q * option (list elem)) := [{'; '.join(items)}].\n"
                    f"Definition r{k} : list (option (list elem) * option (list elem)) := [{'; '.join(pairs)}].\n"
                    f"Definition h{k} : list (Q * option (list elem)) := [{'; '.join(hitems)}].")
            blocks.append((k, defs, [f"cases_cached d{k} q{k}", f"cases_render r{k}", f"cases_raise r{k}", f"c14_flags d{k}", f"history_close d{k} h{k}"],
                           [len(qs), len(qs), len(qs), 2, len(hq)]))
        # ---- operation histories on the same document object: fingerprint after every call, repeated calls equal ----
        for h in range(nhist if k % 4 == 0 else 1):
            fp0 = L.doc_lit(d); results = {}; rendered = {}
            sig_objs = []
            fp_prev = L.doc_lit(prev_doc) if prev_doc is not None else None
            for step in range(rng.randint(2, 12)):
                op = rng.choice(OPS); key = op; n_ops += 1; op_hist[op] += 1
                try:
                    if op == "sig": sig_objs.append(ISD.significant_times(d)); res = [str(x) for x in sig_objs[-1]]
                    elif op == "snap":
                        t = rng.choice(qs); key = ("snap", t); res, obj = isdcore.snapshot(d, t)
                        if res is not None: rendered[key] = isdcore.render_lit(obj)
                    elif op == "snap_cached":
                        # any of the objects computed so far (older ones have served other calls in between)
                        if not sig_objs: sig_objs.append(ISD.significant_times(d))
                        t = rng.choice(qs); key = ("snapc", t); res, obj = isdcore.snapshot(d, t, rng.choice(sig_objs))
                        if res is not None: rendered[key] = isdcore.render_lit(obj)
                    elif op == "seq":
                        seq = ISD.generate_isd_sequence(d, is_multithreaded=False)
                        res = [(str(x), L.isd_lit(i)) for x, i in seq]
                        for x, i in seq:       # the entries are the cached snapshots an earlier object gives at those times
                            if ("snapc", x) in results and results[("snapc", x)] is not None and results[("snapc", x)] != L.isd_lit(i):
                                hist_fail.append((k, "seq", f"the sequence entry at {x} differs from the cached snapshot taken earlier")); break
                    elif op == "srt": res = srt_w.from_model(d)
                    elif op == "vtt": res = vtt_w.from_model(d)
                    elif op == "imsc": res = et.tostring(imsc_w.from_model(d).getroot())
                    else:
                        # a SignificantTimes object of ANOTHER document (the docstring asks for one generated from doc: misuse);
                        # whatever it returns, neither document nor either object may change
                        key = None; res = None
                        if prev_doc is not None:
                            t = rng.choice(qs)
                            try: ISD.from_model(d, t, ISD.significant_times(prev_doc))
                            except Exception: pass
                            if sig_objs:
                                try: ISD.from_model(prev_doc, t, rng.choice(sig_objs))
                                except Exception: pass
                            if L.doc_lit(prev_doc) != fp_prev: hist_fail.append((k, "foreign", "another document changed")); break
                except Exception as e:
                    res = "raised " + type(e).__name__
                if key is not None:
                    if key in results and results[key] != res: hist_fail.append((k, str(key), "a repeated call returned a different result"))
                    results[key] = res
                if L.doc_lit(d) != fp0: hist_fail.append((k, str(key), "the source document changed")); break
            # cached and uncached results of the same history, at the same time, render identically
            for (kind, t), lit in rendered.items():
                if kind == "snap" and ("snapc", t) in rendered and rendered[("snapc", t)] != lit: hist_render.append((k, str(t)))
            for key2, res in results.items():
                if isinstance(key2, tuple) and key2[0] == "snapc" and res is None and results.get(("snap", key2[1])) is not None:
                    hist_render.append((k, str(key2[1])))        # the cached call raised, the uncached one did not
        # ---- every cache-building entry point once, fingerprint after each: with at most one region the cache holds the
        #      caller's own document; the sequence entries against uncached snapshots of the pristine copy ----
        if nreg_d <= 1 or k % 5 == 2:
            fp0 = fp_src; n_fixed_hist += 1
            for name, f in (("significant_times", lambda: ISD.significant_times(d)),
                            ("generate_isd_sequence", lambda: ISD.generate_isd_sequence(d, is_multithreaded=False)),
                            ("srt writer", lambda: srt_w.from_model(d)), ("vtt writer", lambda: vtt_w.from_model(d))):
                try: r = f()
                except Exception: r = None
                n_ops += 1
                if L.doc_lit(d) != fp0: hist_fail.append((k, name, "the source document changed")); break
                if name == "generate_isd_sequence" and r is not None:
                    for x, i in r:
                        u_lit, u_obj = isdcore.snapshot(d_fresh, x)
                        if u_lit is not None and isdcore.render_lit(i) != isdcore.render_lit(u_obj): seq_render.append((k, str(x))); break
            if L.doc_lit(d_fresh) != fp0: hist_fail.append((k, "deepcopy", "the pristine copy differs from the source document"))
        # ---- edits through the model API between calls (on a deep copy, so that the case blocks above stay valid): after every
        #      edit each answer on the edited object must be the answer of a freshly built equal document ----
        if k % 3 == 1:
            dm = copy.deepcopy(d)
            if L.doc_lit(dm) != L.doc_lit(d): edit_fail.append((k, "deepcopy", "copy differs")); dm = None
            if dm is not None:
                # warm whatever state there may be: uncached snapshots, a SignificantTimes object, cached snapshots, a sequence
                for t in rng.sample(qs, min(3, len(qs))): isdcore.snapshot(dm, t)
                try:
                    old = ISD.significant_times(dm)
                    for t in rng.sample(qs, min(2, len(qs))): isdcore.snapshot(dm, t, old)
                    if rng.random() < 0.3: ISD.generate_isd_sequence(dm, is_multithreaded=False)
                except Exception:
                    old = None
                last = None
                for step in range(rng.randint(1, 3)):
                    try: what = edit(rng, dm, g)
                    except Exception as e: what = None
                    if not what: continue
                    n_mut += 1; mut_hist[what.split()[0]] = mut_hist.get(what.split()[0], 0) + 1
                    fresh_doc = copy.deepcopy(dm)
                    try: sig_now = ISD.significant_times(dm)
                    except Exception: sig_now = None
                    try: sig_fresh = ISD.significant_times(fresh_doc)
                    except Exception: sig_fresh = None
                    if (sig_now is None) != (sig_fresh is None) or (sig_now is not None and list(sig_now) != list(sig_fresh)):
                        edit_fail.append((k, what, "ISD.significant_times(doc) differs from that of a freshly built equal document"))
                    qm = docgen.query_times(rng, dm, 5)
                    urow, crow = [], []
                    for t in qm:
                        u_lit, u_obj = isdcore.snapshot(dm, t); uf_lit, _ = isdcore.snapshot(fresh_doc, t)
                        urow.append((t, u_lit))
                        if u_lit != uf_lit:
                            edit_fail.append((k, what, f"ISD.from_model(doc, {t}) on the edited document differs from the snapshot of a freshly built equal document"))
                        if sig_now is not None and sig_fresh is not None:
                            c_lit, c_obj = isdcore.snapshot(dm, t, sig_now); cf_lit, _ = isdcore.snapshot(fresh_doc, t, sig_fresh)
                            crow.append((t, c_lit))
                            if c_lit != cf_lit:
                                edit_fail.append((k, what, f"ISD.from_model(doc, {t}, sig_times) with an object built after the edit differs from a freshly built equal document"))
                            # the property on the edited document (judged through Python's render mirror and the document's trigger)
                            if u_lit is not None and (c_lit is None or isdcore.render_lit(u_obj) != isdcore.render_lit(c_obj)):
                                mut_fail.append((k, what, f"cached and uncached differ at {t} on the edited document"))
                            # the object computed before the edits
                            elif u_lit is not None and old is not None:
                                o_lit, o_obj = isdcore.snapshot(dm, t, old)
                                if o_lit is None or isdcore.render_lit(o_obj) != isdcore.render_lit(u_obj):
                                    n_stale += 1
                                    if stale_first is None: stale_first = f"document {k} after {what}: the earlier SignificantTimes object answers for the old document at t={t}"
                    last = (urow, crow)
                if last is not None:
                    # the edited document against M: uncached and cached answers given by the edited OBJECT, M applied to its literal
                    urow, crow = last
                    ui = "; ".join(f"({L.qlit(t)}, {o(x)})" for t, x in urow); ci = "; ".join(f"({L.qlit(t)}, {o(x)})" for t, x in crow)
                    mblocks.append((k, f"Definition m{k} := {L.doc_lit(dm)}.\nDefinition mu{k} : list (Q * option (list elem)) := [{ui}].\n"
                                       f"Definition mc{k} : list (Q * option (list elem)) := [{ci}].",
                                    [f"cases_isd m{k} mu{k}", f"cases_cached m{k} mc{k}", f"c14_flags m{k}"], [len(urow), len(crow), 2]))
                    n_mq += len(urow) + len(crow)
        prev_doc = d
    files = isdcore.write_shards("Cases_C14_", HEADER, blocks)
    bad, broken = isdcore.eval_shards(files)
    C.clean_cases("Cases_C14_")
    # the edited documents: M on the literal of the edited document vs the answers of the edited object; trigger flags
    mut_trig, mm_bad = set(), []
    if mblocks:
        files2 = isdcore.write_shards("Cases_C14m_", HEADER, mblocks)
        bad2, broken2 = isdcore.eval_shards(files2)
        C.clean_cases("Cases_C14m_")
        mut_trig = {c for c, i in bad2.get(2, []) if i == 1}; broken += broken2
        mm_bad = bad2.get(0, []) + bad2.get(1, [])
    mut_known = [x for x in mut_fail if x[0] in mut_trig]; mut_fail = [x for x in mut_fail if x[0] not in mut_trig]
    m_bad = bad.get(0, []); s_bad = bad.get(1, []); r_bad = bad.get(2, []); h_bad = bad.get(4, [])
    not_wf = {c for c, i in bad.get(3, []) if i == 0}; trig = {c for c, i in bad.get(3, []) if i == 1}
    sq_known = [c for c in seq_render if c[0] in trig]; sq_new = [c for c in seq_render if c[0] not in trig]
    run.log(f"{ndocs} documents ({len(not_wf)} outside doc_wf, {len(trig)} where the recorded trigger fires, {n_never} never-active elements injected "
            f"into 0/1-region documents, {n_eqsets} value-equal set steps), {nq} cached/uncached snapshot pairs ({n_skipped_regions} regions skipped "
            f"by the cache), {n_hist_q} history queries against the cache-state model, {n_ops} history operations ({n_fixed_hist} fixed "
            f"cache-builder histories), {n_mut} edits with {n_mq} answers against M ({n_stale} stale answers of older objects): "
            f"model/code mismatches {len(m_bad)}+{len(h_bad)}+{len(mm_bad)}, render differences {len(s_bad)}, cached-only raises {len(r_bad)}, "
            f"history failures {len(hist_fail)}+{len(hist_render)}+{len(seq_render)}, after edits {len(edit_fail)}+{len(mut_fail)}, broken {len(broken)}")

    def replay(case):
        k, i = case; d, qs = docs[k]
        st = ISD.significant_times(d)
        return dict(document=L.doc_lit(d), time=str(qs[i]), cached=isdcore.snapshot(d, qs[i], st)[0], uncached=isdcore.snapshot(d, qs[i])[0])
    # cached vs uncached: covered by the recorded finding exactly when the document's trigger fires
    s_known = [c for c in s_bad + r_bad if c[0] in trig]; s_new = [c for c in s_bad + r_bad if c[0] not in trig]
    hr_known = [c for c in hist_render if c[0] in trig]; hr_new = [c for c in hist_render if c[0] not in trig]
    if s_known or hr_known or mut_known or sq_known:
        c0 = (s_known or hr_known or mut_known or sq_known)[0]
        run.known("ruby-base-emptied-by-region", f"{len(s_known) + len(hr_known) + len(mut_known) + len(sq_known)} snapshot pairs in "
                  f"{len({c[0] for c in s_known + hr_known + mut_known + sq_known})} documents, e.g. document {c0[0]}")
    # an OLDER SignificantTimes object used after the document was modified answers from stale data: outside the property (its histories
    # are read-only on one document), so this is an observation in the evidence, neither a violation nor a recorded finding
    if n_stale: run.cov["observation_stale_object_after_modification"] = f"{n_stale} answers after {n_mut} modifications; {stale_first}"
    if s_new:
        what = "render differently" if s_new[0] in s_bad else "differ in outcome: the cached path raises, the uncached path returns a snapshot"
        run.violation(f"cached and uncached snapshots {what} (document {s_new[0][0]}, time index {s_new[0][1]})",
                      dict(kind="S-on-code", spec="coq/Spec/RenderSpec.v render", first=replay(s_new[0]), count=len(s_new)))
    if hr_new:
        k, t = hr_new[0]
        run.violation(f"inside one history the cached and the uncached snapshot at t={t} render differently (document {k})",
                      dict(kind="S-on-code", clause="history render", document=L.doc_lit(docs[k][0]), time=t))
    if sq_new:
        k, t = sq_new[0]
        run.violation(f"the entry of generate_isd_sequence at t={t} does not render like ISD.from_model(<fresh equal document>, {t}) (document {k})",
                      dict(kind="S-on-code", clause="sequence entry vs fresh uncached snapshot", document=L.doc_lit(docs[k][0]), time=t, count=len(sq_new)))
    if edit_fail:
        k, what, detail = edit_fail[0]
        run.violation(f"after {what} through the model API on a copy of document {k}: {detail}",
                      dict(kind="S-on-code", clause="answers after an edit = answers of a freshly built equal document", op=what, detail=detail,
                           document_before_edits=L.doc_lit(docs[k][0]), count=len(edit_fail), others=[(a_, b_, c_) for a_, b_, c_ in edit_fail[1:6]]))
    if hist_fail:
        k, key, what = hist_fail[0]
        run.violation(f"{what} after {key} (document {k})", dict(kind="S-on-code", clause=what, op=key, document=L.doc_lit(docs[k][0])))
    if mut_fail:
        k, what, detail = mut_fail[0]
        run.violation(f"after {what} on a copy of document {k}: {detail}", dict(kind="S-on-code", clause="modified document, fresh object", op=what,
                                                                              detail=detail, document=L.doc_lit(docs[k][0])))
    if (m_bad or h_bad or mm_bad or broken or not proofs_ok or not_wf) and not (s_new or hr_new or sq_new or hist_fail or mut_fail or edit_fail):
        what = []
        if not_wf: what.append(f"Spec/DocWf.v doc_wf is false of {len(not_wf)} documents built through the model API (first: document {sorted(not_wf)[0]}): the hypothesis of the C14 theorems is not what the API enforces")
        if not proofs_ok: what.append("theorems of coq/Properties/C14.v no longer check: " + getattr(run, "proof_log", "")[-500:])
        if m_bad: what.append(f"correspondence Model/SigTimes.v isd_cached vs ISD.from_model(doc, t, sig_times) disagrees on {len(m_bad)} snapshots")
        if h_bad: what.append(f"correspondence Model/IsdCache.v run_history vs a history of ISD.from_model calls on one SignificantTimes object disagrees on {len(h_bad)} answers")
        if mm_bad: what.append(f"M applied to the literal of an edited document disagrees with the answers of the edited object on {len(mm_bad)} snapshots (first: document {mm_bad[0][0]})")
        if broken: what.append(f"case files did not evaluate: {broken[0]}")
        run.violation("; ".join(what), dict(kind="broken-tie", theorem_file="coq/Properties/C14.v", proofs_ok=proofs_ok,
                                            correspondence="Model/SigTimes.v isd_cached / Model/IsdCache.v run_history vs ISD.from_model with sig_times",
                                            first=replay(m_bad[0]) if m_bad else None), found_input=False)
    run.cov.update(evaluations=nq + n_hist_q + n_ops + n_mut + n_mq, distinct_nontrivial=nq,
                   rule="random documents with 0-3 regions (backgrounds visible only by animation / initial values, opacity 0, whenActive; every 7th: "
                        "ruby-dense with the spans below rb/rt/rp naming regions) x query times: cached snapshot vs M, cached vs uncached through the "
                        "render specification and the outcome clause in Coq, hypotheses of the theorems (doc_wf, trigger) evaluated per document; per "
                        "document one SignificantTimes object queried at a random list of times with repetitions vs the cache-state model; plus random "
                        "histories of 2-12 operations over {significant_times, from_model uncached / cached with ANY of the objects computed so far, "
                        "generate_isd_sequence, SRT, VTT, IMSC writer, objects of another document passed in} on one document object with a structural "
                        "fingerprint after every call; for every document with at most one region (the cache then holds the caller's own document; every "
                        "second one gets never-active elements: begin = end, or a child beginning after its parent's end) and every document with "
                        "value-equal set steps on elements with different time bases: significant_times, generate_isd_sequence, SRT, VTT once each "
                        "with a fingerprint after each, the sequence entries compared with uncached snapshots of a pristine deep copy; plus, on a "
                        "deep copy of every third document, warmed by uncached/cached snapshots and a sequence, 1-3 edits through the model API "
                        "(set_begin/set_end on any element or ancestor, remove_child, push_child, put/remove_initial_value, set_text, set_region), "
                        "after each of which uncached snapshots, significant_times and cached snapshots with an object built after the edit must "
                        "equal those of a freshly built equal document, and M applied to the literal of the edited document must agree; objects "
                        "built before the edit are expected to be stale (recorded). distinct_nontrivial = snapshot pairs.",
                   samples=[dict(document=L.doc_lit(docs[0][0])[:1200])], documents=ndocs, regions_skipped_by_cache=n_skipped_regions,
                   documents_outside_doc_wf=len(not_wf), documents_where_trigger_fires=len(trig), ruby_spans_given_regions=n_scatter,
                   history_operations=n_ops, operation_histogram=op_hist, history_queries_vs_cache_state_model=n_hist_q,
                   edits=mut_hist, answers_after_edits_vs_M=n_mq, stale_answers_after_modification=n_stale, never_active_elements_injected=n_never,
                   value_equal_set_steps=n_eqsets, fixed_cache_builder_histories=n_fixed_hist,
                   model_code_mismatches=len(m_bad) + len(h_bad) + len(mm_bad), render_differences=len(s_bad), cached_only_raises=len(r_bad))
    run.assumptions += ["'the source is unchanged' is true of an immutable model by construction: that half is established by the fingerprint runs (testing)",
                        "process-global effects of the writers (namespace registration, loggers) are observed only through C19",
                        "when the uncached path raises (recorded C01 finding ruby-inactive-annotation, C18) the pair is not judged: the cached path may raise too or not"]
    return run.finish(["harness/isdlit.py", "harness/gen_core.py"])


if __name__ == "__main__":
    sys.exit(main())
