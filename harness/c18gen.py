"""Input generators and structure-aware mutators for the C18 robustness check.

Everything takes an explicit `random.Random`; every input is `bytes` (what `tt convert` would find in the file).
Five small grammars (SRT, WebVTT, SCC, EBU STL, IMSC/TTML) produce mostly valid files that exercise the optional
parts of each format; the mutators work on lines, tokens, numbers, bytes and (STL) header/TTI fields.
"""
import os, re, struct

NS = ('xmlns="http://www.w3.org/ns/ttml" xmlns:tts="http://www.w3.org/ns/ttml#styling" '
      'xmlns:ttp="http://www.w3.org/ns/ttml#parameter" xmlns:ttm="http://www.w3.org/ns/ttml#metadata" '
      'xmlns:ebutts="urn:ebu:tt:style" xmlns:itts="http://www.w3.org/ns/ttml/profile/imsc1#styling" '
      'xmlns:ittp="http://www.w3.org/ns/ttml/profile/imsc1#parameter"')

WORDS = ["hello", "world", "a", "Zoë", "日本語", "x y", "  ", "\t", "&", "<", "fin", "שלום", "1", "-", "...", "é", "ÅÄÖ", "‏", "😀"]


def pick(rng, xs): return xs[rng.randrange(len(xs))]
def chance(rng, p): return rng.random() < p


# ---------------------------------------------------------------------------------------------- SRT
def srt_time(rng, ms=None):
    if ms is None: ms = rng.choice([0, 1, 999, 1000, 59999, 3599999, 360000000 - 1, rng.randrange(0, 7200000), rng.randrange(0, 7200000)])
    h, r = divmod(ms, 3600000); m, r = divmod(r, 60000); s, r = divmod(r, 1000)
    hh = ("%03d" if (h > 99 or chance(rng, 0.05)) else "%02d") % h
    k = rng.random()
    # hour fields of any width (the SRT writer prints 1000:00:00,000 from 1000 h on); int() refuses more than 4300 digits
    if k < 0.04: hh = pick(rng, ["1000", "9999", "0100", "00000", "12345", "1" + "0" * rng.randrange(4, 40), "0" * rng.randrange(4, 40) + "7"])
    elif k < 0.046: hh = pick(rng, "0119") * pick(rng, [4299, 4300, 4301, 4302, 4400])
    elif k < 0.05: hh = pick(rng, ["1", "", "1 0", "１２"])
    return hh + ":%02d:%02d,%03d" % (m, s, r)

def closer(rng, name):
    """the end tag of <name>; one in eight is missing, doubled, of another name, in another case, or preceded by a stray one"""
    if chance(rng, 0.875): return "</%s>" % name
    return pick(rng, ["", "</%s></%s>" % (name, name), "</%s>" % pick(rng, ["b", "i", "u", "font", "ruby", "rt", "c", "v", "x"]), "</%s>" % name.upper(),
                      "</%s></%s>" % (pick(rng, ["b", "i", "rt", "ruby"]), name), "</>"])

def srt_text(rng, depth=0):
    out = []
    for _ in range(rng.randrange(1, 4)):
        k = rng.random()
        if k < 0.45 or depth > 3: out.append(pick(rng, WORDS))
        elif k < 0.8:
            t = pick(rng, ["b", "i", "u", "B", "bold", "italic", "underline", "font color=\"red\"", "font color=\"#ff00ff\"",
                           "font color=#00FF00AA", "font size=\"3\"", "font", "x", "c.red"])
            out.append("<%s>%s%s" % (t, srt_text(rng, depth + 1), closer(rng, t.split()[0].split(".")[0])))
        elif k < 0.9:
            t = pick(rng, ["bold", "italic", "underline", "b", "i"])
            out.append("{%s}%s{/%s}" % (t, srt_text(rng, depth + 1), t))
        else: out.append("&amp; &lt; &#65; &nbsp")
    return pick(rng, ["", " ", ""]).join(out)

def gen_srt(rng):
    nl = "\r\n" if chance(rng, 0.2) else "\n"
    out = []
    if chance(rng, 0.1): out.append("﻿")
    if chance(rng, 0.15): out.append(nl * rng.randrange(1, 3))
    t = rng.randrange(0, 5000)
    for i in range(rng.randrange(0, 6)):
        b = t + rng.choice([0, 0, 1, 500, 1000, rng.randrange(0, 4000)]); e = b + rng.choice([0, 1, 2, 999, 1000, rng.randrange(1, 5000)]); t = e
        out.append(str(i + 1 if chance(rng, 0.9) else rng.randrange(0, 10**6)) + nl)
        out.append(srt_time(rng, b) + pick(rng, [" --> ", "  -->  ", "\t-->\t"]) + srt_time(rng, e) + pick(rng, ["", "", " X1:10 X2:20", " "]) + nl)
        for _ in range(rng.choice([0, 1, 1, 1, 2, 3])):
            out.append(srt_text(rng) + nl)
        out.append(nl * rng.choice([0, 1, 1, 1, 2]))
    return "".join(out).encode("utf-8")


# ---------------------------------------------------------------------------------------------- WebVTT
def vtt_time(rng, ms, hours=None):
    h, r = divmod(ms, 3600000); m, r = divmod(r, 60000); s, r = divmod(r, 1000)
    if hours is None: hours = h > 0 or chance(rng, 0.3)
    return (("%02d:" % h) if hours else "") + "%02d:%02d.%03d" % (m, s, r)

VTT_FMT = ["b", "i", "u", "c", "c.yellow", "c.bg_blue.lime", "v Bob", "lang en", "b.x", "i"]

def vtt_wrap(rng, inner, depth, sloppy=0.06):
    """inner wrapped in `depth` formatting tags (innermost first); a closing tag is now and then missing / doubled / of another name"""
    for _ in range(depth):
        t = pick(rng, VTT_FMT); name = t.split()[0].split(".")[0]
        inner = "<%s>%s%s" % (t, inner, closer(rng, name) if chance(rng, sloppy * 8) else "</%s>" % name)
    return inner

def vtt_ruby(rng, b, e):
    """one ruby element: one to three base / annotation pairs; the annotation holds formatting nested zero to three deep (two deep and
    more is where the parser returns to a span inside the <rt>), optionally text next to it and a timestamp tag; </rt> is omitted in one
    of four; base text or another <rt> follows inside the same ruby element; the ruby end tag is usually there"""
    parts = []
    for j in range(rng.choice([1, 1, 2, 2, 3])):
        base = pick(rng, ["漢", "字", "base", "a", "x y", "東京", "B", "", "&amp;"]) if (j or chance(rng, 0.9)) else ""
        ann = pick(rng, ["かん", "じ", "x", "ann", "to kyo", "y", "&lt;"])
        d = rng.choice([0, 0, 1, 1, 2, 2, 2, 3])
        ann = vtt_wrap(rng, ann, d)
        k = rng.random()
        if k < 0.12: ann = pick(rng, ["p", "pre "]) + ann
        elif k < 0.24: ann = ann + pick(rng, ["s", " post"])
        elif k < 0.30: ann = ann + vtt_wrap(rng, "z", rng.choice([1, 2]))
        elif k < 0.36: ann = "<%s>" % vtt_time(rng, rng.choice([b, e, (b + e) // 2])) + ann
        parts.append(base + pick(rng, ["<rt>", "<rt>", "<rt>", "<rt.small>", "<RT>"]) + ann + ("" if chance(rng, 0.25) else "</rt>"))
    tail = pick(rng, ["", "", "tail", " more", "末", vtt_wrap(rng, "t", 1)])          # the last is a tag directly inside <ruby>: recorded structure
    return "<ruby>" + "".join(parts) + tail + (closer(rng, "ruby") if chance(rng, 0.3) else "</ruby>")

def vtt_text(rng, b, e, depth=0, ruby=True):
    out = []
    for _ in range(rng.randrange(1, 4)):
        k = rng.random()
        if k < 0.4 or depth > 3: out.append(pick(rng, WORDS).replace("<", "&lt;").replace("&", "&amp;"))
        elif k < 0.75:
            t = pick(rng, ["b", "i", "u", "c", "c.red", "c.bg_blue.lime", "c.unknown", "v Bob", "v.loud Mary Ann", "lang en", "lang", "lang fr-CA", "b.x", "q"])
            out.append("<%s>%s%s" % (t, vtt_text(rng, b, e, depth + 1, ruby), closer(rng, t.split()[0].split(".")[0])))
        elif k < 0.83 and ruby and (depth == 0 or chance(rng, 0.2)) and chance(rng, 0.65):
            # several ruby elements per cue, text between them; below depth 0 this is "formatting around ruby" (recorded structure)
            out.append(pick(rng, ["", " ", "と"]).join(vtt_ruby(rng, b, e) for _ in range(rng.choice([1, 1, 1, 2, 3]))))
        elif k < 0.83 and ruby and depth == 0:
            out.append("<ruby>%s<rt>%s%s%s%s" % (pick(rng, WORDS[:6]), pick(rng, WORDS[:6]), pick(rng, ["</rt>", "</rt>", "</rt>", ""]), pick(rng, ["", "", "b<rt>c</rt>", "b<rt>c"]),
                                                 closer(rng, "ruby")))
        elif k < 0.85:
            out.append(pick(rng, ["<rt>x</rt>", "<rt>", "</rt>", "</ruby>", "<rt.a b>y"]))
        elif k < 0.9:
            out.append("<%s>" % vtt_time(rng, rng.choice([b, e, (b + e) // 2, b + 1, max(0, b - 1), e + 1000])))
        else: out.append(pick(rng, ["&amp;", "&lt;", "&gt;", "&lrm;", "&rlm;", "&nbsp;", "&#x41;", "&bogus;", "&amp"]))
    return pick(rng, ["", " "]).join(out)

VTT_SETTINGS = ["vertical:rl", "vertical:lr", "line:0", "line:-1", "line:5", "line:10%", "line:50%,center", "line:100%,end", "line:3,start",
                "position:0%", "position:50%", "position:100%,line-right", "position:10%,line-left", "position:45%,center", "size:0%", "size:50%",
                "size:100%", "align:start", "align:center", "align:end", "align:left", "align:right", "region:fred", "align:middle", "line:", "size:5",
                "position:abc", "vertical:", "foo:bar", "a:b:c", "line:1.5%", "size:33.333%"]

def gen_vtt(rng):
    nl = "\r\n" if chance(rng, 0.15) else "\n"
    out = [pick(rng, ["WEBVTT", "WEBVTT", "WEBVTT", "﻿WEBVTT", "WEBVTT - title", "WEBVTT\tx", "WEBVTT FILE"]) + nl]
    if chance(rng, 0.2): out.append("Kind: captions" + nl + "Language: en" + nl)
    out.append(nl)
    t = rng.randrange(0, 5000)
    for i in range(rng.randrange(0, 6)):
        k = rng.random()
        if k < 0.12:
            out.append(pick(rng, ["NOTE ", "NOTE\t", "NOTE"]) + "a comment" + nl + ("more --> comment" + nl if chance(rng, 0.3) else "") + nl); continue
        if k < 0.2:
            out.append("STYLE" + nl + "::cue(b) { color: red }" + nl + nl); continue
        if k < 0.26:
            out.append("REGION" + nl + "id:fred" + nl + "width:40%" + nl + "lines:3" + nl + "regionanchor:0%,100%" + nl + "viewportanchor:10%,90%" + nl + "scroll:up" + nl + nl); continue
        b = t + rng.choice([0, 0, 1, 500, 1000, rng.randrange(0, 4000)]); e = b + rng.choice([0, 1, 2, 999, 1000, rng.randrange(1, 5000)]); t = e
        if chance(rng, 0.4): out.append(pick(rng, [str(i + 1), "cue-%d" % i, "an id with spaces"]) + nl)
        st = " ".join(rng.sample(VTT_SETTINGS, rng.choice([0, 0, 0, 1, 1, 2, 3])))
        hours = chance(rng, 0.4)
        out.append(vtt_time(rng, b, hours) + pick(rng, [" --> ", "  -->  ", "\t-->\t"]) + vtt_time(rng, e, hours) + (" " + st if st else "") + nl)
        for _ in range(rng.choice([0, 1, 1, 1, 2, 3])):
            out.append(vtt_text(rng, b, e) + nl)
        out.append(nl * rng.choice([0, 1, 1, 1, 2]))
    return "".join(out).encode("utf-8")


# ---------------------------------------------------------------------------------------------- SCC
def parity(b):
    return b | 0x80 if bin(b).count("1") % 2 == 0 else b

def scc_word(hi, lo, rng=None):
    return "%02x%02x" % (parity(hi), parity(lo))

def scc_text_words(rng):
    s = pick(rng, ["HELLO WORLD", "hi", "a", "Testing, testing.", "[MUSIC]", "x" * 34, "ab", "  >> ok"])
    if len(s) % 2: s += rng.choice([" ", "\x00"])
    return [scc_word(ord(s[i]), ord(s[i + 1])) for i in range(0, len(s), 2)]

PAC_HI = [0x11, 0x12, 0x15, 0x16, 0x17, 0x10, 0x13, 0x14]
def scc_pac(rng, ch2=False):
    hi = pick(rng, PAC_HI) + (8 if ch2 else 0)
    lo = rng.randrange(0x40, 0x80)
    if hi & 0x07 == 0 and lo >= 0x60: lo -= 0x20
    return scc_word(hi, lo)

def scc_ctrl(rng, name, ch2=False):
    lo = {"RCL": 0x20, "BS": 0x21, "AOF": 0x22, "AON": 0x23, "DER": 0x24, "RU2": 0x25, "RU3": 0x26, "RU4": 0x27, "FON": 0x28, "RDC": 0x29,
          "TR": 0x2A, "RTD": 0x2B, "EDM": 0x2C, "CR": 0x2D, "ENM": 0x2E, "EOC": 0x2F}.get(name)
    if lo is not None: return scc_word(0x14 + (8 if ch2 else 0) + (rng.choice([0, 0, 0, 1]) if name != "x" else 0), lo)
    return scc_word(0x17 + (8 if ch2 else 0), {"TO1": 0x21, "TO2": 0x22, "TO3": 0x23}[name])

def scc_misc(rng, ch2=False):
    k = rng.random(); c = 8 if ch2 else 0
    if k < 0.3: return scc_word(0x11 + c, rng.randrange(0x20, 0x30))          # mid-row
    if k < 0.55: return scc_word(0x11 + c, rng.randrange(0x30, 0x40))         # special char
    if k < 0.8: return scc_word(rng.choice([0x12, 0x13]) + c, rng.randrange(0x20, 0x40))   # extended
    if k < 0.9: return scc_word(0x10 + c, rng.randrange(0x20, 0x30))          # background attribute
    return scc_word(0x17 + c, rng.randrange(0x21, 0x30))                      # tab offsets / foreground attribute

def gen_scc(rng):
    nl = "\r\n" if chance(rng, 0.2) else "\n"
    out = [pick(rng, ["Scenarist_SCC V1.0", "Scenarist_SCC V1.0", "Scenarist_SCC V2.0", ""]) + nl, nl]
    f = rng.randrange(0, 108000 * 2); df = chance(rng, 0.4)
    for _ in range(rng.randrange(0, 7)):
        f += rng.choice([0, 1, 5, 30, 60, 100, rng.randrange(0, 400)])
        ff = f % 30; s = f // 30 % 60; m = f // 1800 % 60; h = f // 108000 % 100
        if df and ff < 2 and s == 0 and m % 10: ff = 2
        tc = "%02d:%02d:%02d%s%02d" % (h, m, s, pick(rng, [";", ";", ",", "."]) if df else ":", ff)
        style = rng.random(); ch2 = chance(rng, 0.08); words = []
        def dbl(w): return [w, w] if chance(rng, 0.7) else [w]
        if style < 0.45:      # pop-on
            words += dbl(scc_ctrl(rng, "RCL", ch2))
            if chance(rng, 0.3): words += dbl(scc_ctrl(rng, "ENM", ch2))
            for _ in range(rng.randrange(1, 4)):
                words += dbl(scc_pac(rng, ch2))
                if chance(rng, 0.3): words += dbl(scc_ctrl(rng, pick(rng, ["TO1", "TO2", "TO3"]), ch2))
                words += scc_text_words(rng)
                if chance(rng, 0.4): words += dbl(scc_misc(rng, ch2)) + scc_text_words(rng)
            if chance(rng, 0.7): words += dbl(scc_ctrl(rng, "EDM", ch2))
            if chance(rng, 0.9): words += dbl(scc_ctrl(rng, "EOC", ch2))
        elif style < 0.7:     # roll-up
            words += dbl(scc_ctrl(rng, pick(rng, ["RU2", "RU3", "RU4"]), ch2)) + dbl(scc_ctrl(rng, "CR", ch2))
            if chance(rng, 0.7): words += dbl(scc_pac(rng, ch2))
            words += scc_text_words(rng)
            if chance(rng, 0.3): words += dbl(scc_ctrl(rng, "CR", ch2)) + scc_text_words(rng)
        elif style < 0.88:    # paint-on
            words += dbl(scc_ctrl(rng, "RDC", ch2)) + dbl(scc_pac(rng, ch2)) + scc_text_words(rng)
            if chance(rng, 0.4): words += dbl(scc_ctrl(rng, pick(rng, ["BS", "DER", "EDM", "TR", "FON", "AOF", "AON", "RTD"]), ch2))
            if chance(rng, 0.4): words += dbl(scc_pac(rng, ch2)) + scc_text_words(rng)
        else:                 # soup
            for _ in range(rng.randrange(1, 12)):
                k = rng.random()
                if k < 0.3: words.append(scc_ctrl(rng, pick(rng, ["RCL", "BS", "AOF", "AON", "DER", "RU2", "RU3", "RU4", "FON", "RDC", "TR", "RTD", "EDM", "CR", "ENM", "EOC", "TO1", "TO2", "TO3"]), chance(rng, 0.2)))
                elif k < 0.5: words.append(scc_pac(rng, chance(rng, 0.2)))
                elif k < 0.7: words.append(scc_misc(rng, chance(rng, 0.2)))
                elif k < 0.8: words.append("8080")
                elif k < 0.9: words.append("%04x" % rng.randrange(65536))
                else: words += scc_text_words(rng)
        if chance(rng, 0.2): words = ["8080"] * rng.randrange(1, 4) + words
        out.append(tc + "\t" + pick(rng, [" ", " ", " ", "  "]).join(words) + pick(rng, ["", "", " "]) + nl + (nl if chance(rng, 0.8) else ""))
    return "".join(out).encode("utf-8")


# ---------------------------------------------------------------------------------------------- EBU STL
GSI_FMT = '3s8sc2s2s32s32s32s32s32s32s16s6s6s2s5s5s3s2s2s1s8s8s1s1s3s32s32s32s75x576s'
GSI_FIELDS = ["CPN", "DFC", "DSC", "CCT", "LC", "OPT", "OET", "TPT", "TET", "TN", "TCD", "SLR", "CD", "RD", "RN", "TNB", "TNS", "TNG", "MNC",
              "MNR", "TCS", "TCP", "TCF", "TND", "DSN", "CO", "PUB", "EN", "ECD", "UDA"]
def _gsi_offsets():
    off = 0; res = {}; names = iter(GSI_FIELDS)
    for cnt, code in re.findall(r"(\d*)([scx])", GSI_FMT):
        n = int(cnt or 1)
        if code != "x": res[next(names)] = (off, n)
        off += n
    assert off == 1024
    return res
GSI_OFF = _gsi_offsets()

def stl_tf(rng, cct, teletext):
    out = bytearray()
    for ln in range(rng.choice([1, 1, 2, 2, 3])):
        if ln: out += bytes([0x8A] * rng.choice([1, 1, 2]))
        if teletext:
            if chance(rng, 0.5): out += bytes([rng.choice([0x0D, 0x0D, 0x0C])])
            out += bytes([rng.randrange(0, 8)])
            if chance(rng, 0.5): out += bytes([0x0B, 0x0B])
            if chance(rng, 0.2): out += bytes([rng.randrange(0, 8), 0x1D, rng.randrange(0, 8)])
        for _ in range(rng.randrange(1, 5)):
            k = rng.random()
            if k < 0.55: out += pick(rng, [b"Hello", b"world", b"a", b"Test.", b"x y", b"  "])
            elif k < 0.7: out += bytes([rng.randrange(0xC1, 0xD0), rng.choice(b"aeiouAEIOUcnyz g")])
            elif k < 0.8: out += bytes([rng.choice([0x80, 0x81, 0x82, 0x83, 0x84, 0x85])])
            elif k < 0.9: out += bytes([rng.randrange(0xA0, 0x100)])
            else: out += bytes([rng.randrange(0x00, 0x20)])
            if chance(rng, 0.5): out += b" "
        if teletext and chance(rng, 0.4): out += bytes([0x0A, 0x0A])
    return bytes(out)

def stl_tti(sgn, sn, ebn, cs, tci, tco, vp, jc, cf, tf):
    tf = tf[:112]; tf = tf + b"\x8f" * (112 - len(tf))
    return struct.pack('<BHBBBBBBBBBBBBB112s', sgn, sn, ebn, cs, *tci, *tco, vp, jc, cf, tf)

def stl_gsi(rng, fields):
    buf = bytearray(b" " * 1024)
    for k, v in fields.items():
        off, n = GSI_OFF[k]; v = (v + b" " * n)[:n]; buf[off:off + n] = v
    return bytes(buf)

def gen_stl(rng):
    dfc = pick(rng, [b"STL25.01", b"STL25.01", b"STL30.01", b"STL24.01", b"STL23.01", b"STL50.01", b"STL29.97"])
    fps = {b"STL25.01": 25, b"STL30.01": 30, b"STL24.01": 24, b"STL23.01": 24, b"STL50.01": 50}.get(dfc, 25)
    dsc = pick(rng, [b"1", b"2", b"0", b" ", b"1"])
    cct = pick(rng, [b"00", b"00", b"01", b"02", b"03", b"04"])
    n = rng.randrange(0, 6)
    tcp = bytes("%02d%02d%02d%02d" % (rng.choice([0, 0, 10, 1]), 0, 0, 0), "ascii")
    g = dict(CPN=pick(rng, [b"850", b"437", b"865"]), DFC=dfc, DSC=dsc, CCT=cct, LC=pick(rng, [b"09", b"0F", b"7F", b"2C", b"  "]),
             OPT=b"Programme", TN=b"0001", CD=b"210101", RD=b"210102", RN=b"01", TNB=b"%05d" % n, TNS=b"%05d" % n, TNG=b"001", MNC=b"40",
             MNR=pick(rng, [b"23", b"23", b"11", b"99", b"02"]), TCS=b"1", TCP=tcp, TCF=tcp, TND=b"1", DSN=b"1", CO=b"GBR")
    blocks = []
    base = int(tcp[0:2]) * 3600 * fps
    fr = base + rng.randrange(0, 200); sn = rng.choice([0, 1, 250, 300])
    def tc(f): return (f // (3600 * fps) % 24, f // (60 * fps) % 60, f // fps % 60, f % fps)
    for i in range(n):
        b = fr + rng.choice([0, 1, 25, rng.randrange(0, 300)]); e = b + rng.choice([0, 1, 25, 50, rng.randrange(1, 200)]); fr = e
        tele = dsc in (b"1", b"2")
        k = rng.random(); vp = rng.choice([1, 2, 10, 11, 12, 20, 22, 23, 0, 99])
        jc = rng.choice([0, 1, 2, 3]); sgn = rng.choice([0, 0, 0, 1])
        if k < 0.6:
            blocks.append(stl_tti(sgn, sn, 0xFF, 0, tc(b), tc(e), vp, jc, 0, stl_tf(rng, cct, tele)))
        elif k < 0.75:     # extension chain
            for x in range(rng.randrange(1, 3)):
                blocks.append(stl_tti(sgn, sn, x, 0, tc(b), tc(e), vp, jc, 0, stl_tf(rng, cct, tele)))
            blocks.append(stl_tti(sgn, sn, 0xFF, 0, tc(b), tc(e), vp, jc, 0, stl_tf(rng, cct, tele)))
        elif k < 0.9:      # cumulative set
            m = rng.randrange(2, 4)
            for x in range(m):
                cs = 1 if x == 0 else (3 if x == m - 1 else 2)
                blocks.append(stl_tti(sgn, sn, 0xFF, cs, tc(b + x), tc(e), vp, jc, 0, stl_tf(rng, cct, tele)))
                sn += 1
        else:              # user data / comment
            blocks.append(stl_tti(sgn, sn, 0xFE, 0, tc(b), tc(e), vp, jc, rng.choice([0, 1]), b"user data"))
        sn += rng.choice([1, 1, 1, 0, 2])
    return stl_gsi(rng, g) + b"".join(blocks)


# ---------------------------------------------------------------------------------------------- IMSC
LEN = ["10%", "1c", "2em", "16px", "0px", "1.5c", "100%", "0.5rh", "5rw", "-1%", "1e3px", ".5em", "1", "px", "10 %"]
COLORS = ["red", "#ff0000", "#00ff0080", "rgb(1,2,3)", "rgba(255,255,255,128)", "transparent", "#fff", "rgb(256,0,0)", "blue ", "BLACK"]
STYLE_VALUES = {
    "tts:backgroundColor": COLORS, "tts:color": COLORS,
    "tts:direction": ["ltr", "rtl", "up"], "tts:disparity": LEN, "tts:display": ["auto", "none", "block"],
    "tts:displayAlign": ["before", "center", "after", "justify"], "tts:extent": ["50% 50%", "100px 100px", "auto", "10c 2c", "50%", "1px", "", "contain", "10rw 10rh", "50% 50% 50%"],
    "itts:fillLineGap": ["true", "false", "1"], "tts:fontFamily": ["default", "Arial, sansSerif", "'a b', monospace", "", "proportionalSansSerif", ","],
    "tts:fontSize": LEN + ["1c 2c", "100% 100%"], "tts:fontStyle": ["normal", "italic", "oblique", "bold"], "tts:fontWeight": ["normal", "bold", "700"],
    "tts:lineHeight": ["normal", "125%"] + LEN, "ebutts:linePadding": ["0.5c", "1c", "0c", "10%", "1px"], "tts:luminanceGain": ["1", "2.5", "0", "-1", "x", "1e400", "nan", "inf"],
    "ebutts:multiRowAlign": ["start", "center", "end", "auto", "justify"], "tts:opacity": ["1", "0.5", "0", "2", "-1", "x", "nan", "inf", "1e400"],
    "tts:origin": ["10% 10%", "0px 0px", "auto", "1c 1c", "10%", "", "10% 10% 10%", "-10% 110%"], "tts:overflow": ["visible", "hidden", "scroll"],
    "tts:padding": ["1%", "1% 2%", "1% 2% 3%", "1% 2% 3% 4%", "1c", "1px 1em", "", "1% 2% 3% 4% 5%", "auto"],
    "tts:position": ["center", "left top", "right 10% bottom 20%", "10% 20%", "top", "bottom right", "center center", "left 10%", "10% bottom", "left right",
                     "", "center left 10%", "1 2 3 4 5", "bottom 10% right"],
    "tts:rubyAlign": ["center", "spaceAround", "start"], "tts:rubyPosition": ["outside", "before", "after", "x"],
    "tts:rubyReserve": ["none", "both", "both 1em", "outside 50%", "before 1c", "after", "1em", "both 1em 1em", ""],
    "tts:shear": ["0%", "16.67%", "-100%", "200%", "x", "1", "nan%", "inf%"], "tts:showBackground": ["always", "whenActive", "never"],
    "tts:textAlign": ["start", "center", "end", "left", "right", "justify"], "tts:textCombine": ["none", "all", "digits 2"],
    "tts:textDecoration": ["none", "underline", "noUnderline lineThrough", "overline noOverline", "underline underline", "blink", ""],
    "tts:textEmphasis": ["none", "auto", "dot", "filled circle", "open sesame before", "\"x\" red outside", "circle after #ff0000", "filled", "before", "red", "",
                         "auto auto", "dot circle", "outside before"],
    "tts:textOutline": ["none", "1px", "red 1px", "1px 2px", "red", "10%", "", "red 1px 2px 3px", "1px red"],
    "tts:textShadow": ["none", "1px 2px", "1px 2px 3px", "1px 2px red", "1px 2px 3px red", "1px", "red", "1px 2px, 3px 4px blue", "", ",", "1px 2px 3px 4px red", "1em 1em"],
    "tts:unicodeBidi": ["normal", "embed", "bidiOverride", "isolate"], "tts:visibility": ["visible", "hidden", "x"], "tts:wrapOption": ["wrap", "noWrap", "x"],
    "tts:writingMode": ["lrtb", "rltb", "tbrl", "tblr", "lr", "rl", "tb", "x"], "tts:ruby": ["none", "container", "base", "baseContainer", "text", "textContainer", "delimiter", "x"],
}
STYLE_NAMES = sorted(STYLE_VALUES)
TIMES = ["0s", "1s", "2s", "1.5s", "10s", "500ms", "1h", "1m", "00:00:01", "00:00:02.500", "00:00:03:12", "25f", "10t", "100t", "0.0001s", "1.00001s",
         "00:00:01.5", "1:00:00", "-1s", "", "x", "1e3s", "00:00:60", "999999h", "1.5f", "00:00:01:99", "0.1m", ".5s", "5", "00:01", "1s "]

def imsc_style_attrs(rng, n=None):
    n = rng.choice([0, 0, 1, 1, 2, 3]) if n is None else n
    out = []
    for name in rng.sample(STYLE_NAMES, n):
        vals = STYLE_VALUES[name]
        v = pick(rng, vals) if chance(rng, 0.9) else pick(rng, STYLE_VALUES[pick(rng, STYLE_NAMES)])
        out.append('%s="%s"' % (name, xml_attr(v)))
    return out

def xml_attr(v): return v.replace("&", "&amp;").replace("<", "&lt;").replace('"', "&quot;")
def xml_text(v): return v.replace("&", "&amp;").replace("<", "&lt;")

def imsc_timing(rng, p=0.5):
    out = []
    if chance(rng, p):
        out.append('begin="%s"' % pick(rng, TIMES[:18] if chance(rng, 0.9) else TIMES))
    if chance(rng, p):
        out.append('%s="%s"' % (pick(rng, ["end", "end", "dur"]), pick(rng, TIMES[:18] if chance(rng, 0.9) else TIMES)))
    if chance(rng, 0.08): out.append('timeContainer="%s"' % pick(rng, ["seq", "par", "seq", "x"]))
    return out

def imsc_common(rng, regions, styles):
    out = []
    if regions and chance(rng, 0.3): out.append('region="%s"' % pick(rng, regions + ["nosuch"] if chance(rng, 0.1) else regions))
    if styles and chance(rng, 0.25): out.append('style="%s"' % " ".join(rng.sample(styles + ["nosuch"], rng.randrange(1, min(3, len(styles)) + 1))))
    if chance(rng, 0.08): out.append('xml:lang="%s"' % pick(rng, ["en", "fr", "", "ja-JP"]))
    if chance(rng, 0.1): out.append('xml:space="%s"' % pick(rng, ["preserve", "default", "x"]))
    if chance(rng, 0.05): out.append('xml:id="e%d"' % rng.randrange(1000))
    return out

def imsc_set(rng):
    name = pick(rng, STYLE_NAMES)
    return "<set %s/>" % " ".join(imsc_timing(rng, 0.7) + ['%s="%s"' % (name, xml_attr(pick(rng, STYLE_VALUES[name])))])

def imsc_inline(rng, regions, styles, depth):
    out = []
    for _ in range(rng.randrange(0, 4)):
        k = rng.random()
        if k < 0.4: out.append(xml_text(pick(rng, WORDS + ["  two  spaces  ", "\n  line\n  break\n"])))
        elif k < 0.5: out.append("<br/>" if chance(rng, 0.8) else "<br %s>%s</br>" % (" ".join(imsc_timing(rng, 0.3) + imsc_style_attrs(rng, rng.choice([0, 0, 1]))), pick(rng, ["", "x", "<span>y</span>"])))
        elif k < 0.56: out.append(imsc_set(rng))
        elif k < 0.66 and depth < 3:
            # ruby
            t = " ".join(imsc_timing(rng, 0.3))
            kind = rng.random()
            if kind < 0.5:
                out.append('<span tts:ruby="container"><span tts:ruby="base">%s</span>%s<span tts:ruby="text" %s>%s</span>%s</span>' % (
                    pick(rng, WORDS[:6]), '<span tts:ruby="delimiter">(</span>' if chance(rng, 0.3) else "", t, pick(rng, WORDS[:6]),
                    '<span tts:ruby="delimiter">)</span>' if chance(rng, 0.3) else ""))
            elif kind < 0.8:
                out.append('<span tts:ruby="container"><span tts:ruby="baseContainer"><span tts:ruby="base">a</span><span tts:ruby="base" %s>b</span></span>'
                           '<span tts:ruby="textContainer" %s><span tts:ruby="text">c</span><span tts:ruby="text">d</span></span>%s</span>' % (
                               t, " ".join(imsc_timing(rng, 0.2)), '<span tts:ruby="textContainer" tts:rubyPosition="after"><span tts:ruby="text">e</span></span>' if chance(rng, 0.4) else ""))
            else:
                out.append('<span tts:ruby="%s">%s</span>' % (pick(rng, ["container", "base", "text", "textContainer", "baseContainer", "delimiter"]), imsc_inline(rng, regions, styles, depth + 1)))
        elif depth < 4:
            out.append("<span %s>%s</span>" % (" ".join(imsc_timing(rng, 0.3) + imsc_common(rng, regions, styles) + imsc_style_attrs(rng)), imsc_inline(rng, regions, styles, depth + 1)))
    return "".join(out)

def gen_imsc(rng):
    tt_attrs = [NS, 'xml:lang="%s"' % pick(rng, ["en", "", "fr-CA"])]
    if chance(rng, 0.3): tt_attrs.append('ttp:frameRate="%s"' % pick(rng, ["25", "30", "24", "0", "x", "60"]))
    if chance(rng, 0.15): tt_attrs.append('ttp:frameRateMultiplier="%s"' % pick(rng, ["1000 1001", "1 1", "1", "0 1", "1 0", "x y"]))
    if chance(rng, 0.2): tt_attrs.append('ttp:tickRate="%s"' % pick(rng, ["10", "1000", "10000000", "0", "x", "-1"]))
    if chance(rng, 0.2): tt_attrs.append('ttp:cellResolution="%s"' % pick(rng, ["32 15", "40 24", "1 1", "0 0", "32", "x y", "32 15 3"]))
    if chance(rng, 0.15): tt_attrs.append('tts:extent="%s"' % pick(rng, ["1920px 1080px", "640px 480px", "100% 100%", "1920px", "0px 0px", "x", "1.5px 2px", "auto"]))
    if chance(rng, 0.1): tt_attrs.append('ittp:activeArea="%s"' % pick(rng, ["10% 10% 80% 80%", "0% 0% 100% 100%", "10% 10%", "x", "50% 50% 80% 80%", "-1% 0% 1% 1%"]))
    if chance(rng, 0.1): tt_attrs.append('ittp:aspectRatio="%s"' % pick(rng, ["16 9", "4 3", "0 0", "x", "16"]))
    if chance(rng, 0.08): tt_attrs.append('ttp:displayAspectRatio="%s"' % pick(rng, ["16 9", "4 3", "0 0", "x"]))
    if chance(rng, 0.1): tt_attrs.append('ttp:timeBase="%s"' % pick(rng, ["media", "smpte", "clock"]))
    if chance(rng, 0.1): tt_attrs.append('xml:space="%s"' % pick(rng, ["preserve", "default"]))
    styles = ["s%d" % i for i in range(rng.choice([0, 0, 1, 2, 3]))]
    regions = ["r%d" % i for i in range(rng.choice([0, 0, 1, 1, 2, 3]))]
    head = []
    if styles or chance(rng, 0.2):
        st = []
        for _ in range(rng.choice([0, 0, 1])): st.append("<initial %s/>" % " ".join(imsc_style_attrs(rng, 1)))
        for s in styles:
            ref = ['style="%s"' % " ".join(rng.sample(styles, rng.randrange(1, len(styles) + 1)))] if chance(rng, 0.3) else []
            st.append('<style xml:id="%s" %s/>' % (s, " ".join(ref + imsc_style_attrs(rng, rng.randrange(0, 4)))))
        head.append("<styling>%s</styling>" % "".join(st))
    if regions or chance(rng, 0.2):
        rg = []
        for r in regions:
            inner = ""
            if chance(rng, 0.2): inner += "<style %s/>" % " ".join(imsc_style_attrs(rng, 2))
            if chance(rng, 0.15): inner += imsc_set(rng)
            a = ['xml:id="%s"' % r] + imsc_timing(rng, 0.15) + imsc_style_attrs(rng, rng.randrange(0, 4))
            if styles and chance(rng, 0.3): a.append('style="%s"' % pick(rng, styles))
            if chance(rng, 0.4): a.append('tts:showBackground="%s"' % pick(rng, ["always", "whenActive"]))
            rg.append("<region %s>%s</region>" % (" ".join(dict.fromkeys(a)), inner) if inner else "<region %s/>" % " ".join(dict.fromkeys(a)))
        head.append("<layout>%s</layout>" % "".join(rg))
    body = ""
    if chance(rng, 0.92):
        divs = []
        for _ in range(rng.choice([0, 1, 1, 1, 2])):
            ps = []
            for _ in range(rng.choice([0, 1, 1, 2, 3])):
                k = rng.random()
                if k < 0.9:
                    ps.append("<p %s>%s</p>" % (" ".join(imsc_timing(rng, 0.7) + imsc_common(rng, regions, styles) + imsc_style_attrs(rng)), imsc_inline(rng, regions, styles, 0)))
                else:
                    ps.append("<div %s><p>%s</p></div>" % (" ".join(imsc_timing(rng, 0.5)), imsc_inline(rng, regions, styles, 1)))
            divs.append("<div %s>%s</div>" % (" ".join(imsc_timing(rng, 0.3) + imsc_common(rng, regions, styles) + imsc_style_attrs(rng)), "".join(ps)))
        body = "<body %s>%s</body>" % (" ".join(imsc_timing(rng, 0.15) + imsc_common(rng, regions, styles) + imsc_style_attrs(rng)), "".join(divs))
    # an attribute may not repeat in a tag: de-duplicate by name inside every start tag
    doc = '<?xml version="1.0" encoding="UTF-8"?>\n<tt %s>%s%s</tt>' % (" ".join(tt_attrs), "<head>%s</head>" % "".join(head) if head else "", body)
    return dedup_attrs(doc).encode("utf-8")

_TAG = re.compile(r"<([A-Za-z][\w:.-]*)((?:\s+[\w:.-]+=\"[^\"]*\")+)\s*(/?)>")
def dedup_attrs(doc):
    def fix(m):
        seen = {}
        for a in re.finditer(r"([\w:.-]+)=\"([^\"]*)\"", m.group(2)): seen.setdefault(a.group(1), a.group(2))
        return "<" + m.group(1) + "".join(' %s="%s"' % kv for kv in seen.items()) + m.group(3) + ">"
    return _TAG.sub(fix, doc)


def style_matrix():
    """every sample value of every style attribute on every element kind that can carry it (directly, through <set>, <initial>, <style>)"""
    for name in STYLE_NAMES:
        for v in STYLE_VALUES[name]:
            a = '%s="%s"' % (name, xml_attr(v))
            for el in ("br", "span", "p", "div", "body", "region", "set-br", "set-span", "set-p", "set-region", "initial", "style"):
                head = ""; body = '<body><div><p>a<span>b</span><br/>c</p></div></body>'
                if el == "br": body = '<body><div><p>a<br %s/>c</p></div></body>' % a
                elif el == "span": body = '<body><div><p>a<span %s>b</span></p></div></body>' % a
                elif el == "p": body = '<body><div><p %s>a</p></div></body>' % a
                elif el == "div": body = '<body><div %s><p>a</p></div></body>' % a
                elif el == "body": body = '<body %s><div><p>a</p></div></body>' % a
                elif el == "region": head = '<head><layout><region xml:id="r" %s/></layout></head>' % a; body = '<body region="r"><div><p>a</p></div></body>'
                elif el == "set-br": body = '<body><div><p>a<br><set begin="1s" %s/></br>c</p></div></body>' % a
                elif el == "set-span": body = '<body><div><p>a<span><set begin="1s" %s/>b</span></p></div></body>' % a
                elif el == "set-p": body = '<body><div><p><set begin="1s" end="2s" %s/>a</p></div></body>' % a
                elif el == "set-region": head = '<head><layout><region xml:id="r"><set begin="1s" %s/></region></layout></head>' % a; body = '<body region="r"><div><p>a</p></div></body>'
                elif el == "initial": head = '<head><styling><initial %s/></styling></head>' % a
                elif el == "style": head = '<head><styling><style xml:id="s" %s/></styling></head>' % a; body = '<body style="s"><div><p>a</p></div></body>'
                yield el, ('<tt xml:lang="en" %s>%s%s</tt>' % (NS, head, body)).encode()


GENERATORS = {"srt": gen_srt, "vtt": gen_vtt, "scc": gen_scc, "stl": gen_stl, "imsc": gen_imsc}


# ---------------------------------------------------------------------------------------------- corpus
def corpus(repo):
    """bundled files of /repo/src/test/resources by format (bytes, at most 12 kB each) plus the literals of the unit tests"""
    res = {k: [] for k in GENERATORS}
    root = repo + "/src/test/resources"
    for d, _, files in sorted(os.walk(root)):
        for f in sorted(files):
            ext = f.rsplit(".", 1)[-1].lower()
            fmt = {"srt": "srt", "vtt": "vtt", "scc": "scc", "stl": "stl", "ttml": "imsc", "xml": "imsc"}.get(ext)
            if fmt is None: continue
            data = open(os.path.join(d, f), "rb").read()
            if len(data) <= 12288: res[fmt].append((os.path.relpath(os.path.join(d, f), root), data))
    # SRT has no bundled files: harvest the string literals of the SRT unit tests
    for tf, fmt in (("test_srt_reader.py", "srt"), ("test_vtt_reader.py", "vtt"), ("test_scc_reader.py", "scc")):
        try:
            src = open(repo + "/src/test/python/" + tf, encoding="utf-8").read()
        except OSError:
            continue
        for i, m in enumerate(re.finditer(r'"""(.*?)"""', src, flags=re.S)):
            lit = m.group(1)
            if fmt == "srt" and "-->" in lit or fmt == "vtt" and "WEBVTT" in lit or fmt == "scc" and "\t" in lit:
                if len(lit) <= 12288: res[fmt].append((f"{tf}#{i}", lit.encode("utf-8")))
    return res


# ---------------------------------------------------------------------------------------------- mutation
TOKEN_RE = re.compile(rb"\s+|-->|</?|/?>|[\w%#.]+|[^\w\s]")
NUM_RE = re.compile(rb"\d+")
BOUNDARY_NUMS = [b"0", b"00", b"1", b"9", b"59", b"60", b"99", b"100", b"255", b"256", b"999", b"1000", b"65535", b"65536", b"4294967296",
                 b"99999999999999999999", b"9" * 400, b"-1", b"", b"0.5", b"1e9", b"\xd9\xa1\xd9\xa2"]

def split_lines(data): return data.splitlines(keepends=True)

def m_truncate(rng, data, fmt):
    if not data: return data
    return data[:rng.randrange(len(data))]

def m_lines(rng, data, fmt):
    ls = split_lines(data)
    if not ls: return data
    op = rng.randrange(4); i = rng.randrange(len(ls))
    if op == 0: del ls[i]
    elif op == 1: ls.insert(i, ls[i])
    elif op == 2:
        j = rng.randrange(len(ls)); ls[i], ls[j] = ls[j], ls[i]
    else: ls.insert(i, rng.choice([b"\n", b"\r\n", b" \n", b"-->\n", b"WEBVTT\n", b"NOTE\n", b"1\n", b"00:00:00,000 --> 00:00:01,000\n", b"00:00.000 --> 00:01.000\n", b"\x0c\n"]))
    return b"".join(ls)

def m_tokens(rng, data, fmt):
    toks = TOKEN_RE.findall(data)
    if not toks: return data
    for _ in range(rng.choice([1, 1, 2, 3])):
        if not toks: break
        op = rng.randrange(3); i = rng.randrange(len(toks))
        if op == 0: del toks[i]
        elif op == 1: toks.insert(i, toks[i])
        else:
            j = rng.randrange(len(toks)); toks[i], toks[j] = toks[j], toks[i]
    return b"".join(toks)

def m_boundary(rng, data, fmt):
    ms = list(NUM_RE.finditer(data))
    if not ms: return m_bytes(rng, data, fmt)
    m = rng.choice(ms)
    return data[:m.start()] + rng.choice(BOUNDARY_NUMS) + data[m.end():]

def m_bytes(rng, data, fmt):
    b = bytearray(data)
    hi = 256 if (fmt == "stl" or chance(rng, 0.25)) else 128      # text formats: mostly stay inside valid UTF-8
    for _ in range(rng.choice([1, 1, 2, 4, 8])):
        op = rng.randrange(4)
        if op == 0 or not b: b.insert(rng.randrange(len(b) + 1), rng.randrange(hi))
        elif op == 1: b[rng.randrange(len(b))] = rng.randrange(hi)
        elif op == 2: b[rng.randrange(len(b))] ^= 1 << rng.randrange(8 if hi == 256 else 7)
        else:
            i = rng.randrange(len(b)); b[i:i + rng.randrange(1, 5)] = rng.choice([b"", b"\x00", b"\xff\xfe" if hi == 256 else b"\xc2\x85", b"\n\n", b"<", b">", b"&", b"</b>", b"<rt>", b"-->", b"\t", b"\xc1"])
    return bytes(b)

def m_tags(rng, data, fmt):
    """insert / remove markup tokens: stray end tags, unclosed tags, ruby pieces"""
    ins = rng.choice([b"</b>", b"</i>", b"</u>", b"</font>", b"<b>", b"<i>", b"<rt>", b"</rt>", b"<ruby>", b"</ruby>", b"<c.red>", b"</c>", b"<v>", b"</v>",
                      b"<00:00:01.000>", b"<font color>", b"<font color=\"zzz\">", b"<>", b"</>", b"<lang>", b"{b}", b"{/bold}", b"&", b"&#", b"<!--", b"<?", b"<![CDATA[", b"</span>", b"<span>",
                      b"<br/>", b"<p>", b"</p>", b"</div>", b"<set/>"])
    if fmt in ("stl",): return m_bytes(rng, data, fmt)
    pos = rng.randrange(len(data) + 1)
    if fmt in ("srt", "vtt"):
        # prefer payload positions: somewhere after an arrow line
        arrows = [m.end() for m in re.finditer(rb"-->[^\n]*\n", data)]
        if arrows and chance(rng, 0.8):
            a = rng.choice(arrows); nxt = data.find(b"\n\n", a); nxt = len(data) if nxt < 0 else nxt
            pos = rng.randrange(a, max(a, nxt) + 1)
    return data[:pos] + ins + data[pos:]

def m_stl_fields(rng, data, fmt):
    b = bytearray(data)
    k = rng.random()
    if k < 0.45 and len(b) >= 1024:
        name = rng.choice(["DFC", "DSC", "CCT", "LC", "TNB", "TNS", "MNC", "MNR", "TCP", "TCP", "MNR", "TCF", "CPN"])
        off, n = GSI_OFF[name]
        v = rng.choice([b" " * n, b"0" * n, b"9" * n, b"\x00" * n, bytes(rng.randrange(256) for _ in range(n)), b"-1" + b" " * n, b"1_" + b"0" * n, b"  1" + b" " * n, b"STL25.01", b"ab"])
        b[off:off + n] = (v + b" " * n)[:n]
    elif k < 0.9 and len(b) >= 1024 + 128:
        nb = (len(b) - 1024) // 128; i = 1024 + 128 * rng.randrange(nb)
        f = rng.choice(["SGN", "SN", "EBN", "CS", "TCI", "TCO", "VP", "JC", "CF", "TF", "CS", "EBN", "swap", "dup", "del"])
        if f == "SGN": b[i] = rng.choice([0, 1, 255])
        elif f == "SN": b[i + 1:i + 3] = struct.pack("<H", rng.choice([0, 1, 255, 256, 257, 65535]))
        elif f == "EBN": b[i + 3] = rng.choice([0, 1, 0xEF, 0xF0, 0xFE, 0xFF, 0x80])
        elif f == "CS": b[i + 4] = rng.choice([0, 1, 2, 3, 4, 255])
        elif f == "TCI": b[i + 5:i + 9] = bytes(rng.choice([0, 1, 23, 24, 59, 60, 99, 255]) for _ in range(4))
        elif f == "TCO": b[i + 9:i + 13] = bytes(rng.choice([0, 1, 23, 24, 59, 60, 99, 255]) for _ in range(4))
        elif f == "VP": b[i + 13] = rng.choice([0, 1, 11, 12, 22, 23, 24, 99, 255])
        elif f == "JC": b[i + 14] = rng.choice([0, 1, 2, 3, 4, 255])
        elif f == "CF": b[i + 15] = rng.choice([0, 1, 2, 255])
        elif f == "TF":
            j = i + 16 + rng.randrange(112); b[j:j + rng.randrange(1, 6)] = bytes(rng.choice([0x8A, 0x8F, 0x0D, 0x0B, 0x0A, 0x1D, 0x80, 0x85, 0xC1, 0xCF, 0x20, 0x41, 0xFF, 0x00, 0x1F, 0x7F, 0xA0]) for _ in range(rng.randrange(1, 6)))
            b = b[:i + 128] + b[i + 128:]
        elif f == "swap":
            j = 1024 + 128 * rng.randrange(nb); x = bytes(b[i:i + 128]); b[i:i + 128] = b[j:j + 128]; b[j:j + 128] = x
        elif f == "dup": b[i:i] = b[i:i + 128]
        else: del b[i:i + 128]
    else:
        n = rng.choice([0, 1, 512, 1023, 1024, 1025, 1024 + 64, 1024 + 127, 1024 + 129, len(b) - 1 if b else 0, len(b) + 1])
        b = (b + bytearray(rng.randrange(256) for _ in range(max(0, n - len(b)))))[:n]
    return bytes(b)

def m_imsc_attr(rng, data, fmt):
    """replace / shorten / cross-wire attribute values of an XML document"""
    ms = list(re.finditer(rb'([\w:.-]+)="([^"]*)"', data))
    ms = [m for m in ms if not m.group(1).startswith(b"xmlns")]
    if not ms: return m_bytes(rng, data, fmt)
    m = rng.choice(ms); v = m.group(2); k = rng.random()
    if k < 0.3:
        parts = v.split(b" ")
        if len(parts) > 1: del parts[rng.randrange(len(parts))]
        else: parts = parts + parts
        nv = b" ".join(parts)
    elif k < 0.55: nv = rng.choice(ms).group(2)
    elif k < 0.8:
        name = rng.choice(STYLE_NAMES + ["begin", "end", "dur"])
        vals = STYLE_VALUES.get(name, TIMES)
        return data[:m.start()] + name.encode() + b'="' + xml_attr(rng.choice(vals)).encode() + b'"' + data[m.end():]
    else: nv = rng.choice([b"", b" ", b"0", b"-1", b"none", b"auto", b"1e400", b"nan", b"inherit", b"x" * 300, b"1 2 3 4 5 6", b"\xe2\x80\x8f", b"%", b"1%%", b"#", b"rgb(", b"'", b","])
    return data[:m.start(2)] + nv + data[m.end(2):]

def m_imsc_tree(rng, data, fmt):
    """delete / duplicate / move / rename an element (textual, on balanced simple tags)"""
    tags = list(re.finditer(rb"<(p|span|div|br|set|region|style|body|head|layout|styling|initial)\b[^>]*?(/?)>", data))
    if not tags: return m_bytes(rng, data, fmt)
    m = rng.choice(tags); name = m.group(1)
    if m.group(2):  # empty element
        seg = (m.start(), m.end())
    else:
        depth = 0; seg = None
        for t in re.finditer(rb"<(/?)" + name + rb"\b[^>]*?(/?)>", data[m.start():]):
            if t.group(2): continue
            depth += -1 if t.group(1) else 1
            if depth == 0: seg = (m.start(), m.start() + t.end()); break
        if seg is None: return m_bytes(rng, data, fmt)
    k = rng.random(); piece = data[seg[0]:seg[1]]
    if k < 0.3: return data[:seg[0]] + data[seg[1]:]
    if k < 0.55: return data[:seg[1]] + piece + data[seg[1]:]
    if k < 0.8:
        others = [t.end() for t in tags if not (seg[0] <= t.start() < seg[1])]
        if not others: return data[:seg[0]] + data[seg[1]:]
        pos = rng.choice(others); rest = data[:seg[0]] + data[seg[1]:]
        if pos > seg[0]: pos -= len(piece)
        return rest[:pos] + piece + rest[pos:]
    new = rng.choice([b"p", b"span", b"div", b"br", b"set", b"region", b"body", b"style", b"tt", b"metadata", b"x"])
    return data[:seg[0]] + re.sub(rb"^<" + name, b"<" + new, re.sub(rb"</" + name + rb">$", b"</" + new + b">", piece)) + data[seg[1]:]

MUTATORS = {"truncate": m_truncate, "lines": m_lines, "tokens": m_tokens, "boundary": m_boundary, "bytes": m_bytes, "tags": m_tags,
            "stl-fields": m_stl_fields, "xml-attr": m_imsc_attr, "xml-tree": m_imsc_tree}
MUTATORS_FOR = {"srt": ["truncate", "lines", "tokens", "boundary", "bytes", "tags", "tags"],
                "vtt": ["truncate", "lines", "tokens", "boundary", "bytes", "tags", "tags"],
                "scc": ["truncate", "lines", "tokens", "boundary", "bytes"],
                "stl": ["truncate", "bytes", "stl-fields", "stl-fields", "stl-fields"],
                "imsc": ["truncate", "tokens", "boundary", "bytes", "xml-attr", "xml-attr", "xml-attr", "xml-attr", "xml-tree", "xml-tree", "xml-tree", "xml-tree", "tags"]}

def mutate(rng, data, fmt):
    """one to three stacked mutations; returns (kinds, data)"""
    kinds = []
    for _ in range(rng.choice([1, 1, 1, 2, 3])):
        k = rng.choice(MUTATORS_FOR[fmt]); kinds.append(k)
        data = MUTATORS[k](rng, data, fmt)
    return "+".join(kinds), data

def random_bytes(rng, fmt):
    n = rng.choice([0, 1, 2, 7, 64, 128, 1024, 1152, rng.randrange(0, 2000)])
    k = rng.random()
    if k < 0.4: return bytes(rng.randrange(256) for _ in range(n))
    if k < 0.7: return bytes(rng.choice(b" \t\n\r0123456789:;,.->abcxyz<>/&#%\"'=WEBVTNO") for _ in range(n))
    return "".join(chr(rng.choice([rng.randrange(32, 127), rng.randrange(0, 32), rng.randrange(128, 0x3000), rng.randrange(0x10000, 0x10400), 0x2028, 0x85, 0x660, 0xa0])) for _ in range(n // 2)).encode("utf-8")


# ---------------------------------------------------------------------------------------------- depth stream
def deep(rng, fmt, n):
    """nesting depth n (50 … 5000): the only oracle is 'no internal error'"""
    if fmt == "imsc":
        k = rng.random()
        if k < 0.6: inner = "<p>" + "<span>" * n + "x" + "</span>" * n + "</p>"; return ('<tt xml:lang="en" %s><body><div>%s</div></body></tt>' % (NS, inner)).encode()
        if k < 0.85: return ('<tt xml:lang="en" %s><body>%s<p>x</p>%s</body></tt>' % (NS, "<div>" * n, "</div>" * n)).encode()
        return ('<tt xml:lang="en" %s><head><styling>%s</styling></head><body style="s0"><div><p>x</p></div></body></tt>' % (
            NS, "".join('<style xml:id="s%d" style="s%d" tts:color="red"/>' % (i, i + 1) for i in range(n)))).encode()
    if fmt == "vtt":
        t = pick(rng, ["b", "i", "c.red", "v a", "lang en"])
        return ("WEBVTT\n\n00:01.000 --> 00:02.000\n" + ("<%s>" % t) * n + "x" + (("</%s>" % t.split()[0].split(".")[0]) * n if chance(rng, 0.5) else "") + "\n").encode()
    if fmt == "srt":
        t = pick(rng, ["b", "i", "font color=\"red\"", "u"])
        return ("1\n00:00:01,000 --> 00:00:02,000\n" + ("<%s>" % t) * n + "x" + (("</%s>" % t.split()[0]) * n if chance(rng, 0.5) else "") + "\n").encode()
    if fmt == "scc":
        # very long line / very many lines
        if chance(rng, 0.5): return ("Scenarist_SCC V1.0\n\n00:00:00:00\t9420 9420 " + "c1c1 " * n + "942f 942f\n").encode()
        return ("Scenarist_SCC V1.0\n\n" + "".join("00:00:%02d:%02d\t9425 9425 94ad 94ad c1c1\n\n" % (i // 30 % 60, i % 30) for i in range(min(n, 800)))).encode()
    # stl: a chain of n extension blocks, or n cumulative blocks
    g = stl_gsi(rng, dict(CPN=b"850", DFC=b"STL25.01", DSC=b"1", CCT=b"00", LC=b"09", TNB=b"%05d" % min(n, 99999), TNS=b"00001", MNC=b"40", MNR=b"23", TCP=b"00000000"))
    n = min(n, 600)
    if chance(rng, 0.5):
        bl = [stl_tti(0, 1, i % 0xF0, 0, (0, 0, 1, 0), (0, 0, 2, 0), 20, 2, 0, b"ab") for i in range(n)] + [stl_tti(0, 1, 0xFF, 0, (0, 0, 1, 0), (0, 0, 2, 0), 20, 2, 0, b"z")]
    else:
        bl = [stl_tti(0, i, 0xFF, 1 if i == 0 else 2, (0, 0, 1, 0), (0, 0, 2, 0), 20, 2, 0, b"ab") for i in range(n)]
    return g + b"".join(bl)
