"""Witnesses of the findings recorded for C18 (ids as in findings_proposed/C18.txt / KNOWN_FINDINGS.txt): one minimal input per
finding, run through the real reader and the downstream pipeline exactly as harness/c18.py does.  Each returns None when the
property holds on the witness and a description of the failure otherwise (expected while the finding is open).
The witnesses of defects repaired in the repository (`fixed:` entries) use _clean: reader outcome as documented and no exception
anywhere downstream, under every configuration; they must pass."""
import re
from witnesses import witness

TT = (b'<tt xml:lang="en" xmlns="http://www.w3.org/ns/ttml" xmlns:tts="http://www.w3.org/ns/ttml#styling" '
      b'xmlns:ttp="http://www.w3.org/ns/ttml#parameter" xmlns:ebutts="urn:ebu:tt:style" %s>%s</tt>')
SRT = b"1\n00:00:01,000 --> 00:00:02,000\n"
VTT = b"WEBVTT\n\n00:01.000 --> 00:02.000\n"


def _stl(fields, blocks, n=None):
    import random, c18gen as G
    g = dict(CPN=b"850", DFC=b"STL25.01", DSC=b"0", CCT=b"00", LC=b"09", TNB=b"00001", TNS=b"00001", MNC=b"40", MNR=b"23", TCP=b"00000000")
    g.update(fields)
    return G.stl_gsi(random.Random(0), g) + b"".join(G.stl_tti(0, 1 + i, 0xFF, cs, (0, 0, sec, 0), (0, 0, sec + 1, 0), 20, 2, 0, b"ab") for i, (cs, sec) in enumerate(blocks))


def _run(fmt, data, cfg=0, type_rx=".", site_rx="."):
    """the failures of the run whose type and site match; None when there is none"""
    import c18run as R
    r = R.run_input(fmt, data, cfg, seed=1, time_limit=120, full=True, observe=False)
    hits = [f for f in R.failures(r) if re.search(type_rx, f["type"]) and re.search(site_rx, f["site"])]
    if hits:
        f = hits[0]
        return f"{fmt}: stage {f['stage'].split('{')[0]} raised {f['type']} at {f['site'].split('<-')[0]}: {f['msg'][:80]}"
    return None


def _clean(fmt, data, cfg=0, expect="doc"):
    """regression form: the whole property holds on the input (every configuration)"""
    import c18run as R
    r = R.run_input(fmt, data, cfg, seed=1, time_limit=120, full=True, observe=False)
    if r["outcome"] != expect: return f"{fmt}: reader outcome {r['outcome']}, expected {expect}" + (f" ({r['read']['site']})" if r["read"] else "")
    fl = R.failures(r)
    if fl:
        f = fl[0]
        return f"{fmt}: stage {f['stage'].split('{')[0]} raised {f['type']} at {f['site'].split('<-')[0]}: {f['msg'][:80]}"
    return None


@witness("C18", "ruby-inactive-annotation")
def _():
    return _run("imsc", TT % (b"", b'<body><div><p><span tts:ruby="container"><span tts:ruby="base">a</span><span tts:ruby="text" end="1s">b</span></span></p></div></body>'),
                0, "ValueError", r"push_children<-isd\.py")

@witness("C18", "recursion-deep-nesting")
def _():
    return (_run("imsc", TT % (b"", b"<body><div><p>" + b"<span>" * 400 + b"x" + b"</span>" * 400 + b"</p></div></body>"), 0, "RecursionError")
            or _run("vtt", VTT + b"<b>" * 1200 + b"x\n", 0, "RecursionError"))

@witness("C18", "vtt-empty-file")
def _():
    # fixed by repository commit 7ed55ac
    return _clean("vtt", b"")

@witness("C18", "vtt-cue-without-payload")
def _():
    # fixed by repository commit 05a353c: first cue without payload, and a later one (must not re-read the previous cue's text)
    return _clean("vtt", VTT + b"\n") or _clean("vtt", VTT) or _clean("vtt", VTT + b"x\n\n00:03.000 --> 00:04.000\n\n")

@witness("C18", "vtt-rt-outside-ruby")
def _():
    # fixed by repository commit 15db449 (<rt> outside <ruby> is handled like any other tag)
    return _clean("vtt", VTT + b"<rt>x\n") or _clean("vtt", VTT + b"a<rt>x</rt>b<ruby>c<rt>d</rt></ruby>\n")

@witness("C18", "vtt-stray-end-tag")
def _():
    # fixed by lab commit 654d3f5 (an end tag closes only the innermost open tag of that name; </ruby> also closes an open <rt>)
    return (_clean("vtt", VTT + b"a</b>c\n") or _clean("vtt", VTT + b"</b></i></b>c<i>d</b>e</i></i>f\n")
            or _clean("vtt", VTT + b"<ruby>a<rt>b</ruby>c<ruby>d<rt>e</rt></ruby></ruby>f\n")
            or _clean("vtt", VTT + b"<ruby>a<rt><b><rt>x</rt></b></rt></ruby></rt>z\n"))

@witness("C18", "vtt-ruby-structure")
def _():
    return (_run("vtt", VTT + b"<b><ruby>a<rt>b</rt></ruby></b>\n", 0, "TypeError", "_TextCueParser")
            or _run("vtt", VTT + b"<ruby><b>a</b></ruby>\n", 0, "RuntimeError", "_TextCueParser"))

@witness("C18", "vtt-percentage-overflow")
def _():
    # fixed by lab commit cb365b8 (a number that reads as float infinity is out of range)
    return (_clean("vtt", b"WEBVTT\n\n00:01.000 --> 00:02.000 size:" + b"9" * 400 + b"%\nx\n")
            or _clean("vtt", b"WEBVTT\n\n00:01.000 --> 00:02.000 line:" + b"9" * 400 + b".5%,start position:" + b"1" * 500 + b"%,center\nx\n"))

@witness("C18", "srt-stray-end-tag")
def _():
    # fixed by repository commit 818e997 (an end tag that does not match the innermost open tag is ignored)
    return _clean("srt", SRT + b"a</b>c\n") or _clean("srt", SRT + b"</b></b></b></b>c<i>d</b>e</i></i>f\n")

@witness("C18", "srt-font-color-without-value")
def _():
    # fixed by lab commit 02aa1c0 (a color attribute without a value is ignored)
    return _clean("srt", SRT + b"<font color>x</font>\n") or _clean("srt", SRT + b"<font color color=\"red\" color>x</font>\n")

@witness("C18", "srt-markup-declaration")
def _():
    return _run("srt", SRT + b"<![<\n", 0, "AssertionError", r"^srt/reader\.py:to_model$")

@witness("C18", "imsc-seq-after-indefinite-child")
def _():
    # fixed by repository commit 476722b (the child never begins: it is skipped)
    return (_clean("imsc", TT % (b"", b'<body><div timeContainer="seq"><p>a</p><p>b</p></div></body>'))
            or _clean("imsc", TT % (b"", b'<body><div><p timeContainer="seq"><span>a</span><br/><span>b</span></p></div></body>')))

@witness("C18", "imsc-tt-extent-one-token")
def _():
    # fixed by repository commit 68af3ae (logged and ignored)
    return _clean("imsc", TT % (b'tts:extent="1920px"', b"<body/>")) or _clean("imsc", TT % (b'tts:extent=""', b"<body/>"))

@witness("C18", "imsc-tt-extent-overflow")
def _():
    # fixed by repository commit 68af3ae (logged and ignored)
    return (_clean("imsc", TT % (b'tts:extent="' + b"9" * 400 + b'px 1px"', b"<body/>"))
            or _clean("imsc", TT % (b'tts:extent="1e400px 1px"', b"<body/>")))

@witness("C18", "imsc-content-inside-set")
def _():
    # fixed by lab commit ff2ba55 (children of <set> are not read)
    return (_clean("imsc", TT % (b"", b"<body><set><p>one</p></set></body>"))
            or _clean("imsc", TT % (b"", b'<body><div><p><set tts:color="red"><span>x</span><metadata/></set>a<br><set tts:color="red"><br/></set></br></p></div></body>')))

@witness("C18", "imsc-zero-rate")
def _():
    # fixed by repository commit 98e50ce (logged and ignored)
    return (_clean("imsc", TT % (b'ttp:frameRateMultiplier="1 0"', b"<body/>"))
            or _clean("imsc", TT % (b'ttp:tickRate="0"', b'<body><div><p begin="10t">x</p></div></body>'))
            or _clean("imsc", TT % (b'ttp:frameRate="0"', b'<body><div><p begin="10f">x</p></div></body>'))
            or _clean("imsc", TT % (b'ttp:frameRateMultiplier="0 1"', b'<body><div><p begin="10f">x</p></div></body>')))

@witness("C18", "isd-style-on-br")
def _():
    # fixed by lab commit 1896172 (no style applies to br: none is computed)
    for a in (b'tts:lineHeight="100%"', b'tts:lineHeight="2em"', b'tts:textOutline="red 10%"', b'tts:padding="1%"', b'tts:position="center"',
              b'tts:rubyReserve="both"', b'tts:display="none"', b'tts:fontSize="2em" tts:extent="10% 10%" tts:origin="1em 1c" tts:textShadow="1em 1em"'):
        bad = _clean("imsc", TT % (b"", b"<body><div><p>a<br %s/>b<br><set %s/></br></p></div></body>" % (a, a)))
        if bad: return bad

@witness("C18", "stl-bad-tcp")
def _():
    # fixed by repository commit 9e84fe8
    return _clean("stl", _stl(dict(TCP=b"        "), [(0, 5)]), 1) or _clean("stl", _stl(dict(TCP=b"0a000000"), [(0, 5)]), 3)

@witness("C18", "stl-bad-mnr")
def _():
    # fixed by repository commit 41b1329: the subtitle at 30 s is read, and one at 5 s is no longer dropped (start offset untouched)
    import c18run as R
    bad = _clean("stl", _stl(dict(MNR=b"xx"), [(0, 30)]), 2) or _clean("stl", _stl(dict(MNR=b"xx"), [(0, 5)]), 2)
    if bad: return bad
    d = R.read("stl", _stl(dict(MNR=b"xx"), [(0, 5)]), R.STL_CFGS[2])
    n = sum(len(list(div)) for div in d.get_body())
    if n != 1: return f"subtitle at 5 s dropped: {n} paragraphs"

@witness("C18", "stl-zero-row-count")
def _():
    # fixed by lab commit 7e042d3 (a row count below 1 is logged and the default used)
    return (_clean("stl", _stl(dict(MNR=b"00"), [(0, 5)]), 2) or _clean("stl", _stl(dict(MNR=b"-1"), [(0, 5)]), 2)
            or _clean("stl", _stl(dict(MNR=b" 0"), [(0, 5), (2, 6)]), 3))

@witness("C18", "stl-zero-block-count")
def _():
    # fixed by repository commit c08d0ef
    return _clean("stl", _stl(dict(TNB=b"00000"), [(0, 5)]), 0) or _clean("stl", _stl(dict(TNB=b"   -1"), [(0, 5), (0, 7)]), 0)

@witness("C18", "stl-cumulative-block-first")
def _():
    # fixed by repository commit 8f4f9e5 (a subtitle is started)
    return (_clean("stl", _stl({}, [(2, 5)]), 0) or _clean("stl", _stl({}, [(3, 5)]), 0) or _clean("stl", _stl({}, [(77, 5)]), 0)
            or _clean("stl", _stl({}, [(2, 5), (3, 6), (0, 8)]), 3))

@witness("C18", "scc-no-caption-to-process")
def _():
    # fixed by lab commit 112cd61 (a backspace, extended character or tab offset with no caption to process is ignored)
    return (_clean("scc", b"Scenarist_SCC V1.0\n\n00:00:00:00\t942f\n\n00:00:02:00\t94a7 94ad 13b5\n")
            or _clean("scc", b"Scenarist_SCC V1.0\n\n00:00:00:00\t9429 97a2\n") or _clean("scc", b"Scenarist_SCC V1.0\n\n00:00:00:00\t94a1 97a1 97a2 97a3 13b5\n")
            or _clean("scc", b"Scenarist_SCC V1.0\n\n00:00:00:00\t9429 94a1\n"))

@witness("C18", "negative-begin-unwritable")
def _():
    # fixed by lab commit 35fc780 (paint-on text painted before its paragraph begins is shown from the beginning of the paragraph)
    return _clean("scc", b"01:27:58:02\t9429 20f4\n01:27:58:02\t942f 6b20 942f\n")

@witness("C18", "cue-shorter-than-a-millisecond")
def _():
    return _run("imsc", TT % (b"", b'<body><div><p begin="1s" end="1.0001s">x</p></div></body>'), 0, "ValueError", "to_string")

@witness("C18", "writer-time-overflow")
def _():
    return _run("vtt", b"WEBVTT\n\n" + b"9" * 400 + b":00:01.000 --> " + b"9" * 400 + b":00:02.000\nx\n", 0, "OverflowError", "add_isd|to_time_format")

@witness("C18", "writer-time-int-digits")
def _():
    # an SRT hour field of 4300 digits is read (int() accepts it); the IMSC writer cannot print the frame count (str(int) of 4305 digits)
    return _run("srt", b"1\n" + b"9" * 4300 + b":00:00,000 --> " + b"9" * 4300 + b":00:01,000\nx\n", 0, "ValueError", "to_time_format")

@witness("C18", "srt-hour-field-width")
def _():
    # repository commit 4d63802: hour fields of two or more digits; beyond int()'s digit limit the reader raises ValueError (documented)
    return (_clean("srt", b"1\n1000:00:00,000 --> 1000:00:01,000\nx\n")
            or _clean("srt", b"1\nx 0012345:00:00,000 --> 12346:00:01,000 y\nx\n")
            or _clean("srt", b"1\n" + b"1" * 4301 + b":00:00,000 --> " + b"1" * 4301 + b":00:01,000\nx\n", 0, "format:ValueError")
            or _clean("srt", b"1\n00:00:00,000 --> " + b"0" * 4301 + b":00:01,000\nx\n", 0, "format:ValueError"))

@witness("C18", "imsc-writer-aspect-ratio-overflow")
def _():
    # fixed by repository commit e3fb15a (integers are written as integers)
    return _clean("imsc", TT % (b'xmlns:ittp="http://www.w3.org/ns/ttml/profile/imsc1#parameter" ittp:aspectRatio="' + b"9" * 400 + b' 3"', b"<body/>"))

@witness("C18", "imsc-writer-special-values")
def _():
    # fixed by repository commit e809638
    return _clean("imsc", TT % (b"", b'<body><div><p><span tts:textEmphasis="none">a</span><span tts:rubyReserve="none">b</span>'
                                     b'<span tts:textShadow="none">c</span></p></div></body>'))

@witness("C18", "lcd-bg-color-without-body")
def _():
    # fixed by repository commit a7b547e
    return _clean("imsc", TT % (b"", b"")) or _clean("imsc", TT % (b"", b"<head/>"))

@witness("C18", "lcd-position")
def _():
    # fixed by repository commit f645786 (the extent is computed first)
    return (_clean("imsc", TT % (b"", b'<head><layout><region xml:id="r" tts:position="center"/></layout></head><body region="r"><div><p>a</p></div></body>'))
            or _clean("imsc", TT % (b"", b'<head><layout><region xml:id="r" tts:position="center" tts:extent="50% 50%"/></layout></head><body region="r"><div><p>a</p></div></body>')))
