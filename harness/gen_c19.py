"""C19 translator: regenerates, from /repo's current source (and the running CPython for the str/int/re
primitives the decoders lean on),

  Gen/CliUnicode.v  character tables used by Model/Cli.v: re's \\s (and \\d = [0-9]) under re.ASCII, what `.` excludes,
                    the non-ASCII code points whose str.lower()/str.upper() image is pure ASCII, NamedColors,
                    logging level names, sys.get_int_max_str_digits();
  Gen/CliTables.v   what Model/Cli.v transcribes by hand and Proofs/C19/Tables.v compares by vm_compute:
                    FileTypes members, the DocumentFilter registry, the dataclass fields of every module
                    configuration (order, optional, name of the decoder), `Cls.parse({})` (the defaults *after* their
                    decoders), the argparse declarations (sub-commands; option strings, destination, action, required,
                    default of `convert`), and every decoder's behaviour on a fixed finite probe set;
  Gen/CliShape.v    the body of tt.convert read from its AST: the order of its effects and, per file type, which
                    reader / writer module is called with which configuration section.

Fail-closed: an exception type, enum member or value shape that is not known aborts the generator.
Also exports the JSON / plan literal printers used by harness/c19.py.
"""
import dataclasses, json, logging, math, re, sys
from fractions import Fraction
import common as C


class GenError(Exception):
    pass


# ------------------------------------------------------------------ Gallina printers
def txt(s):
    """text literal; runs of >= 64 equal characters are written (rep c n) to keep coqc's parser fast"""
    parts = []; cur = []; i = 0
    while i < len(s):
        j = i
        while j < len(s) and s[j] == s[i]: j += 1
        if j - i >= 64:
            if cur: parts.append("[" + ";".join(cur) + "]"); cur = []
            parts.append(f"rep {ord(s[i])} {j - i}")
        else:
            cur += [str(ord(s[i]))] * (j - i)
        i = j
    if cur or not parts: parts.append("[" + ";".join(cur) + "]")
    return parts[0] if len(parts) == 1 and parts[0].startswith("[") else "(" + " ++ ".join(parts) + ")"


def jlit(v):
    """Python value as produced by json.loads -> Gallina `json` literal (positional constructors)"""
    if v is None: return "JNull"
    if v is True: return "(JBool true)"
    if v is False: return "(JBool false)"
    if isinstance(v, int): return f"(JInt {C.z(v)})"
    if isinstance(v, float):
        if math.isnan(v): return "(JFloatSpecial 0)"
        if math.isinf(v): return "(JFloatSpecial 1)" if v > 0 else "(JFloatSpecial 2)"
        n, d = v.as_integer_ratio()
        return f"(JFloat {C.z(n)} {d})"
    if isinstance(v, str): return f"(JStr {txt(v)})"
    if isinstance(v, list): return "(JArr [" + "; ".join(jlit(x) for x in v) + "])"
    if isinstance(v, dict): return "(JObj [" + "; ".join(f"({txt(k)}, {jlit(x)})" for k, x in v.items()) + "])"
    raise GenError(f"not a JSON value: {v!r}")


EXN = {"ValueError": "EValue", "TypeError": "EType", "AttributeError": "EAttribute", "ZeroDivisionError": "EZeroDivision",
       "OverflowError": "EOverflow", "JSONDecodeError": "EJsonDecode", "FileNotFoundError": "EOSError",
       "IsADirectoryError": "EOSError", "PermissionError": "EOSError", "UnicodeDecodeError": "EValue"}


def exn(e):
    n = type(e).__name__
    if n not in EXN: raise GenError(f"unknown exception type {n}: {e}")
    return EXN[n]


def opt(x, f):
    return "None" if x is None else f"(Some {f(x)})"


def color_lit(c):
    from ttconv.style_properties import ColorType
    if not isinstance(c, ColorType) or c.ident is not ColorType.Colorimetry.RGBA8 or len(c.components) != 4 \
            or not all(isinstance(x, int) and not isinstance(x, bool) for x in c.components):
        raise GenError(f"colour shape {c!r}")
    return "(" + ", ".join(C.z(x) for x in c.components) + ")"


def align_lit(a):
    from ttconv.scc.config import TextAlignment
    m = {TextAlignment.LEFT: "AlLeft", TextAlignment.CENTER: "AlCenter", TextAlignment.RIGHT: "AlRight", TextAlignment.AUTO: "AlAuto"}
    if a not in m: raise GenError(f"text alignment {a!r}")
    return m[a]


def tfmt_lit(t):
    from ttconv.imsc.attributes import TimeExpressionSyntaxEnum as T
    m = {T.frames: "TfFrames", T.clock_time: "TfClockTime", T.clock_time_with_frames: "TfClockTimeWithFrames"}
    if t not in m: raise GenError(f"time format {t!r}")
    return m[t]


def frac_lit(f):
    if not isinstance(f, Fraction): raise GenError(f"fps {f!r}")
    return f"({C.z(f.numerator)}, {C.z(f.denominator)})"


def bool_lit(b):
    if b is not True and b is not False: raise GenError(f"not a bool: {b!r}")
    return C.boolean(b)


def mrc_lit(v):
    if v == "MNR" and isinstance(v, str): return "MrcMNR"
    if isinstance(v, int) and not isinstance(v, bool): return f"(MrcInt {C.z(v)})"
    raise GenError(f"max_row_count {v!r}")


def text_lit(s):
    if not isinstance(s, str): raise GenError(f"not a string: {s!r}")
    return txt(s)


def int_lit(v):
    if isinstance(v, bool) or not isinstance(v, int): raise GenError(f"not an int: {v!r}")
    return C.z(v)


def font_stack_raw(cfg_value, raw):
    """the model keeps the raw string of an accepted font_stack; check that the code's tuple is what
    parse_font_families gives for it (the decoder is `tuple(parse_font_families(value))`)"""
    from ttconv.imsc import utils
    if cfg_value is None: return None
    if not isinstance(raw, str) or tuple(utils.parse_font_families(raw)) != cfg_value:
        raise GenError(f"font_stack {cfg_value!r} is not parse_font_families({raw!r})")
    return raw


# canonical literals of configuration instances (Model/Cli.v record constructors, positional)
def scc_cfg_lit(c):
    return align_lit(c.text_align)


def stl_cfg_lit(c, raw_font_stack):
    return (f"(Build_stl_cfg {bool_lit(c.disable_fill_line_gap)} {opt(c.program_start_tc, text_lit)} {bool_lit(c.disable_line_padding)} "
            f"{opt(font_stack_raw(c.font_stack, raw_font_stack), text_lit)} {opt(c.max_row_count, mrc_lit)})")


def imsc_cfg_lit(c):
    return f"(Build_imsc_cfg {opt(c.time_format, tfmt_lit)} {opt(c.fps, frac_lit)})"


def srt_cfg_lit(c):
    return bool_lit(c.text_formatting)


def vtt_cfg_lit(c):
    return f"(Build_vtt_cfg {bool_lit(c.line_position)} {bool_lit(c.text_align)} {bool_lit(c.cue_id)})"


def lcd_cfg_lit(c):
    return f"(Build_lcd_cfg {int_lit(c.safe_area)} {bool_lit(c.preserve_text_align)} {opt(c.color, color_lit)} {opt(c.bg_color, color_lit)})"


# ------------------------------------------------------------------ the configuration keys
def classes():
    from ttconv.config import GeneralConfiguration
    from ttconv.imsc.config import IMSCWriterConfiguration
    from ttconv.scc.config import SccReaderConfiguration
    from ttconv.stl.config import STLReaderConfiguration
    from ttconv.srt.config import SRTWriterConfiguration
    from ttconv.vtt.config import VTTWriterConfiguration
    from ttconv.filters.doc.lcd import LCDDocFilterConfig
    return [GeneralConfiguration, IMSCWriterConfiguration, SccReaderConfiguration, STLReaderConfiguration,
            SRTWriterConfiguration, VTTWriterConfiguration, LCDDocFilterConfig]


# (section, field) -> (Coq key constructor, canonical printer of the decoded field value)
KEYS = {
    ("general", "log_level"): "KLogLevel", ("general", "progress_bar"): "KProgressBar", ("general", "document_lang"): "KDocumentLang",
    ("imsc_writer", "time_format"): "KTimeFormat", ("imsc_writer", "fps"): "KFps",
    ("scc_reader", "text_align"): "KSccTextAlign",
    ("stl_reader", "disable_fill_line_gap"): "KFillLineGap", ("stl_reader", "program_start_tc"): "KStartTc",
    ("stl_reader", "disable_line_padding"): "KLinePadding", ("stl_reader", "font_stack"): "KFontStack",
    ("stl_reader", "max_row_count"): "KMaxRowCount",
    ("srt_writer", "text_formatting"): "KTextFormatting",
    ("vtt_writer", "line_position"): "KLinePosition", ("vtt_writer", "text_align"): "KVttTextAlign", ("vtt_writer", "cue_id"): "KCueId",
    ("lcd", "safe_area"): "KSafeArea", ("lcd", "preserve_text_align"): "KPreserveTextAlign", ("lcd", "color"): "KColor",
    ("lcd", "bg_color"): "KBgColor",
}
BOOL_KEYS = {"KFillLineGap", "KLinePadding", "KTextFormatting", "KLinePosition", "KVttTextAlign", "KCueId", "KPreserveTextAlign"}


def cval_lit(key, value, raw):
    """decoded value of one key -> Gallina `cval`"""
    if key in BOOL_KEYS: return f"(CBool {bool_lit(value)})"
    if key == "KTimeFormat": return "CNone" if value is None else f"(CTfmt {tfmt_lit(value)})"
    if key == "KFps": return "CNone" if value is None else "(CFrac %s %s)" % (C.z(value.numerator), C.z(value.denominator))
    if key == "KSccTextAlign": return f"(CAlign {align_lit(value)})"
    if key == "KStartTc": return "CNone" if value is None else f"(CText {text_lit(value)})"
    if key == "KFontStack": return "CNone" if value is None else f"(CText {text_lit(font_stack_raw(value, raw))})"
    if key == "KMaxRowCount": return "CNone" if value is None else f"(CMrc {mrc_lit(value)})"
    if key == "KSafeArea": return f"(CInt {int_lit(value)})"
    if key in ("KColor", "KBgColor"):
        return "CNone" if value is None else "(CColor %s)" % color_lit(value).replace(",", "").strip("()")
    raise GenError(f"no printer for {key}")


def decode_key(section, field, v):
    """what the code does with JSON value v under (section, field): ('ok', cval literal) | ('raise', exn)"""
    key = KEYS[(section, field)]
    try:
        if section == "general":
            from ttconv.config import GeneralConfiguration
            g = GeneralConfiguration.parse({field: v})
            x = getattr(g, field)
            # log_level and document_lang have no decoder: they are interpreted where tt.convert uses them
            if field == "progress_bar":         # progress.display_progress_bar = x
                return ("ok", f"(CBool {bool_lit(x)})")
            if x is None: return ("ok", "CNone")
            if field == "log_level":            # LOGGER.setLevel(x)
                lg = logging.Logger("c19-probe"); lg.setLevel(x)
                return ("ok", f"(CInt {C.z(int(lg.level))})")
            if field == "document_lang":        # model.set_lang(x)
                import ttconv.model as m
                d = m.ContentDocument(); d.set_lang(x)
                return ("ok", f"(CText {text_lit(d.get_lang())})")
            raise GenError(field)
        cls = [c for c in classes() if c.name() == section][0]
        inst = cls.parse({field: v})
        return ("ok", cval_lit(key, getattr(inst, field), v))
    except GenError:
        raise
    except RecursionError:
        raise
    except Exception as e:
        return ("raise", exn(e))


# ------------------------------------------------------------------ probe values
GENERIC = [None, True, False, 0, 1, -1, 2, 10, 29, 30, 31, 99, -5, 2 ** 70, 0.0, -0.0, 0.5, -0.5, 1.5, 10.7, 30.999, 31.0, -1.0, 1e300,
           float("nan"), float("inf"), float("-inf"), "", " ", "no", "false", "true", "0", "yes", "abc", [], [0], [True], {}, {"a": 1}]
SPECIFIC = {
    "KLogLevel": ["INFO", "WARN", "ERROR", "DEBUG", "WARNING", "CRITICAL", "FATAL", "NOTSET", "info", "Info", "bogus", 20, 25, "20"],
    "KDocumentLang": ["en", "es-419", "fr-CA", "zh-Hant-TW", "x", "not a tag", "en_US", "-", "eñ"],
    "KTimeFormat": ["frames", "clock_time", "clock_time_with_frames", "Frames", "FRAMES", "clock", "clock_time ", " frames", ["frames"]],
    "KFps": ["25/1", "30000/1001", "24000/1001", "60/1", "-25/1", "25/-1", "-25/-5", "0/1", "25/0", "0/0", " 25 / 1 ", "25 /1", "+25/1", "2_5/1",
             "_25/1", "25_/1", "2__5/1", "25", "1/2/3", "/", "1/", "/1", "a/b", "25.0/1", "２５/１", "٢٥/1", "50/2", "6/4",
             "25/1\n", "\t25/1", "\x1c25/1", "0" * 4299 + "1/1", "0" * 4299 + "25/1", "1" * 4301 + "/1", "0" * 4301 + "/1", "1/" + "1" * 4301, " 25/1", "25/1 ", "1 0/1", "0x10/1"],
    "KSccTextAlign": ["auto", "left", "center", "right", "LEFT", "Center", "RIGHT ", " right", "AUTO", "start", "end", "centre", "left", "K"],
    "KStartTc": ["TCP", "tcp", "Tcp", "tcP", " TCP", "TCP ", "00:00:00:00", "10:00:00:00", "23:59:59:24", "10:00:00;00", "10;00;00;00", "10:00:00.00",
                 "10:00:00,00", "10x00y00z00", "10:00:00:00xyz", "10:00:00:0", "1:00:00:00", "10:00:00", "10:00:00\n00", "10\n00:00:00", "1000000000",
                 "10:00:00:0a", "a0:00:00:00", "１０:00:00:00", "99:99:99:99", "10:00:00:000", " 10:00:00:00"],
    "KFontStack": ["Arial", "a", "ab", "Verdana, Arial, Tiresias, sansSerif", "sansSerif", "default", "'x'", "''", '"a b", default', '""', "'a", "a'",
                   "\\a", "\\", "\\\\", ",", " ,", "a,b", "ab,c", "a, bc", " ab", "ab\n", "\n", "\nb", "a\n", "'a\nb'", "'a\\''", "x'y", ",,ab", "ab''", "  ",
                   "a b", "'", '"', "\"x\"", "\\a\\b", "\\\n", "a\\", ", ", "éè", "é"],
    "KMaxRowCount": ["MNR", "mnr", "Mnr", "MNR ", "23", 23, 0, -3, 1, 99, "MN", "MNRR", 23.0],
    "KSafeArea": ["10", "0", "30", "31", "-1", " 1_0 ", "1_0", "_10", "10_", "1__0", "+5", "-0", "+ 5", "1e1", "10.0", "0x10", "٣", "１０",
                  " 5", "5 ", "\x1c5", "\t5\n", "\x0b5\x0c", "5\x00", "\x7f5", "0" * 4300, "0" * 4301, "5 5", "--5", "", 3, 15],
    "KColor": ["red", "RED", "Red", "transparent", "white", "black", "blacK", "K", "magenta", "grey", "gray", " red", "red ", "#FF0000", "#ff0000",
               "#FF000080", "#FF0000zz", "#FF00008", "#FF000", "#FFF", "#GG0000", "#FF0000800", "# FF0000", "rgb(1,2,3)", "rgb(255,255,255)", "rgb(256,0,0)",
               "rgb(300,0,0)", "rgb( 1 , 2 , 3 )", "rgb(1,2,3) x", "rgb(1,2,3", "rgb(1,2)", "rgb(1,2,3,4)", "rgb(-1,2,3)", "rgb(1.0,2,3)", "RGB(1,2,3)",
               "rgb (1,2,3)", "rgb(١,2,3)", "rgb( 1,2,3)", "rgb(\n1,2,3)", "rgba(1,2,3,4)", "rgba(1 ,2,3,4)", "rgba( 1,2 ,3 ,4 )", "rgba(1,2,3,300)",
               "rgba(1,2,3)", "rgba(1,2,3,4)junk", "rgb(001,2,3)", "rgb(" + "1" * 4301 + ",2,3)", "x#FF0000", "#ff0000ff", "#FF0000FF", "rgb(1,2,3)\n", "rgb()", "rgba(,,,)"],
}
SPECIFIC["KBgColor"] = SPECIFIC["KColor"][:24]


def probe_values(key):
    vals = list(GENERIC) + SPECIFIC.get(key, [])
    if key in BOOL_KEYS or key == "KProgressBar":
        vals += ["False", "FALSE", "off", "0.0", "null", 3, [False], {"x": False}]
    return vals


# ------------------------------------------------------------------ Gen/CliUnicode.v
def gen_unicode():
    import ttconv.style_properties as styles
    out = ["(* GENERATED by harness/gen_c19.py from the running CPython and ttconv.style_properties — do not edit *)",
           "From TT Require Import Base.Prelude.", ""]

    allchars = "".join(chr(cp) for cp in range(0x110000) if not 0xD800 <= cp <= 0xDFFF)
    # \d and \s as the decimal colour patterns see them (re.ASCII): \d must be exactly [0-9]
    if "".join(re.findall(r"\d", allchars, re.ASCII)) != "0123456789": raise GenError("re.ASCII \\d is not [0-9]")
    rsp = sorted(ord(ch) for ch in set(re.findall(r"\s", allchars, re.ASCII)))
    out.append("Definition re_ascii_spaces : list Z := [" + "; ".join(map(str, rsp)) + "].")
    # int() on ASCII digit strings is plain decimal reading (sanity of the transcription's only use of int())
    for t in ("0", "007", "255", "256", "30000", "9" * 40):
        if int(t) != sum((ord(c) - 48) * 10 ** i for i, c in enumerate(reversed(t))): raise GenError("int() on digits")
    # re `.` without DOTALL: everything but "\n"
    nodot = [ord(ch) for ch in allchars if not re.fullmatch(r".", ch)]
    out.append("Definition re_dot_excluded : list Z := [" + "; ".join(map(str, nodot)) + "].")
    for nm, f in (("lower_ascii", str.lower), ("upper_ascii", str.upper)):
        rows = []
        for ch in allchars:
            if ord(ch) < 128:
                exp = ch
                if nm == "lower_ascii" and "A" <= ch <= "Z": exp = chr(ord(ch) + 32)
                if nm == "upper_ascii" and "a" <= ch <= "z": exp = chr(ord(ch) - 32)
                if f(ch) != exp: raise GenError(f"{nm} of ASCII {ch!r}")
                continue
            img = f(ch)
            if all(ord(x) < 128 for x in img):
                rows.append(f"({ord(ch)}, {txt(img)})")
        out.append(f"Definition {nm} : list (Z * text) := [" + "; ".join(rows) + "].")
    rows = []
    for name, m in styles.NamedColors.__members__.items():
        if not all(ord(c) < 128 for c in name): raise GenError("non-ASCII colour name")
        rows.append(f"({txt(name)}, {color_lit(m.value)})")
    out.append("Definition named_colors : list (text * (Z * Z * Z * Z)) := [" + "; ".join(rows) + "].")
    rows = []
    for name, lvl in logging._nameToLevel.items():
        if not isinstance(lvl, int): raise GenError("level")
        rows.append(f"({txt(name)}, {lvl})")
    out.append("Definition log_levels : list (text * Z) := [" + "; ".join(rows) + "].")
    out.append(f"Definition int_max_str_digits : Z := {sys.get_int_max_str_digits()}.")
    return "\n".join(out) + "\n"


# ------------------------------------------------------------------ the shape of tt.convert, from its AST
def _call_name(node):
    """dotted name of the function of a Call node, or None"""
    import ast
    f = node.func if isinstance(node, ast.Call) else None
    parts = []
    while isinstance(f, ast.Attribute):
        parts.append(f.attr); f = f.value
    if isinstance(f, ast.Name):
        parts.append(f.id); return ".".join(reversed(parts))
    return None


def _calls(nodes):
    import ast
    out = []
    for n in nodes:
        for x in ast.walk(n):
            if isinstance(x, ast.Call): out.append(x)
    return out


def _mentions(node, name):
    import ast
    return any(isinstance(x, ast.Name) and x.id == name for x in ast.walk(node))


def analyse_convert():
    """Reads the body of tt.convert statement by statement and returns
         (phases in statement order, reader dispatch, writer dispatch)
    where a dispatch row is (FileTypes member value, module alias whose to_model/from_model is called, configuration
    section handed to it or None).  Any statement of an unknown shape, a configuration read after the call it
    configures, or an output path used before the writer has returned aborts the generator."""
    import ast, inspect
    import ttconv.tt as tt
    tree = ast.parse(inspect.getsource(tt))
    fns = [n for n in tree.body if isinstance(n, ast.FunctionDef) and n.name == "convert"]
    if len(fns) != 1: raise GenError("tt.convert not found")
    body = list(fns[0].body)
    if body and isinstance(body[0], ast.Expr) and isinstance(body[0].value, ast.Constant) and isinstance(body[0].value.value, str): body = body[1:]
    U = ast.unparse
    phases = []; readers = []; writers = []

    def chain(node, var):
        """[(member name, body)] of an if/elif chain testing `var is FileTypes.X`, and the else body"""
        rows = []
        while True:
            t = node.test
            if not (isinstance(t, ast.Compare) and len(t.ops) == 1 and isinstance(t.ops[0], ast.Is) and U(t.left) == var
                    and U(t.comparators[0]).startswith("FileTypes.")):
                raise GenError(f"dispatch test of unknown shape: {U(t)}")
            rows.append((U(t.comparators[0]).split(".")[1], node.body))
            if len(node.orelse) == 1 and isinstance(node.orelse[0], ast.If): node = node.orelse[0]
            else: return rows, node.orelse

    def dispatch(node, var, method, outvar):
        rows, orelse = chain(node, var)
        if not any(_call_name(c) == "sys.exit" for c in _calls(orelse)): raise GenError(f"{var}: the else branch does not exit")
        if any(_call_name(c) and _call_name(c).endswith("." + method) for c in _calls(orelse)): raise GenError(f"{var}: call in the else branch")
        out = []
        for member, stmts in rows:
            idx_call = [i for i, st in enumerate(stmts) if any((_call_name(c) or "").endswith("." + method) for c in _calls([st]))]
            if len(idx_call) != 1: raise GenError(f"{var} {member}: expected one {method} call")
            call = [c for c in _calls([stmts[idx_call[0]]]) if (_call_name(c) or "").endswith("." + method)]
            if len(call) != 1: raise GenError(f"{var} {member}: expected one {method} call")
            alias = _call_name(call[0])[:-len(method) - 1]
            cfgs = [(i, c) for i, st in enumerate(stmts) for c in _calls([st]) if _call_name(c) == "read_config_from_json"]
            sec = None
            if cfgs:
                if len(cfgs) != 1 or cfgs[0][0] >= idx_call[0]: raise GenError(f"{var} {member}: configuration read after the call")
                c = cfgs[0][1]
                if len(c.args) != 2 or not isinstance(c.args[0], ast.Name) or U(c.args[1]) != "json_config_data": raise GenError(f"{var} {member}: read_config_from_json arguments")
                cls = getattr(tt, c.args[0].id)
                sec = cls.name()
                # the configuration read is what is handed to the call
                tgt = [U(st.targets[0]) for st in stmts if isinstance(st, ast.Assign) and c in _calls([st])]
                if len(tgt) != 1 or not any(U(a) == tgt[0] for a in call[0].args): raise GenError(f"{var} {member}: configuration not passed to {method}")
            else:
                # no configuration is read in this branch: no argument may be named like one
                if any("config" in U(a) for a in call[0].args): raise GenError(f"{var} {member}: unexpected configuration argument")
            if outvar is not None:
                uses = [i for i, st in enumerate(stmts) if _mentions(st, outvar)]
                if not uses or min(uses) <= idx_call[0]: raise GenError(f"{var} {member}: {outvar} used before {method} returned")
            out.append((getattr(tt.FileTypes, member).value, alias, sec))
        return out

    def add(ph):
        phases.append(ph)

    for st in body:
        src = U(st)
        if src in ("inputfile = args.input", "outputfile = args.output"): continue
        if isinstance(st, ast.Expr) and _call_name(st.value) in ("LOGGER.info", "LOGGER.debug"): continue
        if src == "json_config_data = None": add("load_config"); continue
        if isinstance(st, ast.If) and U(st.test) == "args.config is not None" and not st.orelse:
            if [U(x) for x in st.body] != ["json_config_data = json.loads(args.config)"]: raise GenError("inline configuration: " + src)
            add("inline"); continue
        if isinstance(st, ast.If) and U(st.test) == "args.config_file is not None" and not st.orelse:
            ok = len(st.body) == 1 and isinstance(st.body[0], ast.With) and U(st.body[0].items[0].context_expr) == "open(args.config_file)" \
                 and [U(x) for x in st.body[0].body] == ["json_config_data = json.load(json_file)"]
            if not ok: raise GenError("configuration file: " + src)
            add("file"); continue
        if isinstance(st, (ast.AnnAssign, ast.Assign)) and U(st.value) == "read_config_from_json(GeneralConfiguration, json_config_data)":
            add("general"); continue
        if isinstance(st, ast.If) and U(st.test) == "general_config is not None" and not st.orelse:
            inner = [(U(x.test), [U(y) for y in x.body]) for x in st.body if isinstance(x, ast.If) and not x.orelse]
            if len(inner) != len(st.body) or inner != [
                    ("general_config.progress_bar is not None", ["progress.display_progress_bar = general_config.progress_bar"]),
                    ("general_config.log_level is not None", ["LOGGER.setLevel(general_config.log_level)"])]:
                raise GenError("general section handling: " + src)
            add("progress"); add("level"); continue
        if isinstance(st, ast.Assign) and _call_name(st.value) == "os.path.splitext":
            if U(st.value) not in ("os.path.splitext(inputfile)", "os.path.splitext(outputfile)"): raise GenError(src)
            continue
        if src == "reader_type = FileTypes.get_file_type(args.itype, input_file_extension)": add("itype"); continue
        if src == "writer_type = FileTypes.get_file_type(args.otype, output_file_extension)": add("otype"); continue
        if isinstance(st, ast.If) and _mentions(st.test, "reader_type"):
            readers[:] = dispatch(st, "reader_type", "to_model", None); add("read"); continue
        if isinstance(st, ast.If) and U(st.test) == "general_config is not None and general_config.document_lang is not None" and not st.orelse:
            if [U(x) for x in st.body] != ["model.set_lang(general_config.document_lang)"]: raise GenError(src)
            add("lang"); continue
        if isinstance(st, ast.For) and U(st.target) == "filter_name" and U(st.iter) == "args.filter" and not st.orelse:
            names = [_call_name(c) for c in _calls(st.body)]
            want = ["DocumentFilter.get_filter_by_name", "LOGGER.error", "doc_filter_class.get_config_class", "read_config_from_json",
                    "doc_filter_class", "filter_config_class", "doc_filter.process"]
            if names != want: raise GenError(f"filter loop calls {names}")
            lines = [U(x) for x in st.body]
            if lines[1] != "if doc_filter_class is None:\n    LOGGER.error('Unknown filter: %s', filter_name)\n    continue": raise GenError("filter loop: unknown filter handling")
            if "read_config_from_json(filter_config_class, json_config_data)" not in lines[3] or \
               "doc_filter_class(filter_config or filter_config_class())" not in lines[4] or lines[5] != "doc_filter.process(model)":
                raise GenError("filter loop body")
            add("filters"); continue
        if isinstance(st, ast.If) and _mentions(st.test, "writer_type"):
            writers[:] = dispatch(st, "writer_type", "from_model", "outputfile"); add("write"); continue
        raise GenError("tt.convert: statement of unknown shape: " + src[:120])
    # the output path is not touched outside the writer branches
    for st in body:
        if isinstance(st, ast.If) and _mentions(st.test, "writer_type"): continue
        if src_uses_output(st): raise GenError("outputfile used outside the writer dispatch: " + U(st)[:80])
    return phases, readers, writers


def src_uses_output(st):
    import ast
    if ast.unparse(st) == "outputfile = args.output": return False
    if isinstance(st, ast.Expr) and _call_name(st.value) in ("LOGGER.info", "LOGGER.debug"): return False
    if isinstance(st, ast.Assign) and ast.unparse(st.value) == "os.path.splitext(outputfile)": return False
    return _mentions(st, "outputfile") or any(isinstance(x, ast.Attribute) and x.attr == "output" for x in ast.walk(st))


def argparse_table():
    """(sub-commands, rows of the convert parser: (option string, dest, action class, nargs, required, default))"""
    import argparse
    import ttconv.tt as tt
    cli = tt.cli
    if cli.prefix_chars != "-" or cli.fromfile_prefix_chars is not None: raise GenError("parser settings")
    top = [a for a in cli._actions if not isinstance(a, argparse._HelpAction)]
    if len(top) != 1 or not isinstance(top[0], argparse._SubParsersAction) or top[0].dest != "subcommand" or top[0].required:
        raise GenError("top-level parser: expected only the optional sub-command")
    subs = list(top[0].choices)
    rows = []
    for name, parser in top[0].choices.items():
        if name != "convert": raise GenError(f"sub-command {name} is not transcribed")
        if parser.get_default("func") is not tt.__dict__.get("convert") and parser.get_default("func").__name__ != "convert":
            raise GenError("convert sub-parser does not call convert")
        for a in parser._actions:
            if not a.option_strings: raise GenError(f"positional argument {a.dest}")
            kind = type(a).__name__
            if kind not in ("_HelpAction", "_StoreAction", "_AppendAction"): raise GenError(f"action {kind}")
            if kind != "_HelpAction" and (a.nargs is not None or a.const is not None or a.type is not None or a.choices is not None):
                raise GenError(f"argument {a.dest}: nargs/const/type/choices")
            dflt = {None: "None"}.get(a.default, repr(a.default)) if not isinstance(a.default, list) else repr(a.default)
            for o in a.option_strings:
                rows.append((o, a.dest, kind, bool(a.required), dflt))
    return subs, rows


def decoder_name(dec):
    """name of a field's decoder: a function or class by its qualified name, a callable instance by its class name"""
    if dec is None: return ""
    if hasattr(dec, "__qualname__"): return dec.__qualname__
    return type(dec).__name__


# ------------------------------------------------------------------ Gen/CliTables.v
def gen_tables():
    import ttconv.tt as tt
    from ttconv.filters.document_filter import DocumentFilter
    out = ["(* GENERATED by harness/gen_c19.py from ttconv/tt.py, config.py, */config.py, filters/ — do not edit *)",
           "From TT Require Import Base.Prelude Base.CliTypes Gen.CliUnicode Model.Cli.", ""]
    rows = [f"({txt(m.name)}, {txt(m.value)})" for m in list(tt.FileTypes)]
    for m in list(tt.FileTypes):
        if not isinstance(m.value, str): raise GenError("file type value")
    out.append("Definition gen_file_types : list (text * text) := [" + "; ".join(rows) + "].")
    rows = []
    for name, cls in DocumentFilter._all_filters.items():
        rows.append(f"({txt(name)}, {txt(cls.get_config_class().name())})")
    out.append("Definition gen_filter_registry : list (text * text) := [" + "; ".join(rows) + "].")
    # dataclass fields: order, "optional" as ModuleConfiguration.validate computes it, the name of the decoder ("" = none)
    rows = []
    for cls in classes():
        frows = []
        for f in cls.get_fields():
            if (cls.name(), f.name) not in KEYS: raise GenError(f"unknown configuration field {cls.name()}.{f.name}")
            optional = "Optional" in f.type or cls.get_field_default(f) is not None
            if set(f.metadata) - {"decoder"}: raise GenError(f"unknown field metadata {cls.name()}.{f.name}: {sorted(f.metadata)}")
            if f.default_factory is not dataclasses.MISSING: raise GenError(f"default_factory on {cls.name()}.{f.name}")
            frows.append(f"({txt(f.name)}, {C.boolean(optional)}, {txt(decoder_name(f.metadata.get('decoder')))})")
        rows.append(f"({txt(cls.name())}, {txt(cls.__name__)}, [" + "; ".join(frows) + "])")
    known = {c.name() for c in classes()}
    for (s, _f) in KEYS:
        if s not in known: raise GenError(s)
    out.append("Definition gen_config_fields : list (text * text * list (text * bool * text)) := [" + ";\n  ".join(rows) + "].")
    # argparse: sub-commands and the options of `convert`
    subs, arows = argparse_table()
    out.append("Definition gen_subcommands : list text := [" + "; ".join(txt(x) for x in subs) + "].")
    out.append("Definition gen_options : list (text * text * text * bool * text) := [" +
               "; ".join(f"({txt(o)}, {txt(d)}, {txt(k)}, {C.boolean(rq)}, {txt(df)})" for o, d, k, rq, df in arows) + "].")
    # which configuration classes tt.convert can reach: the readers/writers it names
    cl = {c.name(): c for c in classes()}
    g = cl["general"].parse({})
    def gl(x):
        return jlit(x)
    out.append(f"Definition gen_default_general : json * bool * json := ({gl(g.log_level)}, {bool_lit(g.progress_bar)}, {gl(g.document_lang)}).")
    out.append(f"Definition gen_default_scc : scc_align := {scc_cfg_lit(cl['scc_reader'].parse({}))}.")
    out.append(f"Definition gen_default_stl : stl_cfg := {stl_cfg_lit(cl['stl_reader'].parse({}), None)}.")
    out.append(f"Definition gen_default_imsc : imsc_cfg := {imsc_cfg_lit(cl['imsc_writer'].parse({}))}.")
    out.append(f"Definition gen_default_srt : bool := {srt_cfg_lit(cl['srt_writer'].parse({}))}.")
    out.append(f"Definition gen_default_vtt : vtt_cfg := {vtt_cfg_lit(cl['vtt_writer'].parse({}))}.")
    out.append(f"Definition gen_default_lcd : lcd_cfg := {lcd_cfg_lit(cl['lcd'].parse({}))}.")
    # the filter is constructed with `filter_config or filter_config_class()`: the no-argument instance must equal parse({})
    from ttconv.filters.doc.lcd import LCDDocFilterConfig
    if LCDDocFilterConfig() != cl["lcd"].parse({}) or not LCDDocFilterConfig():
        raise GenError("LCDDocFilterConfig() differs from parse({}) or is falsy")
    # probes
    rows = []
    for (section, field), key in KEYS.items():
        for v in probe_values(key):
            kind, r = decode_key(section, field, v)
            rows.append(f"({key}, {jlit(v)}, {'POk ' + r if kind == 'ok' else 'PRaise ' + r})")
    out.append("Definition gen_probes : list (key * json * probe_res) := [\n  " + ";\n  ".join(rows) + "].")
    return "\n".join(out) + "\n"


def gen_shape():
    """Gen/CliShape.v: the body of tt.convert read from its AST (order of its effects, reader and writer dispatch with
    their configuration sections).  Kept apart from CliTables.v so that a change of shape stops the proofs (Tables.v)
    but not the correspondence run, which can then still look for a concrete failing command line."""
    out = ["(* GENERATED by harness/gen_c19.py from the AST of ttconv/tt.py convert — do not edit *)",
           "From TT Require Import Base.Prelude Base.CliTypes.", ""]
    phases, readers, writers = analyse_convert()
    known = {c.name() for c in classes()}
    out.append("Definition gen_phases : list text := [" + "; ".join(txt(x) for x in phases) + "].")
    drow = lambda r: f"({txt(r[0])}, {txt(r[1])}, {opt(r[2], txt)})"
    out.append("Definition gen_reader_table : list (text * text * option text) := [" + "; ".join(drow(r) for r in readers) + "].")
    out.append("Definition gen_writer_table : list (text * text * option text) := [" + "; ".join(drow(r) for r in writers) + "].")
    for r in readers + writers:
        if r[2] is not None and r[2] not in known: raise GenError(f"configuration section {r[2]} is not transcribed")
    return "\n".join(out) + "\n"


GENERATORS = {"CliUnicode": gen_unicode, "CliTables": gen_tables, "CliShape": gen_shape}
