"""C03 — every snapshot element carries the style values TTML style resolution prescribes.  Theorems:
coq/Properties/C03.v.  Tie: M (Model/Isd.v) against ISD.from_model on style-heavy documents (all 36 properties, all
units, cell/pixel resolutions, writing modes, initial values, animation, every element kind); S (Spec/StyleSpec.v,
by-property cascade and computation) is evaluated in Coq on every styled element of the implementation's snapshots."""
import logging, sys
import common as C
import isdlit as L
import docgen, isdcore, gen_tables

HEADER = ("From TT Require Import Model.Doc Gen.StyleTables Model.Isd Model.IsdCases Spec.StyleSpec Model.StyleSpecCases.\n"
          "Open Scope Z_scope.\n")


def main():
    run = C.Run("C03", "proof")
    run.hygiene()
    sys.path.insert(0, C.SRC)
    changed, errors = gen_tables.generate({"StyleTables"})
    if errors:
        run.violation("table translator failed closed: " + "; ".join(errors), dict(kind="translator", errors=errors), False)
        return run.finish()
    ok, log = run.build(["Proofs/C03/FontSize.vo", "Model/StyleSpecCases.vo"], clean=(run.tier == "thorough"))
    proofs_ok = ok and run.theorems()
    if not ok: run.proof_log = log[-2500:]
    run.witnesses()
    logging.disable(logging.CRITICAL)

    ndocs = 300 if run.tier == "quick" else 8000
    rng = run.rng
    blocks, docs, nq, n_err, n_styled = [], {}, 0, 0, 0
    for k in range(ndocs):
        g = docgen.Gen(rng, style_density=(0.10, 0.2, 0.3)[k % 3], anim_density=(0.0, 0.03, 0.06)[k % 3], display_p=0.02,
                       ruby_p=0.2, region_ref_p=0.15, timing_p=0.15)
        g.force_initial_direction = (k % 4 == 0)
        if k % 4 == 0: g.ruby_p = 0.0; g.tp = 0.05; g.dp = 0.0
        d = g.doc(nreg=rng.choice([0, 1, 1, 2]))
        qs = docgen.query_times(rng, d, 5 if run.tier == "quick" else 8)
        items = []
        for t in qs:
            lit, obj = isdcore.snapshot(d, t)
            items.append(f"({L.qlit(t)}, {'None' if lit is None else '(Some ' + lit + ')'})")
            if lit is None: n_err += 1
            else: n_styled += sum(1 for r in obj.iter_regions() for e in r.dfs_iterator() if any(True for _ in e.iter_styles()))
        nq += len(qs); docs[k] = (d, qs)
        defs = f"Definition d{k} := {L.doc_lit(d)}.\nDefinition q{k} : list (Q * option (list elem)) := [{'; '.join(items)}]."
        blocks.append((k, defs, [f"cases_isd d{k} q{k}", f"cases_styles [p_TextEmphasis] d{k} q{k}", f"cases_styles [] d{k} q{k}"], [len(qs)] * 3))
    files = isdcore.write_shards("Cases_C03_", HEADER, blocks)
    bad, broken = isdcore.eval_shards(files)
    C.clean_cases("Cases_C03_")
    m_bad = bad.get(0, []); s_bad = bad.get(1, []); strict = bad.get(2, [])
    emph = [c for c in strict if c not in s_bad]
    run.log(f"{ndocs} documents, {nq} snapshots ({n_err} raised), {n_styled} styled elements: model/code mismatches {len(m_bad)}, "
            f"S failures outside findings {len(s_bad)}, text-emphasis failures {len(emph)}, broken {len(broken)}")
    if emph: run.known("textemphasis-auto-parent-writing-mode", f"{len(emph)} snapshots")

    def replay(case):
        k, i = case; d, qs = docs[k]
        lit, obj = isdcore.snapshot(d, qs[i])
        return dict(document=L.doc_lit(d), time=str(qs[i]), implementation_snapshot=lit if lit else repr(obj))
    if s_bad:
        run.violation(f"computed styles differ from TTML2 style resolution (document {s_bad[0][0]}, time index {s_bad[0][1]})",
                      dict(kind="S-on-code", spec="coq/Spec/StyleSpec.v computed_spec", first=replay(s_bad[0]), count=len(s_bad)))
    if (m_bad or broken or not proofs_ok) and not s_bad:
        what = []
        if not proofs_ok: what.append("theorems of coq/Properties/C03.v no longer check: " + getattr(run, "proof_log", "")[-500:])
        if m_bad: what.append(f"correspondence Model/Isd.v vs ISD.from_model disagrees on {len(m_bad)} snapshots")
        if broken: what.append(f"case files did not evaluate: {broken[0]}")
        run.violation("; ".join(what), dict(kind="broken-tie", theorem_file="coq/Properties/C03.v", proofs_ok=proofs_ok,
                                            correspondence="Model/Isd.v isd vs ttconv.isd.ISD.from_model",
                                            first=replay(m_bad[0]) if m_bad else None), found_input=False)
    run.cov.update(evaluations=nq, distinct_nontrivial=n_styled,
                   rule="style-heavy random documents: each of the 36 properties with every admissible unit / value form (none, normal, "
                        "transparent, 1-2 shadows, emphasis with/without colour, ruby reserve with/without length), cell resolutions "
                        "{15x32, 24x40, 1x1, 53x97}, pixel resolutions, 4 writing modes, initial-value overrides, animation; every element kind "
                        "incl. both ruby patterns. Every styled element of every snapshot is compared with M and with the by-property "
                        "specification in Coq. distinct_nontrivial = styled snapshot elements compared.",
                   samples=[dict(document=L.doc_lit(docs[1][0])[:1500], times=[str(t) for t in docs[1][1]])],
                   documents=ndocs, snapshots_raising=n_err, model_code_mismatches=len(m_bad), s_failures_on_code=len(s_bad))
    run.assumptions += ["binary64 rounding inside the Python computation is not modelled: numbers are compared with relative tolerance 1e-9",
                        "well-formed documents with unique xml:id (used to trace snapshot elements back to the source)"]
    return run.finish(["harness/isdlit.py", "harness/gen_core.py"])


if __name__ == "__main__":
    sys.exit(main())
