"""C03 — every snapshot element carries the style values TTML style resolution prescribes.  Theorems:
coq/Properties/C03.v (all 36 properties, every document, time and ancestor chain).  Tie: M (Model/Isd.v) against
ISD.from_model on style-heavy documents (all 36 properties, all units, cell/pixel resolutions, writing modes, initial
values, animation, every element kind); S (Spec/StyleSpec.v, by-property cascade and computation) is evaluated in Coq
on every styled element of the implementation's snapshots.  The generated documents are `boosted` (below) so that the
situations the property names are reached often: ruby text (halved font size), vertical regions with tts:textEmphasis
auto on content elements, tts:position as a document initial value, partially specified tts:textDecoration below a
decorated ancestor (units: docgen already uses every unit the validators of style_properties.py admit).  The input distribution is measured on what the
snapshots actually show and written to the evidence."""
import collections, logging, sys
from fractions import Fraction as F
import common as C
import isdlit as L
import docgen, isdcore, gen_tables

HEADER = ("From TT Require Import Model.Doc Gen.StyleTables Model.Isd Model.IsdCases Spec.StyleSpec Model.StyleSpecCases.\n"
          "Open Scope Z_scope.\n")

LENGTH_PROPS = ("FontSize", "Extent", "Origin", "Position", "Padding", "LineHeight", "LinePadding", "RubyReserve", "TextOutline",
                "TextShadow", "Disparity")


def boost(rng, d, k):
    """post-process a generated document (all randomness from rng); returns nothing"""
    import ttconv.model as m, ttconv.style_properties as s
    SP = s.StyleProperties
    n = [0]
    def uid():
        n[0] += 1; return f"z{n[0]}"
    body = d.get_body()
    regs = list(d.iter_regions())
    elems = [e for e in body.dfs_iterator() if not isinstance(e, (m.Text, m.Br))] if body is not None else []
    # (a) ruby containers whose children survive pruning (4 documents in 5): otherwise most snapshots of a document with
    #     ruby raise "Children of ruby do not conform" and the halving rule is hardly reached
    if k % 5 != 4:
        for e in elems:
            if not isinstance(e, (m.Rb, m.Rt, m.Rp, m.Rbc, m.Rtc)): continue
            e.set_begin(None); e.set_end(None); e.set_region(None); e.set_style(SP.Display, None)
            for st in list(e.iter_animation_steps()):
                if st.style_property is SP.Display: e.remove_animation_step(st)
            if isinstance(e, m.Rtc) and not e.has_children():
                rt = m.Rt(d); rt.set_id(uid()); e.push_children([rt]); elems.append(rt)
        for e in elems:
            if isinstance(e, (m.Rt, m.Rp)):
                sp = m.Span(d); sp.set_id(uid()); sp.push_child(m.Text(d, "R" + uid())); e.push_child(sp)
    # (b) vertical regions with tts:textEmphasis auto (and outlines / shadows without colour) on content elements
    if k % 4 == 1 and regs:
        for r in regs:
            if rng.random() < 0.7: r.set_style(SP.WritingMode, rng.choice([s.WritingModeType.tbrl, s.WritingModeType.tblr]))
        for e in elems:
            if isinstance(e, (m.Span, m.P, m.Rt, m.Rb, m.Div, m.Body)) and rng.random() < 0.3:
                e.set_style(SP.TextEmphasis, s.TextEmphasisType(s.TextEmphasisType.Style.auto, rng.choice([None] + docgen.COLORS),
                                                                rng.choice(list(s.TextEmphasisType.Position))))
            if isinstance(e, (m.Span, m.P)) and rng.random() < 0.1:
                # a writing mode on a content element is not applicable and must not influence anything
                e.set_style(SP.WritingMode, rng.choice(list(s.WritingModeType)))
    # (d) tts:position as a document initial value
    if rng.random() < 0.08:
        d.put_initial_value(SP.Position, docgen.rvalue(rng, SP.Position))
    # (e) partially specified text decoration below a decorated ancestor
    for e in elems:
        if isinstance(e, (m.Span, m.P)) and rng.random() < 0.08:
            e.set_style(SP.TextDecoration, s.TextDecorationType(*[rng.choice([None, None, True, False]) for _ in range(3)]))


class Dist:
    """what the snapshots that were compared actually exercise"""
    def __init__(self):
        self.prop = collections.defaultdict(lambda: [0, 0, 0])      # applicable, specified on the element, animated on it
        self.units = collections.defaultdict(collections.Counter)
        self.sit = collections.Counter()
        self.kinds = collections.Counter()
        self.errors = collections.Counter()

    def lens(self, v):
        import ttconv.style_properties as s
        if isinstance(v, s.LengthType): return [v]
        out = []
        for a in ("height", "width", "x", "y", "h_offset", "v_offset", "before", "end", "after", "start", "thickness", "length"):
            x = getattr(v, a, None)
            if isinstance(x, s.LengthType): out.append(x)
        for sh in getattr(v, "shadows", ()) or ():
            out += [x for x in (sh.x_offset, sh.y_offset, sh.blur_radius) if isinstance(x, s.LengthType)]
        return out

    def add(self, d, src, parent, isd):
        import ttconv.model as m, ttconv.style_properties as s
        SP = s.StyleProperties
        for r in isd.iter_regions():
            sr = src.get(r.get_id())
            wm = r.get_style(SP.WritingMode)
            vertical = wm in (s.WritingModeType.tbrl, s.WritingModeType.tblr)
            if sr is not None and not sr.has_style(SP.Direction) and sr.get_style(SP.WritingMode) in (s.WritingModeType.lrtb, s.WritingModeType.rltb):
                self.sit["direction_from_writing_mode"] += 1
                if d.has_initial_value(SP.Direction): self.sit["direction_from_writing_mode_against_initial"] += 1
            for e in r.dfs_iterator():
                if isinstance(e, (m.Br, m.Text)): continue
                se = src.get(e.get_id())
                if se is None: continue
                self.kinds[type(e).__name__] += 1
                anim = {a.style_property for a in se.iter_animation_steps()}
                for p in SP.ALL:
                    if not e.is_style_applicable(p): continue
                    c = self.prop[p.__name__]; c[0] += 1
                    if se.has_style(p):
                        c[1] += 1
                        if p.__name__ in LENGTH_PROPS:
                            for x in self.lens(se.get_style(p)): self.units[p.__name__][x.units.value] += 1
                    if p in anim: c[2] += 1
                te = se.get_style(SP.TextEmphasis)
                if isinstance(te, s.TextEmphasisType) and te.style is s.TextEmphasisType.Style.auto and e.is_style_applicable(SP.TextEmphasis):
                    self.sit["emphasis_auto"] += 1
                    if vertical and not isinstance(e, m.Region): self.sit["emphasis_auto_content_vertical_region"] += 1
                if isinstance(e, (m.Rt, m.Rtc)) and not se.has_style(SP.FontSize):
                    self.sit["ruby_text_font_size_inherited"] += 1
                td = se.get_style(SP.TextDecoration)
                if td is not None and e.is_style_applicable(SP.TextDecoration) and None in (td.underline, td.line_through, td.overline):
                    self.sit["text_decoration_partial"] += 1
                    q = parent.get(se)
                    while q is not None and not q.has_style(SP.TextDecoration): q = parent.get(q)
                    if q is not None: self.sit["text_decoration_partial_below_decorated_ancestor"] += 1
                if isinstance(e, m.Region):
                    po = se.get_style(SP.Position)
                    if po is not None:
                        self.sit["position_specified"] += 1
                        if po.h_edge is s.PositionType.HEdge.right or po.v_edge is s.PositionType.VEdge.bottom: self.sit["position_right_or_bottom"] += 1
                    elif d.has_initial_value(SP.Position): self.sit["position_from_initial_value"] += 1
                    pa = se.get_style(SP.Padding)
                    if pa is not None and vertical: self.sit["padding_in_vertical_region"] += 1

    def report(self):
        return dict(per_property_applicable_specified_animated={k: v for k, v in sorted(self.prop.items())},
                    specified_length_units={k: dict(v) for k, v in sorted(self.units.items())},
                    situations=dict(self.sit), snapshot_element_kinds=dict(self.kinds), snapshot_errors=dict(self.errors))


def main():
    run = C.Run("C03", "proof")
    run.hygiene()
    sys.path.insert(0, C.SRC)
    changed, errors = gen_tables.generate({"StyleTables"})
    if errors:
        run.violation("table translator failed closed: " + "; ".join(errors), dict(kind="translator", errors=errors), False)
        return run.finish()
    ok, log = run.build(["Proofs/C03/Snapshot.vo", "Model/StyleSpecCases.vo"], clean=(run.tier == "thorough"))
    proofs_ok = ok and run.theorems()
    if not ok: run.proof_log = log[-2500:]
    run.witnesses()
    logging.disable(logging.CRITICAL)
    import ttconv.model as m

    ndocs = 300 if run.tier == "quick" else 8000
    rng = run.rng
    blocks, docs, nq, n_err, n_styled = [], {}, 0, 0, 0
    n_edited = 0
    dist = Dist()
    for k in range(ndocs):
        g = docgen.Gen(rng, style_density=(0.10, 0.2, 0.3)[k % 3], anim_density=(0.0, 0.03, 0.06)[k % 3], display_p=0.02,
                       ruby_p=0.2, region_ref_p=0.15, timing_p=0.15)
        g.force_initial_direction = (k % 4 == 0)
        if k % 4 == 0: g.ruby_p = 0.0; g.tp = 0.05; g.dp = 0.0; g.rrp = 0.6   # content mostly assigned to a region, so that what the region derives is seen
        d = g.doc(nreg=rng.choice([0, 1, 1, 2]))
        boost(rng, d, k)
        src, parent = {}, {}
        if d.get_body() is not None:
            for e in d.get_body().dfs_iterator():
                if not isinstance(e, m.Text) and e.get_id(): src[e.get_id()] = e
                for c in e: parent[c] = e
        for r in d.iter_regions(): src[r.get_id()] = r
        qs = docgen.query_times(rng, d, 5 if run.tier == "quick" else 8)
        items = []
        for t in qs:
            lit, obj = isdcore.snapshot(d, t)
            items.append(f"({L.qlit(t)}, {'None' if lit is None else '(Some ' + lit + ')'})")
            if lit is None:
                n_err += 1; dist.errors[type(obj).__name__ + ": " + str(obj)[:60]] += 1
            else:
                n_styled += sum(1 for r in obj.iter_regions() for e in r.dfs_iterator() if any(True for _ in e.iter_styles()))
                dist.add(d, src, parent, obj)
        nq += len(qs); docs[k] = (d, qs)
        defs = f"Definition d{k} := {L.doc_lit(d)}.\nDefinition q{k} : list (Q * option (list elem)) := [{'; '.join(items)}]."
        blocks.append((k, defs, [f"cases_isd d{k} q{k}", f"cases_styles [] d{k} q{k}", f"cases_hyp d{k} q{k}"], [len(qs)] * 3))
        # "every snapshot element carries the values style resolution prescribes" — of the document AS IT IS NOW: on a deep copy that has
        # already been snapshotted, initial values are put / replaced / removed through the model API and the snapshots taken again
        # (anything that remembers initial values between calls shows as a model/code or S disagreement on the edited document)
        if k % 5 == 4:
            import copy
            de = copy.deepcopy(d)
            for t in qs[:2]: isdcore.snapshot(de, t)
            edits = []
            for _ in range(rng.randint(1, 3)):
                p = rng.choice([q for q in docgen.ALL if q.__name__ not in ("Position",)])
                if de.has_initial_value(p) and rng.random() < 0.4:
                    de.remove_initial_value(p); edits.append(f"remove_initial_value({p.__name__})")
                else:
                    try:
                        de.put_initial_value(p, docgen.rvalue(rng, p)); edits.append(f"put_initial_value({p.__name__})")
                    except Exception:
                        pass
            if edits:
                ke = k + 1000000; ie = []
                for t in qs:
                    lit, obj = isdcore.snapshot(de, t)
                    ie.append(f"({L.qlit(t)}, {'None' if lit is None else '(Some ' + lit + ')'})")
                nq += len(qs); docs[ke] = (de, qs); n_edited += 1
                blocks.append((ke, f"Definition d{ke} := {L.doc_lit(de)}.\nDefinition q{ke} : list (Q * option (list elem)) := [{'; '.join(ie)}].",
                               [f"cases_isd d{ke} q{ke}", f"cases_styles [] d{ke} q{ke}", f"cases_hyp d{ke} q{ke}"], [len(qs)] * 3))
    files = isdcore.write_shards("Cases_C03_", HEADER, blocks)
    bad, broken = isdcore.eval_shards(files)
    C.clean_cases("Cases_C03_")
    m_bad = bad.get(0, []); s_bad = bad.get(1, []); h_bad = bad.get(2, [])
    run.log(f"{ndocs} documents (+{n_edited} with initial values edited between snapshots), {nq} snapshots ({n_err} raised), {n_styled} styled elements: model/code mismatches {len(m_bad)}, "
            f"S failures {len(s_bad)}, theorem hypotheses false {len(h_bad)}, broken {len(broken)}")
    run.log("situations reached: " + ", ".join(f"{k}={v}" for k, v in sorted(dist.sit.items())))

    def replay(case):
        k, i = case; d, qs = docs[k]
        lit, obj = isdcore.snapshot(d, qs[i])
        return dict(document=L.doc_lit(d), time=str(qs[i]), implementation_snapshot=lit if lit else repr(obj))
    if s_bad:
        run.violation(f"computed styles differ from TTML2 style resolution (document {s_bad[0][0]}, time index {s_bad[0][1]})",
                      dict(kind="S-on-code", spec="coq/Spec/StyleSpec.v computed_spec", first=replay(s_bad[0]), count=len(s_bad)))
    if (m_bad or broken or h_bad or not proofs_ok) and not s_bad:
        what = []
        if h_bad: what.append(f"the hypotheses of C03_snapshot_values (styles_wf, td_typed along every chain) do not hold on {len(h_bad)} generated inputs")
        if not proofs_ok: what.append("theorems of coq/Properties/C03.v no longer check: " + getattr(run, "proof_log", "")[-500:])
        if m_bad: what.append(f"correspondence Model/Isd.v vs ISD.from_model disagrees on {len(m_bad)} snapshots")
        if broken: what.append(f"case files did not evaluate: {broken[0]}")
        run.violation("; ".join(what), dict(kind="broken-tie", theorem_file="coq/Properties/C03.v", proofs_ok=proofs_ok,
                                            correspondence="Model/Isd.v isd vs ttconv.isd.ISD.from_model",
                                            first=replay(m_bad[0]) if m_bad else None), found_input=False)
    run.cov.update(evaluations=nq, distinct_nontrivial=n_styled,
                   rule="style-heavy random documents: each of the 36 properties with every admissible unit / value form (none, normal, "
                        "transparent, 1-2 shadows, emphasis with/without colour, ruby reserve with/without length), cell resolutions "
                        "{15x32, 24x40, 1x1, 53x97}, pixel resolutions, 4 writing modes, initial-value overrides, animation; every element kind "
                        "incl. both ruby patterns; boosted: conforming ruby containers, vertical regions with emphasis auto on content "
                        "elements, position as initial value, partial text decoration. Every styled "
                        "element of every snapshot is compared with M and with the by-property specification in Coq. "
                        "distinct_nontrivial = styled snapshot elements compared.",
                   samples=[dict(document=L.doc_lit(docs[1][0])[:1500], times=[str(t) for t in docs[1][1]])],
                   documents=ndocs, documents_edited_between_snapshots=n_edited, snapshots_raising=n_err, model_code_mismatches=len(m_bad), s_failures_on_code=len(s_bad), theorem_hypotheses_false=len(h_bad),
                   input_distribution=dist.report())
    run.assumptions += ["binary64 rounding inside the Python computation is not modelled: numbers are compared with relative tolerance 1e-9",
                        "well-formed documents with unique xml:id (used to trace snapshot elements back to the source)",
                        "C03_all_properties assumes td_typed: tts:textDecoration values in effect are TextDecoration values (enforced by "
                        "ttconv.model set_style / add_animation_step / put_initial_value)"]
    return run.finish(["harness/isdlit.py", "harness/gen_core.py"])


if __name__ == "__main__":
    sys.exit(main())
