"""Shared machinery of the ISD-related checks (C01, C02, C03, C13, C14): run the implementation on generated
documents and query times, write Gallina case files, evaluate them in Coq, collect disagreements."""
import logging, os, re, sys
import common as C
import isdlit as L
import docgen


def snapshot(d, t, sig=None):
    """(literal or None, isd object or exception)"""
    from ttconv.isd import ISD
    try:
        i = ISD.from_model(d, t, sig) if sig is not None else ISD.from_model(d, t)
    except Exception as e:          # noqa: the outcome class is what is compared
        return None, e
    return L.isd_lit(i), i


def render_lit(isd):
    """literal of the regions of a snapshot that paint something (the C14 render specification, mirrored here for
    Python-side comparisons): content, or a shown, non-transparent, visible background"""
    import ttconv.style_properties as s
    SP = s.StyleProperties
    keep = []
    for r in isd.iter_regions():
        if len(r) > 0: keep.append(r); continue
        bg = r.get_style(SP.BackgroundColor); op = r.get_style(SP.Opacity)
        if (r.get_style(SP.ShowBackground) is s.ShowBackgroundType.always and bg is not None and bg.components[3] != 0
                and op != 0 and r.get_style(SP.Visibility) is not s.VisibilityType.hidden):
            keep.append(r)
    return "[" + "; ".join(L.elem_lit(r, isd=True) for r in keep) + "]"


HEADER = ("From TT Require Import Model.Doc Gen.StyleTables Model.Isd Model.IsdCases.\n"
          "Open Scope Z_scope.\n")


def write_shards(prefix, header, blocks, max_bytes=180_000):
    """blocks: list of (case_id, definitions_text, [bool-list expression per slot], [number of booleans per slot]).
    Packs them into shard files; every shard ends with one Eval per slot."""
    C.clean_cases(prefix)
    shards, cur, size = [], [], 0
    for b in blocks:
        sz = len(b[1])
        if cur and size + sz > max_bytes:
            shards.append(cur); cur, size = [], 0
        cur.append(b); size += sz
    if cur: shards.append(cur)
    files = []
    for k, sh in enumerate(shards):
        nslots = len(sh[0][2])
        txt = header + "\n".join(b[1] for b in sh) + "\n"
        for s in range(nslots):
            txt += "Eval vm_compute in check_all (" + " ++ ".join(f"({b[2][s]})" for b in sh) + ").\n"
        p = f"{C.GEN}/{prefix}{k}.v"
        with open(p, "w") as f: f.write(txt)
        files.append((p, sh))
    return files


def eval_shards(files, timeout=1500):
    """compile; returns {slot: [(case id, local index), ...]} of false entries, and the list of broken files"""
    res = C.coqc_many([p for p, _ in files], timeout)
    bad_by_slot, broken = {}, []
    for p, sh in files:
        rc, out = res[p]
        flat = " ".join(out.split())
        ms = re.findall(r"=\s*\(\s*(\d+)\s*,\s*(\[[^\]]*\]|nil)\s*\)", flat)
        nslots = len(sh[0][2])
        if rc != 0 or len(ms) != nslots:
            broken.append((p, out[-600:])); continue
        for s, (cnt, b) in enumerate(ms):
            total = sum(blk[3][s] for blk in sh)
            if int(cnt) != total:
                broken.append((p, f"slot {s}: {cnt} booleans evaluated, {total} expected")); continue
            for i in [int(x) for x in re.findall(r"\d+", b)]:
                acc = 0
                for blk in sh:
                    n = blk[3][s]
                    if i < acc + n:
                        bad_by_slot.setdefault(s, []).append((blk[0], i - acc)); break
                    acc += n
    return bad_by_slot, broken
