"""Witnesses of the two C13 defects (both repaired by `fix:` commits; they must pass).  On a tree without the repairs
they fail and the check prints the KNOWN-FINDING line of the same name."""
from witnesses import witness


def _lengths(v):
    import ttconv.style_properties as s
    if isinstance(v, s.LengthType): yield v
    elif hasattr(v, "__dataclass_fields__"):
        for f in v.__dataclass_fields__: yield from _lengths(getattr(v, f))
    elif isinstance(v, (tuple, list)):
        for x in v: yield from _lengths(x)


@witness("C13", "disparity-not-computed")
def _():
    import ttconv.model as m, ttconv.style_properties as s, ttconv.isd as I
    U = s.LengthType.Units
    for spec in (None, s.LengthType(10, U.px), s.LengthType(2, U.c), s.LengthType(1, U.em), s.LengthType(5, U.pct), s.LengthType(3, U.rw)):
        d = m.ContentDocument()
        r = m.Region("r1", d)
        r.set_style(s.StyleProperties.ShowBackground, s.ShowBackgroundType.always)
        r.set_style(s.StyleProperties.Disparity, spec)
        d.put_region(r)
        isd = I.ISD.from_model(d, 0)
        for reg in isd.iter_regions():
            for p in reg.iter_styles():
                for l in _lengths(reg.get_style(p)):
                    if l.units not in (U.rh, U.rw):
                        return f"region carries {p.__name__} = {l.value}{l.units.value} (specified disparity: {spec})"
        got = list(isd.iter_regions())[0].get_style(s.StyleProperties.Disparity)
        if spec is not None and spec.units is U.pct and abs(got.value - 5) > 1e-9: return f"5% computed to {got}"
        if spec is not None and spec.units is U.c and abs(got.value - 2 * 100 / 32) > 1e-9: return f"2c computed to {got}"


@witness("C13", "rp-whitespace-not-collapsed")
def _():
    import ttconv.model as m, ttconv.isd as I
    d = m.ContentDocument()
    b = m.Body(d); dv = m.Div(d); p = m.P(d); d.set_body(b); b.push_child(dv); dv.push_child(p)
    ruby = m.Ruby(d)
    def wrap(cls, text):
        e = cls(d); sp = m.Span(d); sp.push_child(m.Text(d, text)); e.push_child(sp); return e
    ruby.push_children([wrap(m.Rb, "base"), wrap(m.Rp, " \t(\n  x  "), wrap(m.Rt, "anno"), wrap(m.Rp, ")")])
    p.push_child(ruby)
    isd = I.ISD.from_model(d, 0)
    for r in isd.iter_regions():
        for e in r.dfs_iterator():
            if isinstance(e, m.Text):
                t = e.get_text()
                if any(c in t for c in "\t\r\n") or "  " in t:
                    return f"text {t!r} below {type(e.parent().parent()).__name__} is not collapsed"
                if isinstance(e.parent().parent(), m.Rp) and t not in ("( x", ")"): return f"rp text is {t!r}"
