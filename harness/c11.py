"""C11 — the WebVTT reader reproduces cues, inline markup and cue-setting geometry.

Theorems: coq/Properties/C11.v (tokenizer round trip for all normal-form token lists, exact timestamps, region
containment for every list of setting strings, region sharing iff same region value, cue tree with timestamps,
file-level block splitter incl. NOTE/STYLE/REGION).  Ties on every run:
  * Gen/VttTables.v regenerated from CPython's html module / str methods / ttconv (harness/gen_c11.py);
  * tokenizer M = ttconv.vtt.tokenizer.CueTextTokenizer on generated and mutated cue texts;
  * reader M = ttconv.vtt.reader.to_model on grammar-generated files, mutated files, tag soups (random sequences of
    start / end tags incl. missing, doubled, wrong-name, upper-case and stray end tags, rt inside rt, over-long
    percentages), the bundled .vtt corpus and outputs of ttconv.vtt.writer.from_model (all 8 configurations),
    geometry within 1e-9;
  * S (Spec/VttSpec.v) judges the code's own output on every grammar-generated file (times, region clauses,
    styled/timed runs, region sharing) and on every writer output (cues written = cues read).
"""
import sys, os, re, io, json, logging, itertools, time
from fractions import Fraction
import common as C
import gen_tables

PROP = "C11"
FINDINGS = {7: "ruby-structure"}
CLAUSES = {1: "S printer and harness printer disagree, or the derivation is outside S's side condition cue_text_valid (harness defect)", 2: "to_model raised", 3: "number of paragraphs differs from the number of cues that have a payload",
           10: "begin/end differ from the printed timestamps", 20: "region leaves the root container or has a negative extent",
           21: "writing mode / text alignment / display alignment of the region is not what the cue settings call for",
           22: "the region edge fixed by the line setting is misplaced",
           30: "styled/timed text runs differ from the cue text", 40: "cues with equal settings do not share a region"}

T = C.text
def L(items): return "[" + "; ".join(items) + "]"
def opt(x, f): return "None" if x is None else f"(Some {f(x)})"
def qf(x):
    """exact rational value of an int / float / Fraction as a Gallina Q"""
    x = Fraction(x)
    return f"(Qmake {C.z(x.numerator)} {x.denominator})"


# ------------------------------------------------------------------------------- implementation side
def tok_lit(t):
    from ttconv.vtt.tokenizer import StringToken, StartTagToken, EndTagToken, TimestampTagToken
    if isinstance(t, StringToken): return f"TString {T(t.value)}"
    if isinstance(t, StartTagToken):
        return f"TStart {T(t.tag)} {opt(t.classes, lambda c: L([T(x) for x in c]))} {opt(t.annotation, T)}"
    if isinstance(t, EndTagToken): return f"TEnd {T(t.tag)}"
    if isinstance(t, TimestampTagToken): return f"TTs {T(t.timestamp)}"
    raise ValueError("unknown token")


class Canon(Exception):
    pass


def _pack(c):
    return gen_tables.packcolor(c)


def elem_lit(e):
    import ttconv.model as m, ttconv.style_properties as s
    SP = s.StyleProperties
    if isinstance(e, m.Text):
        return f"EText {T(e.get_text())}"
    if isinstance(e, m.Br):
        return "EBr"
    if isinstance(e, m.Ruby):
        ch = list(e)
        if len(ch) != 2 or not isinstance(ch[0], m.Rbc) or not isinstance(ch[1], m.Rtc): raise Canon("ruby shape")
        for c in ch:
            if list(c.iter_styles()) or c.get_begin() is not None or c.get_end() is not None: raise Canon("rbc/rtc attrs")
        if list(e.iter_styles()) or e.get_begin() is not None or e.get_end() is not None: raise Canon("ruby attrs")
        return f"ERuby {L([elem_lit(x) for x in ch[0]])} {L([elem_lit(x) for x in ch[1]])}"
    kind = {m.Span: "Sp", m.Rb: "Rb", m.Rt: "Rt"}.get(type(e))
    if kind is None: raise Canon(f"element {type(e).__name__}")
    if e.get_end() is not None or e.get_region() is not None or e.get_id() is not None: raise Canon("end/region/id on inline element")
    known = {SP.BackgroundColor, SP.Color, SP.FontWeight, SP.FontStyle, SP.TextDecoration}
    st = {p: e.get_style(p) for p in e.iter_styles()}
    if set(st) - known: raise Canon(f"style {set(st) - known}")
    bold = st.get(SP.FontWeight)
    if bold not in (None, s.FontWeightType.bold): raise Canon("fontWeight")
    ital = st.get(SP.FontStyle)
    if ital not in (None, s.FontStyleType.italic): raise Canon("fontStyle")
    td = st.get(SP.TextDecoration)
    if td is not None and (td.underline is not True or td.line_through is not None or td.overline is not None): raise Canon("textDecoration")
    lang = e.get_lang()
    attrs = "(A %s %s %s %s %s %s %s)" % (
        opt(e.get_begin(), qf), opt(st.get(SP.BackgroundColor), lambda c: str(_pack(c))), opt(st.get(SP.Color), lambda c: str(_pack(c))),
        C.boolean(bold is not None), C.boolean(ital is not None), C.boolean(td is not None),
        "None" if lang in (None, "") else f"(Some {T(lang)})")
    return f"{kind} {attrs} {L([elem_lit(x) for x in e])}"


WM = {"lrtb": "LRTB", "rltb": "RLTB", "tblr": "TBLR", "tbrl": "TBRL"}
DA = {"before": "DABefore", "center": "DACenter", "after": "DAAfter"}
TA = {"start": "TAStart", "center": "TACenter", "end": "TAEnd"}
EXN = {"AttributeError": "ExAttribute", "UnboundLocalError": "ExUnboundLocal", "TypeError": "ExType",
       "RuntimeError": "ExRuntime", "ValueError": "ExValue"}


FLOAT_SPLIT_REGIONS = [0]

def doc_view(doc):
    """canonical Python view of the reader's document: (regions, paragraphs) used for literals and replays"""
    import ttconv.model as m, ttconv.style_properties as s
    SP = s.StyleProperties
    regions = []
    for i, r in enumerate(doc.iter_regions()):
        if r.get_id() != f"r{i}": raise Canon("region id")
        o = r.get_style(SP.Origin); e = r.get_style(SP.Extent)
        for l in (o.x, o.y, e.width, e.height):
            if l.units is not s.LengthType.Units.pct: raise Canon("units")
        regions.append((r.get_style(SP.WritingMode).name, o.x.value, o.y.value, e.width.value, e.height.value,
                        r.get_style(SP.DisplayAlign).name, r.get_style(SP.TextAlign).name))
    # Region identity in the code is float equality; two settings whose geometry is equal as rationals may differ in
    # the last bit (50 - (100 - 200/23)/2 vs 100/23) and then get two regions.  The model decides identity in Q, so the
    # observation merges regions that agree within 1e-9 (first one wins) and counts how often that happened.
    canon, remap = [], {}
    for i, r in enumerate(regions):
        for j, c in enumerate(canon):
            if r[0] == c[0] and r[5:] == c[5:] and all(abs(Fraction(a) - Fraction(b)) <= Fraction(1, 10 ** 9) for a, b in zip(r[1:5], c[1:5])):
                remap[i] = j; FLOAT_SPLIT_REGIONS[0] += 1; break
        else:
            remap[i] = len(canon); canon.append(r)
    regions = canon
    body = doc.get_body()
    divs = list(body)
    if len(divs) != 1 or not isinstance(divs[0], m.Div): raise Canon("body shape")
    paras = []
    for p in divs[0]:
        if not isinstance(p, m.P): raise Canon("div child")
        rid = p.get_region().get_id()
        paras.append((p.get_begin(), p.get_end(), remap[int(rid[1:])], p))
    return regions, paras


def outcome_lit(out):
    if out[0] == "raised":
        return f"Raised {EXN.get(out[1], 'ExModelInternal')}"
    regions, paras = out[1]
    rl = L([f"mkRegion {WM[w]} {qf(x)} {qf(y)} {qf(ew)} {qf(eh)} {DA[d]} {TA[t]}" for (w, x, y, ew, eh, d, t) in regions])
    pl = L([f"mkPara {qf(b)} {qf(e)} {ri} {L([elem_lit(c) for c in p])}" for (b, e, ri, p) in paras])
    return f"OkDoc {rl} {pl}"


def read(txt):
    import ttconv.vtt.reader as vr
    try:
        doc = vr.to_model(io.StringIO(txt))
    except Exception as e:          # canonicalised: only the exception class is observed
        return ("raised", type(e).__name__)
    return ("ok", doc_view(doc))


def describe(out):
    """JSON-friendly description of an outcome for replay files"""
    if out[0] == "raised": return dict(raised=out[1])
    import ttconv.model as m
    def el(e):
        if isinstance(e, m.Text): return e.get_text()
        d = dict(k=type(e).__name__)
        if not isinstance(e, m.Br):
            if e.get_begin() is not None: d["begin"] = str(e.get_begin())
            st = {p.__name__: str(e.get_style(p)) for p in e.iter_styles()}
            if st: d["styles"] = st
            if e.get_lang(): d["lang"] = e.get_lang()
        ch = [el(c) for c in e]
        if ch: d["children"] = ch
        return d
    regions, paras = out[1]
    return dict(regions=[list(map(str, r)) for r in regions],
                paragraphs=[dict(begin=str(b), end=str(e), region=ri, children=[el(c) for c in p]) for b, e, ri, p in paras])


# ------------------------------------------------------------------------------- grammar side (mirror of Spec/VttSpec.v)
def p_ts(ts):
    hd, mm, ss, fr = ts
    return ("".join(str(d) for d in hd) + ":" if hd is not None else "") + "%02d:%02d.%03d" % (mm, ss, fr)

def ts_ms(ts):
    hd, mm, ss, fr = ts
    h = int("".join(str(d) for d in hd)) if hd is not None else 0
    return ((h * 60 + mm) * 60 + ss) * 1000 + fr

def esc(s):
    return s.replace("&", "&amp;").replace("<", "&lt;").replace(">", "&gt;")

TAGNAME = {"b": "b", "i": "i", "u": "u", "c": "c", "lang": "lang", "v": "v"}
def p_node(n):
    k = n[0]
    if k == "text": return esc(n[1])
    if k == "ref":
        return {"named": lambda v: "&" + v + ";", "dec": lambda v: "&#%d;" % v, "hex": lambda v: "&#x%x;" % v}[n[1]](n[2])
    if k == "ts": return "<" + p_ts(n[1]) + ">"
    if k == "tag":
        kind, arg = n[1]
        o = "<" + kind
        if kind == "c": o += "".join("." + c for c in arg)
        elif kind in ("lang", "v"): o += " " + esc(arg)
        return o + ">" + "".join(p_node(c) for c in n[2]) + "</" + kind + ">"
    if k == "ruby":
        return "<ruby>" + "".join("".join(p_node(c) for c in b) + "<rt>" + "".join(p_node(c) for c in r) + "</rt>" for b, r in n[1]) + "</ruby>"
    if k == "end": return "</" + n[1] + ">"                      # an end tag that closes nothing
    if k == "open":                                              # an element whose end tag is missing
        kind, arg = n[1]
        o = "<" + kind
        if kind == "c": o += "".join("." + c for c in arg)
        elif kind in ("lang", "v"): o += " " + esc(arg)
        return o + ">" + "".join(p_node(c) for c in n[2])
    if k == "rubyomit":                                          # the last </rt> omitted
        return "<ruby>" + "</rt>".join("".join(p_node(c) for c in b) + "<rt>" + "".join(p_node(c) for c in r) for b, r in n[1]) + "</ruby>"
    raise ValueError(k)

def end_ignored(ctx, name):
    """mirror of Spec.VttSpec.end_ignored; ctx: None (top level), a tag name, "@base" or "@rt" """
    if ">" in name or "\n" in name: return False
    if ctx is None: return True
    if ctx == "@base": return name != "ruby"
    if ctx == "@rt": return name not in ("rt", "ruby")
    return name != ctx

def nodes_valid(ns, ctx=None, may_open=True):
    """mirror of Spec.VttSpec.nodes_valid (the judge rejects derivations outside it as a harness defect)"""
    for i, n in enumerate(ns):
        last = i == len(ns) - 1
        k = n[0]
        if k == "end" and not end_ignored(ctx, n[1]): return False
        if k == "tag" and not nodes_valid(n[2], n[1][0], False): return False
        if k == "open" and not (may_open and last and nodes_valid(n[2], n[1][0], True)): return False
        if k in ("ruby", "rubyomit"):
            if k == "rubyomit" and not n[1]: return False
            for b, r in n[1]:
                if not nodes_valid(b, "@base", False) or not nodes_valid(r, "@rt", False): return False
    return True

def p_setting(s):
    k = s[0]
    if k == "vertical": return "vertical:" + s[1]
    if k == "line":
        v = ("%d%%" % s[1][1]) if s[1][0] == "pct" else str(s[1][1])
        return "line:" + v + ("," + s[2] if s[2] else "")
    if k == "position": return "position:%d%%" % s[1] + ("," + s[2] if s[2] else "")
    if k == "size": return "size:%d%%" % s[1]
    if k == "align": return "align:" + s[1]
    raise ValueError(k)

def p_cue(c):
    cid, b, e, st, pl = c
    return (cid + "\n" if cid is not None else "") + p_ts(b) + " --> " + p_ts(e) + "".join(" " + p_setting(s) for s in st) + "\n" + \
        "".join(p_node(n) for n in pl) + "\n"

def p_block(b):
    if b[0] == "cue": return p_cue(b[1])
    if b[0] == "note": return "NOTE " + b[1] + "\n"
    if b[0] == "style": return "STYLE\n" + b[1] + "\n"
    if b[0] == "region": return "REGION\n" + b[1] + "\n"
    raise ValueError(b[0])

def p_file(f):
    return "WEBVTT" + f[0] + "\n" + "".join("\n" + p_block(b) for b in f[1])

# Gallina literals of the derivation
def l_ts(ts):
    hd, mm, ss, fr = ts
    return f"(mkTs {opt(hd, lambda d: L([str(x) for x in d]))} {mm} {ss} {fr})"
def l_node(n):
    k = n[0]
    if k == "text": return f"CText {T(n[1])}"
    if k == "ref": return "CRef (%s)" % {"named": lambda v: "RefNamed " + T(v), "dec": lambda v: f"RefDec {v}", "hex": lambda v: f"RefHex {v}"}[n[1]](n[2])
    if k == "ts": return f"CTs {l_ts(n[1])}"
    if k in ("tag", "open"):
        kind, arg = n[1]
        tg = {"b": "TgB", "i": "TgI", "u": "TgU"}.get(kind) or \
            ("(TgC %s)" % L([T(c) for c in arg]) if kind == "c" else f"(TgLang {T(arg)})" if kind == "lang" else f"(TgV {T(arg)})")
        return f"{'CTag' if k == 'tag' else 'COpen'} {tg} {L([l_node(c) for c in n[2]])}"
    if k in ("ruby", "rubyomit"):
        return ("CRuby " if k == "ruby" else "CRubyOmit ") + L(["(%s, %s)" % (L([l_node(c) for c in b]), L([l_node(c) for c in r])) for b, r in n[1]])
    if k == "end": return f"CEnd {T(n[1])}"
    raise ValueError(k)
LA = {"start": "LaStart", "center": "LaCenter", "end": "LaEnd"}
PA = {"line-left": "PaLineLeft", "center": "PaCenter", "line-right": "PaLineRight"}
CA = {"start": "CaStart", "center": "CaCenter", "end": "CaEnd", "left": "CaLeft", "right": "CaRight"}
def l_setting(s):
    k = s[0]
    if k == "vertical": return "SetVertical " + ("VLr" if s[1] == "lr" else "VRl")
    if k == "line":
        v = f"(LinePct {s[1][1]})" if s[1][0] == "pct" else f"(LineNum {C.z(s[1][1])})"
        return f"SetLine {v} {opt(s[2], lambda a: LA[a])}"
    if k == "position": return f"SetPosition {s[1]} {opt(s[2], lambda a: PA[a])}"
    if k == "size": return f"SetSize {s[1]}"
    if k == "align": return "SetAlign " + CA[s[1]]
def l_cue(c):
    cid, b, e, st, pl = c
    return f"mkCue {opt(cid, T)} {l_ts(b)} {l_ts(e)} {L([l_setting(s) for s in st])} {L([l_node(n) for n in pl])}"
def l_file(f):
    bl = []
    for b in f[1]:
        bl.append(f"BCue ({l_cue(b[1])})" if b[0] == "cue" else {"note": "BNote", "style": "BStyle", "region": "BRegion"}[b[0]] + " " + T(b[1]))
    return f"mkFile {T(f[0])} {L(bl)}"


# ------------------------------------------------------------------------------- generators
LINES = [None] + [(v, a) for v in (("num", -24), ("num", -23), ("num", -3), ("num", -1), ("num", 0), ("num", 1), ("num", 5), ("num", 23), ("num", 24),
                                   ("pct", 0), ("pct", 50), ("pct", 100))
                  for a in (None, "start", "center", "end")]
POSITIONS = [None] + [(p, a) for p in (0, 10, 50, 90, 100) for a in (None, "line-left", "center", "line-right")]
SIZES = [None, 10, 50, 100]
ALIGNS = [None, "start", "center", "end", "left", "right"]
VERTS = [None, "lr", "rl"]
N_COMBOS = len(LINES) * len(POSITIONS) * len(SIZES) * len(ALIGNS) * len(VERTS)

def combo(i):
    """i-th element of the full product of representative cue settings"""
    i, a = divmod(i, len(LINES)); i, b = divmod(i, len(POSITIONS)); i, c = divmod(i, len(SIZES)); i, d = divmod(i, len(ALIGNS)); e = i % len(VERTS)
    st = []
    if VERTS[e]: st.append(("vertical", VERTS[e]))
    if LINES[a]: st.append(("line", LINES[a][0], LINES[a][1]))
    if POSITIONS[b]: st.append(("position", POSITIONS[b][0], POSITIONS[b][1]))
    if SIZES[c] is not None: st.append(("size", SIZES[c]))
    if ALIGNS[d]: st.append(("align", ALIGNS[d]))
    return st

WORDS = ["hello", "world", "Tom", "a", "I", "café", "日本", "x&y", "1<2", "a>b", "R&D;", "-", "it's", "50%", "q;", "\U0001F600", "l.r", "e/f"]
VOICES = ["Tom", "Mary Ann", "Dr Who", "Élise", "Tom & Jerry", "R&D", "a<b", "x>y", "AT&T;", "&amp;", "Q&A & more", "&"]
LANGS = ["en", "fr-CA", "ja", "de", "x-a&b"]
COLORS = ["white", "lime", "cyan", "red", "yellow", "magenta", "blue", "black"]

def gen_text(rng, multiline=True):
    n = rng.randrange(1, 4)
    s = rng.choice(WORDS)
    for _ in range(n - 1):
        s += (rng.choice([" ", " ", "\n"]) if multiline else " ") + rng.choice(WORDS)
    return s

def gen_ts_between(rng, lo, hi, hours=None):
    ms = rng.randrange(lo, hi + 1)
    return ms_to_ts(rng, ms, hours)

def ms_to_ts(rng, ms, hours=None):
    fr = ms % 1000; s = ms // 1000; ss = s % 60; mm = (s // 60) % 60; h = s // 3600
    if hours is None: hours = h > 0 or rng.random() < 0.5
    if h > 0 or hours:
        hd = [int(c) for c in "%02d" % h]
        if rng.random() < 0.1: hd = [0] + hd
        return (hd, mm, ss, fr)
    return (None, mm, ss, fr)

END_NAMES = ["b", "i", "u", "c", "v", "lang", "ruby", "rt", "x", "bold", "B", "I", "RT", "Ruby", "c.red", "b i", ""]

class CueGen:
    """cue-text trees; with `trig` the tree may hold constructs the recorded finding ruby-structure covers.
    Besides well-nested markup the trees hold end tags that close nothing (after the element they name was closed =
    doubled, naming another element = wrong name / misnested, upper case of another name, with nothing open), elements
    whose end tag is missing (at the right edge of the cue text) and ruby elements whose last </rt> is omitted."""
    def __init__(self, rng, begin_ms, end_ms, trig):
        self.rng, self.b, self.e, self.trig = rng, begin_ms, end_ms, trig
        self.now = begin_ms; self.n_ts = 0

    def stray(self, ctx):
        """an end tag that WebVTT ignores in context ctx and that the reader's lower-case comparison does not match either"""
        rng = self.rng
        for _ in range(20):
            name = rng.choice(END_NAMES)
            if not end_ignored(ctx, name): continue
            low = name.lower()
            if ctx is not None and (low == ctx or (ctx == "@base" and low == "ruby") or (ctx == "@rt" and low in ("rt", "ruby"))): continue
            return ("end", name)
        return ("end", "x")

    def tagspec(self):
        rng = self.rng
        kind = rng.choice(["b", "i", "u", "c", "lang", "v"])
        if kind == "c":
            arg = [rng.choice(COLORS + ["bg_" + c for c in COLORS] + ["loud", "x1"]) for _ in range(rng.randrange(0, 4))]
        elif kind == "lang": arg = rng.choice(LANGS)
        elif kind == "v": arg = rng.choice(VOICES)
        else: arg = None
        return (kind, arg)

    def inline(self, depth, ctx, multiline=True):
        rng = self.rng; r = rng.random()
        if r < 0.07: return self.stray(ctx)
        if depth <= 0 or r < 0.45:
            return ("text", gen_text(rng, multiline))
        if r < 0.55:
            k = rng.random()
            if k < 0.5: return ("ref", "named", rng.choice(["amp", "lt", "gt", "nbsp", "lrm", "rlm"]))
            cp = rng.choice([65, 233, 0x3042, 0x1F600, 60, 38, 0x2014])
            return ("ref", "dec" if k < 0.75 else "hex", cp)
        if r < 0.64 and self.now + 2 < self.e:
            self.now = rng.randrange(self.now + 1, self.e); self.n_ts += 1
            return ("ts", ms_to_ts(rng, self.now))
        spec = self.tagspec()
        return ("tag", spec, self.nodes(depth - 1, spec[0], multiline))

    def nodes(self, depth, ctx, multiline=True):
        out = []
        for _ in range(self.rng.randrange(1, 4)):
            n = self.inline(depth, ctx, multiline); out.append(n)
            if n[0] == "tag" and self.rng.random() < 0.08 and end_ignored(ctx, n[1][0]) and n[1][0] != ctx:
                out.append(("end", n[1][0]))                                   # doubled end tag
        return out

    def ruby(self):
        rng = self.rng; segs = []
        for _ in range(rng.randrange(1, 3)):
            base = [("text", gen_text(rng, False))]
            if rng.random() < 0.2: base.append(("ref", "named", "amp"))
            if rng.random() < 0.12: base.append(self.stray("@base"))            # ignored end tags around the base text split nothing
            if rng.random() < 0.06: base.insert(0, self.stray("@base"))
            if self.trig and rng.random() < 0.15: base = [("tag", ("b", None), [("text", "x")])]
            rt = self.nodes(1, "@rt", multiline=False) if rng.random() < 0.5 else [("text", gen_text(rng, False))]
            if self.trig and rng.random() < 0.1 and self.now + 2 < self.e:      # a timestamp inside the base: recorded finding
                self.now = rng.randrange(self.now + 1, self.e); base = [base[0], ("ts", ms_to_ts(rng, self.now)), ("text", "z")]
            elif self.trig and rng.random() < 0.1:                              # an ignored end tag between two texts of a base splits it too
                base = [base[0], self.stray("@base"), ("text", "z")]
            segs.append((base, rt))
        return ("rubyomit" if rng.random() < 0.3 else "ruby", segs)

    def open_chain(self, depth):
        """an element whose end tag is missing, holding closed content and possibly another unclosed element at its end"""
        rng = self.rng; spec = self.tagspec()
        cs = self.nodes(2, spec[0]) if rng.random() < 0.8 else []
        if depth > 0 and rng.random() < 0.4: cs.append(self.open_chain(depth - 1))
        return ("open", spec, cs)

    def payload(self):
        rng = self.rng; out = []
        for _ in range(rng.randrange(1, 5)):
            r = rng.random()
            if r < 0.12: out.append(self.ruby())
            elif r < 0.15 and self.trig: out.append(("tag", ("b", None), [self.ruby()]))
            else: out.append(self.inline(3, None))
            if rng.random() < 0.3: out.append(("text", "\n"))
        if rng.random() < 0.15:
            while out and out[-1] == ("text", "\n"): out.pop()
            if self.trig and rng.random() < 0.2: out.append(("open", ("i", None), [self.ruby()]))
            else: out.append(self.open_chain(2))
        return out

def payload_ok(pl):
    """the printed payload is a valid WebVTT cue payload: no blank line, no leading/trailing line terminator, no `-->`"""
    s = "".join(p_node(n) for n in pl)
    if not nodes_valid(pl): return False
    if not s or s != s.strip("\r\n") or "-->" in s: return False
    return all(l.strip() != "" for l in s.split("\n"))

def gen_cue(rng, t0, settings, trig, with_id=None):
    b = t0 + rng.randrange(0, 3000); e = b + rng.randrange(500, 9000)
    if rng.random() < 0.08: b = 0
    hours = rng.random() < 0.5
    for _ in range(50):
        g = CueGen(rng, b, e, trig)
        pl = g.payload()
        if payload_ok(pl): break
    else:
        pl = [("text", "fallback")]
    cid = None
    if (with_id if with_id is not None else rng.random() < 0.5):
        cid = rng.choice(["1", "cue-7", "intro scene", "é", "42 - answer"])
    return (cid, ms_to_ts(rng, b, hours), ms_to_ts(rng, e, hours), settings, pl), e

def sibling_group(rng):
    """cue-setting lists that differ in ONE component while the cue boxes coincide: (family, [settings, ...]).
    Whether two of them must share a region depends on that component alone (display alignment, text alignment and
    writing mode are part of the region; the position alignment is not)."""
    fam = rng.choice(["line-align", "line-align", "text-align", "vertical", "position-align", "line-form", "clamped", "clamped"])
    common = []
    if fam == "line-align":
        # line 0% from its start edge = line 50% from its centre = line 100% (or row 23 of 23) from its end edge: the whole height
        if rng.random() < 0.4: common.append(("align", rng.choice(ALIGNS[1:])))
        vs = [[("line", ("pct", 0), None)], [("line", ("pct", 0), "start")], [("line", ("pct", 50), "center")],
              [("line", ("pct", 100), "end")], [("line", ("num", 23), "end")]]
        if rng.random() < 0.3:      # vertical cues: the line setting moves the x axis, 40 columns
            common.append(("vertical", rng.choice(["lr", "rl"])))
            vs = [[("line", ("pct", 0), None)], [("line", ("pct", 0), "start")], [("line", ("pct", 50), "center")], [("line", ("num", 20), "center")],
                  [("line", ("pct", 100), "end")], [("line", ("num", 40), "end")], [("line", ("num", 41), "end")]]
    elif fam == "text-align":
        if rng.random() < 0.5: common.append(("line", *rng.choice(LINES[1:])))
        if rng.random() < 0.3: common.append(("vertical", rng.choice(["lr", "rl"])))
        if rng.random() < 0.3: common += [("position", rng.choice([10, 50, 90]), rng.choice(["line-left", "center", "line-right"])), ("size", rng.choice([10, 50]))]
        vs = [[]] + [[("align", a)] for a in ALIGNS[1:]]
    elif fam == "vertical":
        if rng.random() < 0.5: common.append(("align", rng.choice(ALIGNS[1:])))
        vs = [[], [("vertical", "lr")], [("vertical", "rl")]]          # the default box is the same in all three modes
        if rng.random() < 0.5:
            common.append(("line", *rng.choice([l for l in LINES[1:] if l[1] != "center"])))
            vs = [[("vertical", "lr")], [("vertical", "rl")]]
    elif fam == "position-align":
        sz = rng.choice([10, 50]); p = rng.choice([25, 50, 75])
        common.append(("size", sz))
        if rng.random() < 0.5: common.append(("line", *rng.choice(LINES[1:])))
        vs = [[("position", p, "center")], [("position", p - sz // 2, "line-left")], [("position", p + sz // 2, "line-right")]]
    elif fam == "clamped":
        # boxes that coincide only because the box is limited to the root container (size against position, line numbers beyond the grid)
        k = rng.randrange(4)
        if k == 0:
            vs = [[("position", 50, "center"), ("size", 100)], [("position", 0, "line-left"), ("size", 100)], [("position", 100, "line-right"), ("size", 100)]]
        elif k == 1:
            vs = [[("position", 10, "center"), ("size", z)] for z in (20, 50, 100)] + [[("position", 20, "line-right"), ("size", 20)], [("position", 0, "line-left"), ("size", 20)]]
        elif k == 2:
            vs = [[("line", ("num", n), a)] for n in (23, 24) for a in (None, "start")] + [[("line", ("pct", 100), None)]]
        else:
            vs = [[("line", ("num", n), "end")] for n in (-23, -24, 0)] + [[("line", ("pct", 0), "end")]]
        if rng.random() < 0.4: common.append(("align", rng.choice(ALIGNS[1:])))
        if k < 2 and rng.random() < 0.3: common.append(("vertical", rng.choice(["lr", "rl"])))
    else:
        if rng.random() < 0.4: common.append(("align", rng.choice(ALIGNS[1:])))
        p = rng.choice([0, 50, 100])
        vs = [[("line", ("pct", p), None)], [("line", ("pct", p), "start")]]
        if p == 100: vs.append([("line", ("num", 23), None)])
    k = rng.randrange(2, 5)
    pick = [rng.choice(vs) for _ in range(k)]
    if len({str(x) for x in pick}) == 1: pick[-1] = rng.choice([v for v in vs if v != pick[0]])
    out = []
    for v in pick:
        st = common + v
        if rng.random() < 0.3: st = v + common
        out.append(st)
    return fam, out


def gen_file(rng, combos, trig):
    """one grammar-derived file; `combos` are the cue-setting lists to use (one cue each)"""
    header = rng.choice(["", "", " - Translation of that film", "\tkind: captions"])
    blocks = []; t = rng.choice([0, 0, 1000, 3599000, 36000000])
    for st in combos:
        r = rng.random()
        if r < 0.12: blocks.append(("note", rng.choice(["this is a comment", "multi\nline comment", "cue --> arrow in a comment is skipped",
                                                        "first line\n00:00.000 --> 00:01.000 line:0\nlooks like a cue, is a comment", "STYLE\nNOTE inside"])))
        elif r < 0.18: blocks.append(("style", rng.choice(["::cue {\n  background-color: transparent;\n}", "::cue(b) { color: red }\n/* 00:00.000 --> 00:01.000 */"])))
        elif r < 0.24: blocks.append(("region", rng.choice(["id:fred\nwidth:40%\nlines:3", "id:bill\nregionanchor:0%,100%\nviewportanchor:10%,90%\nscroll:up"])))
        st = list(st)
        if rng.random() < 0.3: rng.shuffle(st)
        c, t = gen_cue(rng, t, st, trig)
        blocks.append(("cue", c))
    return (header, blocks)

MUT = list("<>&;./ \t\n:-%,0123456789abcirtuvy#x") + ["</b>", "<rt>", "<ruby>", "</ruby>", "-->", "\n\n", "\r\n", "&amp;", "&#x41;", "&notit;", "<00:00:01.000>",
                                                       "NOTE ", "STYLE", "line:", "position:", "size:", "vertical:lr", "align:", "33.5%", "-0", "%", "WEBVTT", "\\n\\r", " ", " "]
MUT += ["&lrm;", "&apos;", "&ampx;", "&zz;", "&#1;", "&", "<v a&amp;b>", "<lang x&lt;y>", "<c.a.b R&D>", "101%", "100.5%", "100.4%", "150%",
        "line:-1", "line:0", "line:-30", "line:99,center", "size:98%", "position:0%", "position:100%,line-left", "REGION", "NOTE\n"]
# percentages with more digits than a float holds (they read as infinity: out of range like any value above 100) and
# long ones whose value is clear of every rounding boundary
LONG_PCT = ["9" * 400 + "%", "1" + "0" * 320 + "%", "5" * 330 + ".5%", "100." + "0" * 350 + "%", "99." + "9" * 350 + "%", "0." + "0" * 400 + "%",
            "12." + "3" * 330 + "%", "1e400%", "9" * 310 + "%", "9" * 308 + "%"]
MUT += ["size:" + LONG_PCT[0], "position:" + LONG_PCT[1], "line:" + LONG_PCT[2] + ",center", "size:" + LONG_PCT[4], "line:" + LONG_PCT[8]]
MUT += ["</i>", "</B>", "</RUBY>", "</rt>", "<RT>", "</c>", "</v>", "</x>", "</>", "<b>", "<i>"]
def mutate(rng, s):
    s = list(s)
    for _ in range(rng.randrange(1, 5)):
        r = rng.random(); i = rng.randrange(len(s) + 1) if s else 0
        if r < 0.4: s[i:i] = list(rng.choice(MUT))
        elif r < 0.7 and s: del s[min(i, len(s) - 1)]
        elif r < 0.85 and s: s[min(i, len(s) - 1)] = rng.choice(MUT)[0]
        else:
            j = rng.randrange(len(s) + 1) if s else 0
            a, b = sorted((i, j)); s[a:b] = []
    return "".join(s)

SOUP = ["<ruby>", "</ruby>", "<rt>", "</rt>", "<rt>", "</rt>", "<b>", "</b>", "<i>", "</i>", "<u>", "</u>", "<c.red>", "</c>", "<v Tom>", "</v>",
        "<lang en>", "</lang>", "<B>", "</B>", "</I>", "<RT>", "</RT>", "</RUBY>", "<Ruby>", "<rubyx>", "</rubyx>", "<rtx>", "</rtx>", "<x>", "</x>", "</>",
        "</c.red>", "<\u00c9>", "</\u00e9>", "<\u0130>", "</i\u0307>", "x", "y z", "w", "&amp;", "<00:00:05.000>", "<00:00:07.500>", "\nq"]
def gen_ruby_soup(rng):
    """tokens steered by a rough copy of the open-tag stack so that most sequences get past the ruby structure checks:
    rt inside rt and inside spans of an rt, end tags of every kind at every depth, </ruby> over open elements"""
    toks = ["<ruby>"]; stack = ["ruby"]
    for _ in range(rng.randrange(2, 18)):
        top = stack[-1] if stack else None
        if top is None:
            pool = ["x", "</ruby>", "</rt>", "<b>", "</b>", "<rt>", "y"] + (["<ruby>"] if "ruby" not in stack else [])
        elif top == "ruby":
            pool = ["a", "b c", "<rt>", "<rt>", "<rt>", "</ruby>", "</rt>", "</x>", "</RUBY>", "<00:00:05.000>"] + (["<b>", "\nq"] if rng.random() < 0.1 else [])
        else:
            pool = ["x", "y", "<rt>", "</rt>", "</rt>", "</ruby>", "<b>", "</b>", "<i>", "</i>", "</x>", "</RT>", "</Ruby>", "<00:00:06.000>"] + \
                (["<ruby>", "\nq"] if rng.random() < 0.1 else [])
        t = rng.choice(pool); toks.append(t)
        if t.startswith("</"):
            name = t[2:-1].lower()
            if stack and stack[-1] == name: stack.pop()
            elif len(stack) > 1 and stack[-2] == name == "ruby" and stack[-1] == "rt": stack.pop(); stack.pop()
        elif t.startswith("<") and not t[1].isdigit():
            stack.append(t[1:-1].lower())
    return toks

def gen_soup(rng):
    """one cue whose text is a random sequence of start tags, end tags and text: every kind of unmatched end tag"""
    if rng.random() < 0.5:
        toks = gen_ruby_soup(rng)
    else:
        toks = [rng.choice(SOUP) for _ in range(rng.randrange(1, 14))]
    txt = "".join(toks).strip("\n") or "x"
    return "WEBVTT\n\n00:00:01.000 --> 00:00:09.000\n" + txt + "\n"

HAND = ["", "WEBVTT", "WEBVTT\n", "\n", "WEBVTT\n\n00:01.000 --> 00:02.000\n", "WEBVTT\n\n00:01.000 --> 00:02.000\n\n",
        "WEBVTT\n\n00:01.000 --> 00:02.000\nfirst\n\n00:03.000 --> 00:04.000 line:0\n\n00:05.000 --> 00:06.000\nthird\n",
        "WEBVTT\n\n00:01.000 --> 00:02.000\n<rt>x</rt>\n", "WEBVTT\n\n00:01.000 --> 00:02.000\na</b>c\n", "WEBVTT\n\n00:01.000 --> 00:02.000\na</b></b></b></b>\n",
        "WEBVTT\n\n00:01.000 --> 00:02.000\na</b></b></b>c\n", "WEBVTT\n\n00:01.000 --> 00:02.000\n<ruby>a<rt>b</rt></ruby></i>x\n",
        "WEBVTT\n\n00:01.000 --> 00:02.000\n<ruby><ruby>a\n", "WEBVTT\n\n00:01.000 --> 00:02.000\n<lang>a</lang><İ>dotted</İ><RUBY>x<RT>y\n",
        "WEBVTT\r\n\r\n00:10.000 --> 00:20.000\r\na\r\nb\r\n\r\n", "WEBVTT\n\n00:01.000 --> 00:02.000 line:33.5% position:12.5%,center size:7.5% align:middle\nx\n",
        "WEBVTT\n\n00:01.000 --> 00:02.000 line:150% line:5 vertical:xx a:b:c size:%\nx\n", "WEBVTT\n\n00:01.000 -->\nx\n", "WEBVTT\n\n1:00:01.000 --> 00:02.000\nx\n",
        "WEBVTT\n\n100:00:01.000 --> 100:59:59.999\nx\n", "WEBVTT\n\n00:01.000 x 00:02.000 -->\nx\n", "WEBVTT\n\nNOTE\n00:01.000 --> 00:02.000\nx\n",
        "WEBVTT\n\n00:00.000 --> 00:02.000\n<00:01.000>a<00:01.500>b\n", "WEBVTT\n\n00:01.000 --> 00:02.000\n&#1;<c.x>y</c>&#1;<v Bob>z\n",
        "WEBVTT\n\n00:01.000 --> 00:02.000\nline\\n\\rwith raw escapes\n", "WEBVTT\n\n00:01.000 --> 00:02.000 line:-1\nx\n\n00:01.000 --> 00:02.000 line:-1\ny\n",
        "WEBVTT\n\n00:01.000 --> 00:02.000\n<v Tom &amp; Jerry>hello</v>\n", "WEBVTT\n\n00:01.000 --> 00:02.000\n&#xe9;<lang \n", "WEBVTT\n\n00:01.000 --> 00:02.000\n<lang >x</lang><lang\ten  US >y\n", "WEBVTT\n\n00:01.000 --> 00:02.000\n<b><ruby>a<rt>b</rt></ruby></b>\n",
        "WEBVTT\n\n00:01.000 --> 00:02.000 size:100%\nx\n\n00:02.000 --> 00:03.000 size:150%\ny\n\n00:03.000 --> 00:04.000 size:100.4% position:50%\nz\n",
        "WEBVTT\n\n00:01.000 --> 00:02.000 position:0%\nx\n\n00:02.000 --> 00:03.000 position:120%,line-left\ny\n\n00:03.000 --> 00:04.000 position:30%,bad size:80%\nz\n",
        "WEBVTT\n\n00:01.000 --> 00:02.000 vertical:rl line:30%,center position:90% size:40%\nx\n\n00:02.000 --> 00:03.000 vertical:lr line:-41,end position:5%,line-right\ny\n",
        "WEBVTT\n\n00:01.000 --> 00:02.000 line:-23\nx\n\n00:02.000 --> 00:03.000 line:-24,center\ny\n\n00:03.000 --> 00:04.000 line:99999999999999999999\nz\n\n00:04.000 --> 00:05.000 line:101%\nw\n",
        "WEBVTT\n\n00:10.000 --> 00:20.000\n<00:12.000>a<00:15.000>b<b>c<00:11.000>d</b>e<00:09.000>f<00:25.000>g<0:1>h\n",
        "WEBVTT\n\n00:10.000 --> 00:20.000\nx<00:12.000><ruby>a<rt>b</rt></ruby>\n\n00:20.000 --> 00:30.000\n<ruby>a<00:22.000>b<rt>c</rt></ruby>\n",
        "WEBVTT\n\n00:01.000 --> 00:02.000\n<rt>x</rt>y<ruby>a<rt>b</rt></ruby><rt>z</rt>\n", "WEBVTT\n\n00:01.000 --> 00:02.000\n<v a&lrm;b&zz; c&amp>x</v>&apos;&ampx;&#;&\n",
        "WEBVTT\n\n" + "".join(f"00:0{k}.000 --> 00:0{k + 1}.000 {kind}:{v}\nx\n\n" for k, (kind, v) in enumerate(zip(["size", "position", "line", "size", "size", "size", "position", "size", "line", "size"], LONG_PCT))),
        "WEBVTT\n\n00:01.000 --> 00:02.000\n<b>x</i>y</b>z</b>w\n\n00:02.000 --> 00:03.000\n<b><i>x</b>y</i>z\n\n00:03.000 --> 00:04.000\n<B>x</b>y<i>z</I>w<bold>v</b>u</bold>t\n",
        "WEBVTT\n\n00:01.000 --> 00:02.000\n<ruby>a<rt>b</ruby>c\n\n00:02.000 --> 00:03.000\n<ruby>a<rt>b<rt>c</rt>d</rt>e</ruby>f\n\n00:03.000 --> 00:04.000\n<ruby>a<rt>b<i>c<rt>d</i>e</rt>f</i>g</ruby>h\n",
        "WEBVTT\n\n00:01.000 --> 00:02.000\n<ruby>a</b><rt>b</rt></rt>c<rt>d</ruby></ruby>e\n\n00:02.000 --> 00:03.000\n<rubyx>a<rtx>b</rubyx>c\n\n00:03.000 --> 00:04.000\n<ruby>a<rt>b<b>c</ruby>d\n",
        "WEBVTT\n\n00:01.000 --> 00:02.000\n<\u00c9>x</\u00e9>y<\u0130>dotted</i\u0307>z<\u212a>k</k>w\n",
        "WEBVTT\n\nNOTE\nplain comment\n\nNOTE\twith tab\n00:01.000 --> 00:02.000\nnot a comment\n\nSTYLEX\n00:03.000 --> 00:04.000\nskipped\n\nREGION\nid:a\n\n00:05.000 --> 00:06.000\nshown\n"]


# cue texts for the tokenizer alone: references the escaping printer never writes, in the data state and in annotations
TOK_HAND = ["<v a&lrm;b>x", "<v &apos;x&zz; y>", "<lang a&#65;&#x42;&#;b>", "<c.a &ampx; &amp y>", "<v a&lt;b&gt;c&amp;&amp;d>", "<v a&b>c;d", "<v a&b", "<v a&b;", "<v &>", "<v &;>",
            "&lrm;&rlm;&apos;&nbsp;&amp;&lt;&gt;&zz;&ampx;&#65;&#x41;&#X41;&#;&#x;&;&", "a&#1;<b>", "&#1;<c.x y>", "&#1;<v.a b&amp;c>", "a & b; c", "&a&amp;",
            "&" + "a" * 33 + ";", "&amp" + "a" * 29 + ";x", "&amp" + "a" * 30 + ";x", "&NotEqualTilde;&notit;&notin;&#128;&#xD800;&#x110000;&#0;", "<v\ta &amp;\n b>", "<ruby.x &amp;>"]

# ------------------------------------------------------------------------------- writer stream
def gen_doc(rng):
    """a small document built through the ttconv.model API: one div, a few timed paragraphs with styled spans"""
    import ttconv.model as m, ttconv.style_properties as s
    SP = s.StyleProperties
    doc = m.ContentDocument()
    regs = []
    for i in range(rng.randrange(0, 3)):
        r = m.Region(f"reg{i}", doc)
        y = rng.choice([0, 10, 50, 80]); h = rng.choice([10, 20])
        r.set_style(SP.Origin, s.CoordinateType(x=s.LengthType(rng.choice([0, 10]), s.LengthType.Units.pct), y=s.LengthType(y, s.LengthType.Units.pct)))
        r.set_style(SP.Extent, s.ExtentType(height=s.LengthType(h, s.LengthType.Units.pct), width=s.LengthType(80, s.LengthType.Units.pct)))
        r.set_style(SP.DisplayAlign, rng.choice(list(s.DisplayAlignType)))
        doc.put_region(r); regs.append(r)
    body = m.Body(doc); doc.set_body(body); div = m.Div(doc); body.push_child(div)
    t = Fraction(rng.randrange(0, 5000), 1000)
    def span(depth):
        sp = m.Span(doc)
        if rng.random() < 0.3: sp.set_style(SP.FontWeight, s.FontWeightType.bold)
        if rng.random() < 0.3: sp.set_style(SP.FontStyle, s.FontStyleType.italic)
        if rng.random() < 0.3: sp.set_style(SP.TextDecoration, s.TextDecorationType(underline=True))
        if rng.random() < 0.3: sp.set_style(SP.Color, rng.choice([s.NamedColors.red, s.NamedColors.lime, s.NamedColors.blue, s.NamedColors.white]).value)
        if rng.random() < 0.15: sp.set_style(SP.BackgroundColor, rng.choice([s.NamedColors.black, s.NamedColors.yellow]).value)
        for _ in range(rng.randrange(1, 3)):
            r = rng.random()
            if depth > 0 and r < 0.3: sp.push_child(span(depth - 1))
            elif r < 0.4: sp.push_child(m.Br(doc))
            else: sp.push_child(m.Text(doc, gen_text(rng, False)))
        return sp
    for _ in range(rng.randrange(1, 5)):
        p = m.P(doc)
        b = t + Fraction(rng.randrange(0, 3000), 1000); e = b + Fraction(rng.randrange(1, 5000), 1000)
        p.set_begin(b); p.set_end(e); t = e
        if regs and rng.random() < 0.8: p.set_region(rng.choice(regs))
        if rng.random() < 0.4: p.set_style(SP.TextAlign, rng.choice(list(s.TextAlignType)))
        for _ in range(rng.randrange(1, 4)):
            p.push_child(span(2) if rng.random() < 0.85 else m.Br(doc))
        div.push_child(p)
    return doc

_TC = re.compile(r"^(?:(\d{2,}):)?(\d\d):(\d\d)\.(\d\d\d) --> (?:(\d{2,}):)?(\d\d):(\d\d)\.(\d\d\d)")
def scan_written(txt):
    """independent reading of a WebVTT text the writer produced: (begin ms, end ms, visible text) per cue"""
    cues = []
    blocks = re.split(r"\n\n+", txt)
    for b in blocks:
        ls = b.split("\n")
        for k, l in enumerate(ls):
            mt = _TC.match(l)
            if mt:
                g = [int(x) if x is not None else 0 for x in mt.groups()]
                payload = "\n".join(ls[k + 1:]).strip("\n")
                payload = re.sub(r"<[^>]*>", "", payload).replace("&lt;", "<").replace("&amp;", "&")
                cues.append((((g[0] * 60 + g[1]) * 60 + g[2]) * 1000 + g[3], ((g[4] * 60 + g[5]) * 60 + g[6]) * 1000 + g[7], payload))
                break
    return cues


# ------------------------------------------------------------------------------- case files
HEADER = ("From Coq Require Import QArith.\nFrom TT Require Import Base.Prelude Model.VttTokenizer Model.VttReader Spec.VttSpec Model.VttCases.\n"
          "Local Open Scope Z_scope.\n")

def shard(items, limit=180000):
    cur, size, out = [], 0, []
    for it in items:
        if cur and size + len(it[1]) > limit:
            out.append(cur); cur, size = [], 0
        cur.append(it); size += len(it[1])
    if cur: out.append(cur)
    return out


def parse_pairs(out):
    """parse `= [[(a, b); …]; []; …] : list (list (Z * Z))`"""
    flat = " ".join(out.split())
    mt = re.search(r"=\s*(\[.*\])\s*:\s*list \(list \(Z \* Z\)\)", flat)
    if not mt: return None
    body = mt.group(1)[1:-1].strip()
    if not body: return []
    res = []
    for part in re.findall(r"\[([^\[\]]*)\]", body):
        res.append([(int(a), int(b)) for a, b in re.findall(r"\(\s*(-?\d+)\s*,\s*(-?\d+)\s*\)", part)])
    return res


def main():
    run = C.Run(PROP, "proof")
    run.hygiene()
    sys.path.insert(0, C.SRC)
    changed, errors = gen_tables.generate({"VttTables"})
    if errors:
        run.violation("table translator failed closed: " + "; ".join(errors), dict(kind="translator", errors=errors), False)
        return run.finish()
    if changed: run.log("tables regenerated:", changed)
    ok, log = run.build(["Proofs/C11/Tokenizer.vo", "Proofs/C11/Time.vo", "Proofs/C11/Region.vo", "Proofs/C11/Tree.vo", "Proofs/C11/Lines.vo", "Proofs/C11/Outcome.vo",
                         "Model/VttCases.vo"],
                        clean=(run.tier == "thorough"))
    proofs_ok = ok and run.theorems()
    if not ok: run.proof_log = log[-2500:]
    rcf, outf = C.coqc(C.COQ + "/Findings/C11.v", 600)
    findings_compile = rcf == 0
    run.witnesses()

    logging.disable(logging.CRITICAL)
    from ttconv.vtt.tokenizer import CueTextTokenizer
    import ttconv.vtt.writer as vw
    from ttconv.vtt.config import VTTWriterConfiguration
    rng = run.rng
    thorough = run.tier == "thorough"
    n_gram = 6200 if thorough else 300
    n_mut = 2500 if thorough else 120
    n_wr = 1300 if thorough else 80
    n_tok = 20000 if thorough else 1000
    n_soup = 6000 if thorough else 400

    # ---- grammar-derived files: cue-setting combinations in a shuffled enumeration -----------------------
    order = list(range(N_COMBOS)); rng.shuffle(order)
    per = -(-N_COMBOS // n_gram) if thorough else 6
    gram = []; pos = 0
    from collections import Counter as _Counter
    sib_hist = _Counter()
    for k in range(n_gram):
        idx = [order[(pos + j) % N_COMBOS] for j in range(per)]; pos += per
        if rng.random() < 0.25: idx[rng.randrange(len(idx))] = idx[0]          # repeated settings: sharing
        trig = rng.random() < 0.12          # the file may hold constructs of the recorded finding (ruby-structure)
        sets = [combo(i) for i in idx]
        if not thorough or rng.random() < 0.5:
            fam, sib = sibling_group(rng); sib_hist[fam] += 1
            if rng.random() < 0.5:                                             # adjacent, or spread over the file
                at = rng.randrange(len(sets) + 1); sets[at:at] = sib
            else:
                for st in sib: sets.insert(rng.randrange(len(sets) + 1), st)
        f = gen_file(rng, sets, trig)
        if rng.random() < 0.05:                                                # a cue without payload: shows nothing, disturbs nothing
            j = rng.randrange(len(f[1]))
            if f[1][j][0] == "cue": c = f[1][j][1]; f[1][j] = ("cue", (c[0], c[1], c[2], c[3], []))
        gram.append(f)
    combos_seen = set(order[:min(N_COMBOS, n_gram * per)])
    # ---- cue texts for the tokenizer ---------------------------------------------------------------------
    cue_texts = []
    for f in gram:
        for b in f[1]:
            if b[0] == "cue" and len(cue_texts) < n_tok // 2: cue_texts.append("".join(p_node(n) for n in b[1][4]))
    cue_texts += TOK_HAND
    base = list(cue_texts) or ["<b>x</b>"]
    while len(cue_texts) < n_tok:
        r = rng.random()
        if r < 0.6: cue_texts.append(mutate(rng, rng.choice(base)))
        else: cue_texts.append("".join(rng.choice(MUT) for _ in range(rng.randrange(0, 14))))
    # ---- mutated / hand-written files (M = code only) ---------------------------------------------------
    texts = [p_file(f) for f in gram]
    mut = list(HAND)
    corpus = []; corpus_skipped = []
    for root, _, files in os.walk(C.REPO + "/src/test/resources/vtt"):
        for fn in sorted(files):
            if fn.endswith(".vtt"):
                try:
                    s = open(os.path.join(root, fn), encoding="utf-8").read()
                except (UnicodeDecodeError, OSError):
                    continue
                # outside the model's stated domain: non-ASCII digits; numbers of 16+ digits (binary floating point is then inexact)
                # … and tag names holding U+03A3 (str.lower() is context-sensitive there: final sigma)
                if len(s) < 6000 and not re.search(r"[٠-٩۰-۹०-९０-９]", s) and not re.search(r"\d{16,}", s) and not re.search("<[^>]*\u03a3", s): corpus.append(s)
                else: corpus_skipped.append(fn)
    mut += corpus
    while len(mut) < n_mut + len(HAND) + len(corpus):
        mut.append(mutate(rng, rng.choice(texts)))
    soup = [gen_soup(rng) for _ in range(n_soup)]
    mut += soup
    # ---- writer outputs -------------------------------------------------------------------------------
    written = []
    configs = [VTTWriterConfiguration(line_position=a, text_align=b, cue_id=c) for a in (False, True) for b in (False, True) for c in (False, True)]
    wr_fail = []
    while len(written) < n_wr:
        doc = gen_doc(rng)
        for cfg in (configs if thorough else rng.sample(configs, 2)):
            try:
                out = vw.from_model(doc, cfg)
            except Exception as e:
                wr_fail.append(type(e).__name__); continue
            written.append((out, scan_written(out), cfg))

    # ---- run the implementation -----------------------------------------------------------------------
    t0 = time.time()
    tok_cases = []
    for s in cue_texts:
        try:
            tok_cases.append((s, "(%s, %s)" % (T(s), L([tok_lit(t) for t in CueTextTokenizer(s)]))))
        except Exception as e:
            run.violation(f"tokenizer raised {type(e).__name__} on {s!r}", dict(kind="S-on-code", clause="tokenizer total", cue_text=s)); return run.finish()
    canon_err = []
    def case(txt):
        o = read(txt)
        try:
            return o, outcome_lit(o)
        except Canon as e:
            canon_err.append((txt, str(e))); return o, "Raised ExModelInternal"
    gram_cases = []
    for f, txt in zip(gram, texts):
        o, ol = case(txt)
        gram_cases.append((dict(f=f, txt=txt, o=o), f"({l_file(f)}, {T(txt)}, {ol})"))
    mut_cases = []
    for txt in mut:
        o, ol = case(txt)
        mut_cases.append((dict(txt=txt, o=o), f"({T(txt)}, {ol})"))
    wr_cases = []
    for out, cues, cfg in written:
        o, ol = case(out)
        cl = L(["(%d, %d, %s)" % (b, e, T(t)) for b, e, t in cues])
        wr_cases.append((dict(txt=out, o=o, cues=cues, cfg=str(cfg)), f"({cl}, {T(out)}, {ol})"))
    logging.disable(logging.NOTSET)
    run.log(f"implementation run on {len(tok_cases)} cue texts, {len(gram_cases)} grammar files, {len(mut_cases)} mutated/corpus files, "
            f"{len(wr_cases)} writer outputs in {time.time() - t0:.1f}s")

    # ---- Coq ------------------------------------------------------------------------------------------
    C.clean_cases("Cases_C11_")
    files = []
    def emit(kind, shards, typ, evals):
        for k, sh in enumerate(shards):
            p = f"{C.GEN}/Cases_C11_{kind}_{k}.v"
            body = ";\n".join(x[1] for x in sh)
            open(p, "w", encoding="utf-8").write(HEADER + f"Definition cs : list ({typ}) := [\n{body}].\n" + "".join(e + "\n" for e in evals))
            files.append((kind, p, sh))
    emit("tok", shard(tok_cases, 150000), "text * list token", ["Eval vm_compute in check_all (cases_tok cs)."])
    emit("gram", shard(gram_cases, 150000), "vfile * text * outcome",
         ["Eval vm_compute in check_all (cases_model (map (fun c => (snd (fst c), snd c)) cs)).", "Eval vm_compute in cases_spec cs."])
    emit("mut", shard(mut_cases, 150000), "text * outcome", ["Eval vm_compute in check_all (cases_model cs)."])
    emit("wr", shard(wr_cases, 150000), "list (Z * Z * text) * text * outcome",
         ["Eval vm_compute in check_all (cases_model (map (fun c => (snd (fst c), snd c)) cs)).",
          "Eval vm_compute in check_all (cases_written (map (fun c => (fst (fst c), snd c)) cs))."])
    res = C.coqc_many([p for _, p, _ in files], 1500)
    broken, m_bad, s_fail, known_hits = [], [], [], {}
    wr_bad = []
    for kind, p, sh in files:
        rc, out = res[p]
        flat = " ".join(out.split())
        checks = re.findall(r"=\s*\(\s*(\d+)\s*,\s*(\[[^\]]*\]|nil)\s*\)\s*:\s*Z \* list Z", flat)
        want = {"tok": 1, "gram": 1, "mut": 1, "wr": 2}[kind]
        if rc != 0 or len(checks) != want or int(checks[0][0]) != len(sh):
            broken.append((p, out[-600:])); continue
        for i in re.findall(r"\d+", checks[0][1]):
            m_bad.append((kind, sh[int(i)][0]))
        if kind == "wr":
            for i in re.findall(r"\d+", checks[1][1]): wr_bad.append(sh[int(i)][0])
        if kind == "gram":
            pairs = parse_pairs(out)
            if pairs is None or len(pairs) != len(sh):
                broken.append((p, "S result not parsed: " + out[-400:])); continue
            for info, pr in zip(sh, pairs):
                for code, fnd in pr:
                    clause, k = code % 1000, code // 1000        # clause + 1000 * index of the cue in the file
                    inf = dict(info[0], cue_index=k)
                    if fnd == 0: s_fail.append((clause, inf))
                    else: known_hits.setdefault(fnd, []).append((clause, inf))
    C.clean_cases("Cases_C11_")
    n_eval = len(tok_cases) + 2 * len(gram_cases) + len(mut_cases) + 2 * len(wr_cases)
    run.log(f"Coq: {len(files)} case files; model/code mismatches {len(m_bad)}, S failures outside findings {len(s_fail)}, "
            f"covered by findings {sum(len(v) for v in known_hits.values())}, writer round-trip failures {len(wr_bad)}, broken files {len(broken)}, "
            f"canonicalisation errors {len(canon_err)}")

    # ---- verdict --------------------------------------------------------------------------------------
    for fnd, hits in sorted(known_hits.items()):
        clause, info = hits[0]
        run.known(FINDINGS[fnd], f"{len(hits)} clause failures, e.g. {CLAUSES[clause]}: {first_cue_line(info)}")
    stale = [FINDINGS[k] for k in FINDINGS if k not in known_hits]
    if not findings_compile: stale.append("Findings/C11.v no longer compiles: " + outf[-300:])
    if stale: run.cov["stale_findings"] = stale

    def replay_of(info):
        d = dict(input_text=info["txt"], implementation=describe(info["o"]))
        if "f" in info: d["grammar_derivation"] = json.loads(json.dumps(info["f"], default=str))
        if "cue_index" in info: d["failing_cue_index"] = info["cue_index"]; d["failing_cue"] = first_cue_line(info)
        if "cues" in info: d["cues_written"] = info["cues"]; d["writer_config"] = info["cfg"]
        d["how"] = "ttconv.vtt.reader.to_model(io.StringIO(input_text)); S = coq/Spec/VttSpec.v via Model/VttCases.v judge"
        return d
    if s_fail:
        clause, info = s_fail[0]
        run.violation(f"WebVTT reader contradicts the specification: {CLAUSES.get(clause, clause)} (no recorded finding covers the cue): {first_cue_line(info)}",
                      dict(kind="S-on-code", clause=CLAUSES.get(clause, clause), **replay_of(info), others=len(s_fail) - 1))
    if wr_bad:
        info = wr_bad[0]
        run.violation("reading the WebVTT writer's own output does not return the cues written",
                      dict(kind="S-on-code", clause="writer round trip", **replay_of(info), others=len(wr_bad) - 1))
    if (m_bad or broken or canon_err or not proofs_ok) and not (s_fail or wr_bad):
        what = []
        if not proofs_ok: what.append("theorems of coq/Properties/C11.v no longer check: " + getattr(run, "proof_log", "")[-500:])
        if m_bad: what.append(f"correspondence Model/VttReader.v / VttTokenizer.v vs ttconv.vtt disagrees on {len(m_bad)} inputs ({m_bad[0][0]} stream)")
        if broken: what.append(f"case files did not evaluate: {broken[0]}")
        if canon_err: what.append(f"reader output outside the modelled shape: {canon_err[0][1]}")
        first = None
        if m_bad:
            k, info = m_bad[0]
            first = dict(cue_text=info) if k == "tok" else replay_of(info)
        elif canon_err:
            first = dict(input_text=canon_err[0][0], problem=canon_err[0][1])
        run.violation("; ".join(what), dict(kind="broken-tie", theorem_file="coq/Properties/C11.v", proofs_ok=proofs_ok,
                                            correspondence="Model/VttTokenizer.v tokenize, Model/VttReader.v to_model vs ttconv.vtt.tokenizer / reader",
                                            first_mismatch=first, mismatches=len(m_bad),
                                            more_mismatching_inputs=[(i if k == 'tok' else i['txt']) for k, i in m_bad[1:6]]), found_input=False)

    # ---- coverage -------------------------------------------------------------------------------------
    from collections import Counter
    hist = Counter(); tags = Counter(); out_hist = Counter()
    def walk(n):
        tags[n[0] if n[0] not in ("tag", "open") else n[0] + ":" + n[1][0]] += 1
        if n[0] in ("tag", "open"):
            for c in n[2]: walk(c)
        if n[0] in ("ruby", "rubyomit"):
            for b, r in n[1]:
                for c in b + r: walk(c)
    ncues = 0
    for f in gram:
        for b in f[1]:
            hist[b[0]] += 1
            if b[0] == "cue":
                ncues += 1
                hist["id" if b[1][0] is not None else "no id"] += 1
                hist["hours" if b[1][1][0] is not None else "no hours"] += 1
                for n in b[1][4]: walk(n)
    for _, sh in [(k, s) for k, _, s in files if k != "tok"]:
        for info, _ in sh:
            o = info["o"]; out_hist["raised " + o[1] if o[0] == "raised" else "ok"] += 1
    # tag soups: how many end tags they hold and how the reader took them (measured with a reference count of the
    # open-tag stack: an end tag either names the innermost open tag, or is </ruby> over an open rt, or is ignored)
    soup_hist = Counter(); soup_set = set(soup)
    for info, _ in mut_cases:
        if info["txt"] not in soup_set: continue
        o = info["o"]; soup_hist["raised " + o[1] if o[0] == "raised" else "ok"] += 1
        stack = []
        for mt in re.finditer(r"<(/?)([^>\s.]*)[^>]*>", info["txt"].split("\n", 3)[3]):
            name = mt.group(2).lower()
            if name[:1].isdigit(): continue
            if not mt.group(1): stack.append(name); soup_hist["start tags"] += 1
            elif stack and stack[-1] == name: stack.pop(); soup_hist["end tags naming the innermost open tag"] += 1
            elif len(stack) > 1 and stack[-2] == name and name.startswith("ruby") and stack[-1].startswith("rt"): soup_hist["end tags </ruby> over an open rt (approx.)"] += 1; stack.pop(); stack.pop()
            else: soup_hist["end tags naming no / another open tag"] += 1
    # distinct inputs that are non-trivial: files holding at least one timing line, cue texts holding markup or a reference
    # measured on the code's output: pairs of cues of one file whose boxes coincide (1e-9) and that do / do not share a region
    box_pairs = _Counter()
    for info, _ in gram_cases:
        o = info["o"]
        if o[0] != "ok": continue
        regs, paras = o[1]
        for i in range(len(paras)):
            for j in range(i + 1, len(paras)):
                a, b = regs[paras[i][2]], regs[paras[j][2]]
                if all(abs(Fraction(x) - Fraction(y)) <= Fraction(1, 10 ** 9) for x, y in zip(a[1:5], b[1:5])):
                    if paras[i][2] == paras[j][2]: box_pairs["same box, shared region"] += 1
                    else:
                        d = [n for n, x, y in (("mode", a[0], b[0]), ("display", a[5], b[5]), ("text", a[6], b[6])) if x != y]
                        box_pairs["same box, regions differ in " + "+".join(d)] += 1
    distinct = len({x[0] for x in tok_cases if "<" in x[0] or "&" in x[0]}) + \
        len({t for t in set(texts) | set(mut) | {w[0] for w in written} if "-->" in t})
    run.cov.update(evaluations=n_eval, distinct_nontrivial=distinct,
                   rule="grammar-derived WebVTT files (header variants, NOTE/STYLE/REGION blocks, cues with/without identifier and hours, "
                        f"settings taken from a shuffled enumeration of the {N_COMBOS} combinations of line {{-24,-23,-3,-1,0,1,5,23,24,0%,50%,100%}} x alignment, "
                        "position x alignment, size, align, vertical (vertical cues with every line alignment included), plus in every quick file "
                        "(every second thorough file) a group of 2-4 cues whose settings differ in one component only - line alignment, text alignment, "
                        "writing mode, position alignment, the form of the line value, or settings whose boxes coincide only after the box is limited to "
                        "the root container (size against position, line numbers beyond the grid) - while their boxes coincide; cue-text trees with "
                        "b/i/u/c.class/lang/v nested to depth 3 (voice and language annotations holding &, <, > and reference-like text), ruby/rt "
                        "(last </rt> present or omitted), end tags that close nothing (doubled, wrong name, upper case of another name, nothing open; "
                        "judged by S as ignored), elements whose end tag is missing at the end of the cue text, "
                        "named (amp lt gt nbsp lrm rlm) and numeric character references, any number of inline timestamps inside and outside tags, "
                        "multi-line payloads; NOTE blocks holding lines with -->, STYLE and REGION blocks), each printed by the harness and "
                        "re-printed by S inside Coq; mutated copies, hand-written malformed files (misnested / upper-case / stray end tags, rt inside rt, "
                        "percentages of 300-400 digits), tag soups (one cue of 1-18 random start tags, end tags and texts, half of them ruby soups steered past the ruby structure checks: rt inside rt, </ruby> over open elements) "
                        "and the bundled .vtt corpus (model = code only); outputs of ttconv.vtt.writer.from_model over random documents built with the model API under its 8 "
                        "configurations (model = code, and cues written = cues read); cue texts and mutated cue texts through the tokenizer. "
                        "distinct_nontrivial = number of distinct file texts containing a timing line plus distinct cue texts containing markup or a "
                        "character reference (measured).",
                   samples=[dict(file=texts[0][:400]), dict(cue_text=cue_texts[-1]), dict(written=written[0][0][:300])],
                   files=dict(grammar=len(gram_cases), mutated_and_corpus=len(mut_cases) - len(soup), tag_soups=len(soup), corpus=len(corpus), corpus_skipped=corpus_skipped, writer_outputs=len(wr_cases), cue_texts=len(tok_cases)),
                   tag_soup_histogram=dict(soup_hist),
                   cues=ncues, setting_combinations_covered=len(combos_seen), setting_combinations_total=N_COMBOS,
                   sibling_groups=dict(sib_hist), coinciding_box_pairs=dict(box_pairs),
                   block_histogram=dict(hist), cue_node_histogram=dict(tags), outcome_histogram=dict(out_hist),
                   writer_failures=dict(Counter(wr_fail)), regions_split_by_float_rounding=FLOAT_SPLIT_REGIONS[0],
                   model_code_mismatches=len(m_bad), s_failures_on_code=len(s_fail),
                   s_failures_covered_by_findings={FINDINGS[k]: len(v) for k, v in known_hits.items()})
    run.assumptions += ["region geometry: the code computes in binary floating point, the model in Q; compared within 1e-9 percent; S allows 1e-6",
                        "region identity: the code compares floats, the model rationals; regions of the code that agree within 1e-9 are merged before comparison (count in coverage.regions_split_by_float_rounding)",
                        "round(float(s)) in parse_vtt_pct is modelled as exact half-even rounding (equal below 16 significant digits and for every literal above 101, however long); \\d as ASCII digits",
                        "str.lower() of tag names: complete generated table; the context-sensitive final sigma (U+03A3) is outside the model (corpus files with it in a tag are skipped)",
                        "end tags are compared in lower case by the reader; S (WebVTT) compares exactly: grammar-derived cue texts never hold an end tag that differs from the enclosing element's name in case only (the mutated and soup streams do, model = code only)",
                        "files are read through io.StringIO (no newline translation), as the check feeds them",
                        "S (Spec/VttSpec.v) is my reading of WebVTT sections 4, 6, 7 restricted to what the property states; the 23-row / 40-column grid is the reader's documented convention",
                        "harness/c11.py maps ttconv objects to the outcome literal (doc_view / elem_lit) and fails the case on any attribute it cannot represent"]
    return run.finish(["harness/gen_c11.py (tables read off CPython's html module, str methods and ttconv; fail-closed)",
                       "harness/c11.py printers for the grammar derivation (cross-checked against S's printer inside Coq on every case)"])


def first_cue_line(info):
    """the timing line and payload start of the cue the clause failed on (cue_index-th timing line of the file)"""
    txt = info.get("txt", ""); k = info.get("cue_index", 0); pos = 0
    lines = txt.split("\n")
    if "f" in info:
        want = [p_ts(b[1][1]) + " --> " + p_ts(b[1][2]) for b in info["f"][1] if b[0] == "cue"]
        if k < len(want) and want[k] in txt:
            i = txt.index(want[k]); return repr(txt[i:i + 160])
    for l in lines:
        if "-->" in l:
            i = txt.index(l); return repr(txt[i:i + 160])
    return repr(txt[:120])


if __name__ == "__main__":
    sys.exit(main())
