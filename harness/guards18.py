def build_and_prove(run, thorough): return True
def correspondence(run, tasks, results, thorough): return dict(broken=[], summary={}, first=[])
