"""C18 — Coq side of the check: build + theorems, and the differential run of the guard models (Model/ReaderGuards.v) and of
S (Spec/RobustSpec.v) against what the real readers did on the inputs of this run (harness/c18.py).

Case files coq/Gen/Cases_C18_<kind>_<k>.v, one kind per file, each ending in `Eval vm_compute in check_all (map <f> cs)`:
  srt / vtt      (content, oracle, outcome code, attachment flags)     model line machine = reader (+ observed cue-parser results)
  srtcur/vttcur  (attached, (event, tag name number)s, outcome code)    model cursor = _TextParser / _TextCueParser on the observed callbacks
  srtview/vttview (line, flags)                                         line classifiers = the readers' own regular expressions
  scc / sccline / sccword                                               SccLine.from_str, SccWord.from_str, reader loop
  stl            (start cfg, rows cfg, RLE bytes, oracle, outcome code) DataFile.__init__ / process_tti_block / reader loop
  bint / int16   int(bytes) on 2- and 5-byte fields, int(word, 16)
  spec           (reader code, downstream codes, harness verdict)       S evaluated on every observed run
"""
import os, re, sys, random, collections
import common as C
import c18run as R

TARGETS = ["Gen/GuardTables.vo", "Model/Outcome.vo", "Model/ReaderGuards.vo", "Spec/RobustSpec.vo", "Model/GuardCases.vo", "Model/GuardCueCases.vo",
           "Proofs/C18/SpecLink.vo", "Proofs/C18/Srt.vo", "Proofs/C18/Vtt.vo", "Proofs/C18/Scc.vo", "Proofs/C18/Stl.vo", "Proofs/C18/Statements.vo", "Proofs/C18/CueText.vo", "Proofs/C18/FullModels.vo"]

M_CODE = {"ok": 0, "XmlParseError": 10, "ValueError": 11, "StructError": 12, "UnicodeDecodeError": 13, "AttributeError": 20, "TypeError": 21,
          "IndexError": 22, "KeyError": 23, "UnboundLocalError": 24, "AssertionError": 25, "RecursionError": 26, "ZeroDivisionError": 27,
          "OverflowError": 28, "RuntimeError": 29}
S_CODE = {"XmlParseError": 1, "UnicodeDecodeError": 2, "StructError": 3, "ValueError": 4, "AttributeError": 5, "TypeError": 6, "IndexError": 7,
          "KeyError": 8, "UnboundLocalError": 9, "AssertionError": 10, "RecursionError": 11, "Timeout": 13, "ProcessDied": 13}


def build_and_prove(run, thorough):
    import gen_tables
    # VttTables: tables of C11's model of the WebVTT cue-text parser, which Model/GuardCueCases.v evaluates (read-only use)
    # all tables: the cone of Proofs/C18/FullModels.v contains the complete reader models of C04, C08, C09, C10, C11
    changed, errors = gen_tables.generate(None)
    if errors:
        run.violation("table translator failed closed: " + "; ".join(errors), dict(kind="translator", errors=errors), False)
        return False
    if changed: run.log("tables regenerated from CPython:", changed)
    ok, log = run.build(TARGETS, clean=thorough)
    if not ok:
        run.proof_log = log[-2500:]; run.cov["obligations"] += 1
        return False
    ok = run.theorems()
    rc, out = C.coqc(C.COQ + "/Findings/C18.v", 600)
    run.cov["obligations"] += 1
    if rc == 0: run.cov["discharged"] += 1
    else:
        run.proof_log = "Findings/C18.v (refutation witnesses) no longer compiles: " + out[-1500:]; ok = False
    run.cov["findings_file"] = "coq/Findings/C18.v compiled: witnesses of the refuted statement that is left (vtt-ruby-structure, 5 shapes), of SccWord.from_str alone and of the pre-76afcc4 SRT variant; the witnesses of the 16 repaired guard defects now pass in the model; all decided by vm_compute" if rc == 0 else "coq/Findings/C18.v FAILED"
    return ok


def outcome_code(res):
    o = res["outcome"]
    if o == "doc": return 0
    if o == "none": return 1
    return M_CODE.get(o.split(":", 1)[1])


def zl(xs): return "[" + ";".join(C.z(x) for x in xs) + "]"
def tx(s): return "[" + ";".join(str(ord(c)) for c in s) + "]"


def rle(data):
    out = []
    for b in data:
        if out and out[-1][1] == b: out[-1][0] += 1
        else: out.append([1, b])
    return "[" + ";".join(f"({n},{b})" for n, b in out) + "]"


SRT_EV = {"plain": 0, "font-nocolor": 1, "font-color-none": 2, "font-color-bad": 3, "font-color": 4}
VTT_EV = {"ruby": 0, "rt": 1, "span": 2}

def srt_events(ev):
    """(event code, number of the tag name within the cue); the names are numbered in order of first appearance"""
    out = []; names = {}
    for k, a, *t in ev:
        n = names.setdefault(t[0], len(names)) if t else 0
        out.append((SRT_EV[a], n) if k == "S" else (5, n) if k == "E" else (6, 0))
    return out

def pairs(xs): return "[" + ";".join(f"({a},{b})" for a, b in xs) + "]"

def vtt_events(ev):
    """(event code, number of the tag name within the cue)"""
    out = []; names = {}
    for k, a, *t in ev:
        n = names.setdefault(t[0], len(names)) if t else 0
        if k == "S": out.append((VTT_EV[a], n))
        elif k == "T": out.append((3, 0))
        elif k == "E": out.append((4, n))
        elif k == "D": out.append((10 + int(a), 0))
        else: return None
    return out


def stl_cfg_codes(cfg):
    st, rw = [0], [0]
    if cfg:
        s = cfg.get("program_start_tc")
        if s == "TCP": st = [1]
        elif s:
            m = re.match(r"(\d\d)(.)(\d\d)(.)(\d\d)(.)(\d\d)$", s)
            df = 0 if (m.group(2), m.group(4), m.group(6)) == (":", ":", ":") else 1
            st = [2, df, int(m.group(1)), int(m.group(3)), int(m.group(5)), int(m.group(7))]
        r = cfg.get("max_row_count")
        if r == "MNR": rw = [1]
        elif r is not None: rw = [2, int(r)]
    return st, rw


class Shards:
    """collects cases of one kind and writes files of at most ~180 kB"""
    def __init__(self, kind, typ, evals, limit=180000):
        self.kind, self.typ, self.evals, self.limit = kind, typ, evals, limit
        self.files = []; self.cur = []; self.size = 0; self.index = []     # index: per file, list of case ids
        self.ids = []
    def add(self, lit, cid):
        if self.size + len(lit) > self.limit and self.cur: self.flush()
        self.cur.append(lit); self.ids.append(cid); self.size += len(lit) + 2
    def flush(self):
        if not self.cur: return
        k = len(self.files)
        body = ";\n".join(self.cur)
        txt = ("From TT Require Import Base.Prelude Model.Outcome Model.ReaderGuards Spec.RobustSpec Model.GuardCases.\n"
               f"Definition cs : list ({self.typ}) := [\n{body}].\n" +
               "".join(f"Eval vm_compute in check_all (map {e} cs).\n" for e in self.evals))
        p = f"{C.GEN}/Cases_C18_{self.kind}_{k}.v"
        open(p, "w").write(txt)
        self.files.append(p); self.index.append(self.ids)
        self.cur = []; self.ids = []; self.size = 0
    def count(self): return sum(len(i) for i in self.index) + len(self.ids)


def cue_text_predictions(run, texts, limit=150000):
    """{cue text: (class code C11's model of _parse_cue_text computes for it, the text has a ruby start tag)}, evaluated in Coq
    (Model/GuardCueCases.v cue_report).  Class codes as in M_CODE: 0 returns, 21 TypeError, 29 RuntimeError.  A text that could not be
    evaluated is missing from the result (the caller fails closed)."""
    texts = [t for t in dict.fromkeys(texts) if not any(0xD800 <= ord(c) <= 0xDFFF for c in t)]
    C.clean_cases("Cases_C18_cue_")
    files = []; cur = []; size = 0
    def flush():
        nonlocal cur, size
        if not cur: return
        p = f"{C.GEN}/Cases_C18_cue_{len(files)}.v"
        open(p, "w").write("From TT Require Import Base.Prelude Model.GuardCueCases.\nDefinition cs : list text := [\n" + ";\n".join(tx(t) for t in cur)
                           + "].\nEval vm_compute in map cue_report cs.\n")
        files.append((p, cur)); cur = []; size = 0
    for t in texts:
        n = 4 * len(t) + 4
        if size + n > limit and cur: flush()
        cur.append(t); size += n
    flush()
    res = C.coqc_many([p for p, _ in files], 900)
    out = {}; failed = []
    for p, ts in files:
        rc, o = res[p]
        m = re.search(r"=\s*\[([^\]]*)\]\s*:\s*list Z", " ".join(o.split()))
        vals = [int(x) for x in re.findall(r"-?\d+", m.group(1))] if (rc == 0 and m) else None
        if vals is None or len(vals) != len(ts):
            if not (rc == 0 and len(ts) == 0): failed.append(f"{os.path.basename(p)}: {o[-300:]}")
            continue
        for t, v in zip(ts, vals): out[t] = (v // 2, bool(v % 2))
    C.clean_cases("Cases_C18_cue_")
    return out, failed


def spec_row(i, r, failed):
    """observation of one run in the integer codes of Spec/RobustSpec.v: (id, reader code, downstream codes, harness verdict)"""
    if r["outcome"] == "doc": rc = 0
    elif r["outcome"] == "none": rc = -1
    else: rc = S_CODE.get(r["outcome"].split(":", 1)[1], 12)
    down = [S_CODE.get(f["type"], 12) for f in r["fails"]] or [0]
    return (i, rc, tuple(down), 0 if failed else 1)


def correspondence(run, tasks, results, spec_rows, thorough):
    import logging
    logging.disable(logging.CRITICAL)
    rng = random.Random(run.seed + 18)
    budget = dict(srt=8_000_000, vtt=8_000_000, scc=6_000_000, stl=6_000_000) if thorough else dict(srt=1_000_000, vtt=1_000_000, scc=800_000, stl=800_000)
    C.clean_cases("Cases_C18_")
    sh = {
        "srt": Shards("srt", "text * list Z * Z * list Z", ["srt_case"]),
        "vtt": Shards("vtt", "text * list Z * Z * list Z", ["vtt_case"]),
        "srtcur": Shards("srtcur", "Z * list (Z * Z) * Z", ["srt_cursor_case", "srt_cursor_total_case"]),
        "vttcur": Shards("vttcur", "Z * list (Z * Z) * Z", ["vtt_cursor_case", "vtt_cursor_trigger_case"]),
        "srtview": Shards("srtview", "text * list Z", ["srt_view_case"]),
        "vttview": Shards("vttview", "text * list Z", ["vtt_view_case"]),
        "scc": Shards("scc", "text * list Z * Z", ["scc_case"]),
        "sccline": Shards("sccline", "text * Z", ["scc_line_case"]),
        "sccword": Shards("sccword", "text * Z", ["scc_word_case"]),
        "stl": Shards("stl", "list Z * list Z * list (Z * Z) * list Z * Z", ["stl_case", "stl_total_case"]),
        "bint": Shards("bint", "list Z * Z", ["bytes_int_case"]),
        "int16": Shards("int16", "text * Z", ["int16_case"]),
        "spec": Shards("spec", "Z * list Z * Z", ["spec_case", "spec_strict_case"]),
    }
    skipped = collections.Counter(); used = collections.Counter()
    seen_cur = set(); seen_lines = {"srt": set(), "vtt": set(), "scc": set()}
    spec_expect_bad = set()
    import ttconv.srt.reader as sr, ttconv.vtt.reader as vr
    from ttconv.scc.line import SccLine
    from ttconv.scc.word import SccWord

    long_lines = [0]
    def srt_flags(line):
        """blank, counter, time code found, int() of one of its hour fields raises ValueError (evaluated, not computed from the length)"""
        m = sr._TIMECODE_RE.search(line); too_long = 0
        if m is not None:
            try: int(m.group("begin_h")); int(m.group("end_h"))
            except ValueError: too_long = 1
        return [int(bool(sr._EMPTY_RE.fullmatch(line))), int(sr._COUNTER_RE.search(line) is not None), int(m is not None), too_long]

    def vtt_flags(line):
        ps = line.split()
        cue = len(ps) >= 3 and vr.vtt_timestamp_to_secs(ps[0]) is not None and vr.vtt_timestamp_to_secs(ps[2]) is not None
        return [int(bool(vr._EMPTY_RE.fullmatch(line))), int(line.startswith("NOTE ")), int(line.startswith("STYLE")), int("-->" in line), int(cue)]

    # ---- S on the observed runs: every failing run; all passing ones in the quick tier, a 10 % sample in the thorough tier
    for (i, rc, down, ok) in spec_rows:
        if ok == 0 or not thorough or rng.random() < 0.1:
            sh["spec"].add(f"({C.z(rc)}, {zl(down)}, {ok})", i)
            if ok == 0: spec_expect_bad.add(i)
    order = list(tasks); rng.shuffle(order)
    for t in order:
        r = results.get(t["i"])
        if r is None: continue
        fmt = t["fmt"]
        if fmt == "imsc" or t["stream"] == "depth" or len(t["data"]) > 6000: continue
        code = outcome_code(r)
        if code is None: skipped[fmt + ":unmodelled-exception"] += 1; continue
        if fmt in ("srt", "vtt", "scc"):
            try: content = R.decode_text(t["data"])
            except UnicodeDecodeError: skipped[fmt + ":not-utf8"] += 1; continue
            if any(0xD800 <= ord(c) <= 0xDFFF for c in content): continue
        if fmt in ("srt", "vtt"):
            tr = r["trace"] or []
            if any(rec["end"] == "open" for rec in tr): skipped[fmt + ":open-trace"] += 1; continue
            oracle = [M_CODE.get(rec["end"], 29) for rec in tr]
            if any(rec["end"] not in M_CODE for rec in tr): skipped[fmt + ":unmodelled-exception"] += 1; continue
            calls = [int(rec["attached"]) for rec in tr if rec["end"] == "ok"]
            lit = f"({tx(content)}, {zl(oracle)}, {code}, {zl(calls)})"
            if budget[fmt] >= len(lit):
                budget[fmt] -= len(lit); sh[fmt].add(lit, t["i"]); used[fmt] += 1
                for line in content.split("\n")[:40]:
                    line = line + "\n"
                    if line in seen_lines[fmt]: continue
                    if len(line) > 300:
                        # long lines only where the length matters: SRT time-code lines whose hour fields approach int()'s digit limit
                        if fmt != "srt" or len(line) > 6000 or long_lines[0] >= 24 or sr._TIMECODE_RE.search(line) is None: continue
                        long_lines[0] += 1
                    seen_lines[fmt].add(line)
                    if fmt == "srt":
                        sh["srtview"].add(f"({tx(line)}, {zl(srt_flags(line))})", line)
                    else:
                        sh["vttview"].add(f"({tx(line)}, {zl(vtt_flags(line))})", line)
            for rec in tr:
                ev = srt_events(rec["ev"]) if fmt == "srt" else vtt_events(rec["ev"])
                if ev is None or len(ev) > 400: continue
                if fmt == "srt" and rec["end"] == "AssertionError": skipped["srt:html.parser-assertion"] += 1; continue
                key = (fmt, rec["attached"], tuple(ev), rec["end"])
                if key in seen_cur: continue
                seen_cur.add(key)
                sh[fmt + "cur"].add(f"({int(rec['attached'])}, {pairs(ev)}, {M_CODE[rec['end']]})", key)
        elif fmt == "scc":
            tr = r["trace"] or []
            if any(rec["end"] not in M_CODE for rec in tr): skipped["scc:unmodelled-exception"] += 1; continue
            oracle = [M_CODE[rec["end"]] for rec in tr]
            lit = f"({tx(content)}, {zl(oracle)}, {code})"
            if budget[fmt] >= len(lit):
                budget[fmt] -= len(lit); sh["scc"].add(lit, t["i"]); used[fmt] += 1
                for line in content.splitlines()[:40]:
                    if line in seen_lines["scc"] or len(line) > 400: continue
                    seen_lines["scc"].add(line)
                    try:
                        l = SccLine.from_str(line); lc = -1 if l is None else 100 + len(l.scc_words)
                    except ValueError: lc = 11
                    except IndexError: lc = 22
                    sh["sccline"].add(f"({tx(line)}, {lc})", line)
        elif fmt == "stl":
            tr = r["trace"] or []
            if any(rec["end"] not in M_CODE for rec in tr): skipped["stl:unmodelled-exception"] += 1; continue
            oracle = [M_CODE[rec["end"]] for rec in tr]
            st, rw = stl_cfg_codes(R.READER_CFGS["stl"][t["cfg"] % len(R.READER_CFGS["stl"])])
            lit = f"({zl(st)}, {zl(rw)}, {rle(t['data'])}, {zl(oracle)}, {code})"
            if budget[fmt] >= len(lit):
                budget[fmt] -= len(lit); sh["stl"].add(lit, t["i"]); used[fmt] += 1

    # ---- SccWord.from_str and int() on their own: fixed probes + random words
    words = ["9420", "94zz", "", "1", "12345", "+1ab", "-1ab", "0x1f", "0X1F", "1_ab", "1__a", "_1ab", "1ab_", "ab\f\f", "\f\fab", "\fab\f", " ab ", "ab \t", "\tab\n", "ａｂｃｄ", "١٢٣٤",
             "12 34"[:4], " ab ", "ab\x1c\x1d", "\x1fabc", "0_12", "0x_1", "+0x1", "ABCD", "abcg", "１２３４", "12 4", "　　ab", "a\fb\f", "\f\f\f\f", "0x", "+-12", "1e10", "00ff"]
    alphabet = "0123456789abcdefABCDEFxX_+- \t\f\n\r\x0b\x1c\x85 ٠٩１gz"
    for _ in range(4000 if thorough else 600):
        words.append("".join(rng.choice(alphabet) for _ in range(rng.choice([4, 4, 4, 3, 5, 2]))))
    for w in dict.fromkeys(words):
        try: SccWord.from_str(w); wc = 0
        except ValueError: wc = 11
        except IndexError: wc = 22
        sh["sccword"].add(f"({tx(w)}, {wc})", w)
        if len(w) == 4: sh["int16"].add(f"({tx(w)}, {int(SccWord._is_hex_word(w))})", w)
    balpha = b"0123456789 +-_\t\n\x0b\x0c\r\x00\xa0aA.x"
    bprobes = [bytes([a, b]) for a in balpha for b in balpha]
    for _ in range(3000 if thorough else 400):
        bprobes.append(bytes(rng.choice(balpha) for _ in range(rng.choice([5, 5, 2, 3, 8]))))
    if thorough: bprobes += [bytes([a, b]) for a in range(256) for b in range(256)]
    for bs in dict.fromkeys(bprobes):
        try: v = int(bs)
        except ValueError: v = -100000
        sh["bint"].add(f"({zl(bs)}, {C.z(v)})", bs)

    for s in sh.values(): s.flush()
    files = [p for s in sh.values() for p in s.files]
    run.log(f"guard correspondence: {len(files)} case files (" + ", ".join(f"{k} {s.count()}" for k, s in sh.items()) + ")")
    res = C.coqc_many(files, 1500)
    broken = []; first = []; summary = {}
    spec_bad = set()
    for kind, s in sh.items():
        n_cases = 0; bad_by_eval = [[] for _ in s.evals]
        for p, ids in zip(s.files, s.index):
            rc, out = res[p]
            flat = " ".join(out.split())
            ms = re.findall(r"=\s*\(\s*(\d+)\s*,\s*(\[[^\]]*\]|nil)\s*\)", flat)
            if rc != 0 or len(ms) != len(s.evals) or any(int(m[0]) != len(ids) for m in ms):
                broken.append(f"case file {os.path.basename(p)} did not evaluate: {out[-300:]}"); continue
            n_cases += len(ids)
            for j, (_, b) in enumerate(ms):
                bad_by_eval[j] += [ids[int(x)] for x in re.findall(r"\d+", b)]
        summary[kind] = dict(cases=n_cases, **{e: len(b) for e, b in zip(s.evals, bad_by_eval)})
        for e, b in zip(s.evals, bad_by_eval):
            if e == "spec_strict_case":
                spec_bad = set(b); continue
            if b:
                broken.append(f"{e}: {len(b)} of {n_cases} cases disagree with the code; first: {str(b[0])[:200]}")
                first += [dict(check=e, case=str(x)[:400]) for x in b[:3]]
    if spec_bad != spec_expect_bad and not any("spec" in b for b in broken):
        d = sorted(spec_bad ^ spec_expect_bad)[:5]
        broken.append(f"S evaluated in Coq and the harness classification disagree on inputs {d}")
    summary["S_rejects_runs"] = len(spec_bad)
    summary["inputs_compared"] = dict(used); summary["inputs_skipped"] = dict(skipped)
    C.clean_cases("Cases_C18_")
    logging.disable(logging.NOTSET)
    run.cov["obligations"] += 1
    if not broken: run.cov["discharged"] += 1
    run.log("guard correspondence:", {k: v for k, v in summary.items() if k not in ("inputs_skipped",)}, "| broken:", broken[:3])
    by_i = {t["i"]: t for t in tasks}
    for f in first:
        try:
            i = int(f["case"])
            if i in by_i: f["input"] = by_i[i]["data"][:600].decode("utf-8", "replace"); f["format"] = by_i[i]["fmt"]; f["outcome"] = results[i]["outcome"]
        except (ValueError, KeyError): pass
    return dict(broken=broken, summary=summary, first=first)
