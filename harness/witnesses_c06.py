"""Witnesses of the findings recorded for C06 (ids as in findings_proposed/C06.txt / KNOWN_FINDINGS.txt).  Each returns None when
the writers behave as the property says and a string otherwise (expected while the finding is open)."""
from fractions import Fraction as F
from witnesses import witness


def _base(nreg=1):
    import ttconv.model as m
    d = m.ContentDocument(); regs = []
    for i in range(nreg):
        r = m.Region(f"r{i}", d); d.put_region(r); regs.append(r)
    b = m.Body(d); d.set_body(b)
    return d, b, regs


def _p(d, *items):
    import ttconv.model as m
    p = m.P(d)
    for it in items:
        if it == "br": p.push_child(m.Br(d))
        elif isinstance(it, str):
            sp = m.Span(d); sp.push_child(m.Text(d, it)); p.push_child(sp)
        else: p.push_child(it)
    return p


def _one_p(*items, begin=F(1), end=F(2), preserve=False):
    import ttconv.model as m
    d, b, (r0,) = _base(); dv = m.Div(d); b.push_child(dv); dv.set_region(r0)
    p = _p(d, *items); dv.push_child(p); p.set_begin(begin); p.set_end(end)
    if preserve:
        p.set_space(m.WhiteSpaceHandling.PRESERVE)
        for c in p: c.set_space(m.WhiteSpaceHandling.PRESERVE)
    return d, p


def _writers(d, **vtt):
    import ttconv.srt.writer as sw, ttconv.vtt.writer as vw
    from ttconv.vtt.config import VTTWriterConfiguration as VC
    return sw.from_model(d), vw.from_model(d, VC(**vtt))


@witness("C06", "writers-skip-ruby")
def _():
    import ttconv.model as m
    d, b, (r0,) = _base(); dv = m.Div(d); b.push_child(dv); dv.set_region(r0)
    ruby = m.Ruby(d); rb = m.Rb(d); rt = m.Rt(d)
    sp = m.Span(d); sp.push_child(m.Text(d, "BASE")); rb.push_child(sp)
    sp = m.Span(d); sp.push_child(m.Text(d, "anno")); rt.push_child(sp)
    ruby.push_children([rb, rt])
    dv.push_child(_p(d, "pre", ruby, "post")); b.set_begin(F(1)); b.set_end(F(2))
    for name, out in zip(("SRT", "WebVTT"), _writers(d)):
        if "BASE" not in out: return f"ruby base text missing from the {name} output: {out!r}"


@witness("C06", "vtt-nested-div-lost")
def _():
    import ttconv.model as m
    d, b, (r0,) = _base(); dv = m.Div(d); b.push_child(dv); dv.set_region(r0)
    dv2 = m.Div(d); dv.push_child(dv2); dv2.push_child(_p(d, "nested")); b.set_begin(F(1)); b.set_end(F(2))
    s, v = _writers(d)
    if "nested" in s and "nested" not in v: return f"text of a p below a nested div is in the SRT output but not in the WebVTT output: {v!r}"
    if "nested" not in s: return f"text missing from the SRT output: {s!r}"


@witness("C06", "tags-only-cue")
def _():
    import ttconv.model as m, ttconv.style_properties as s
    d, b, (r0,) = _base(); dv = m.Div(d); b.push_child(dv); dv.set_region(r0)
    sp = m.Span(d); sp.set_style(s.StyleProperties.Color, s.NamedColors.red.value); sp.push_child(m.Br(d))
    p = m.P(d); p.push_child(sp); dv.push_child(p); b.set_begin(F(1)); b.set_end(F(2))
    for name, out in zip(("SRT", "WebVTT"), _writers(d)):
        if "-->" in out: return f"a cue without any visible text is written ({name}): {out!r}"


@witness("C06", "no-cues-when-writer-raises")
def _():
    import ttconv.model as m
    d, b, (r0,) = _base(); dv = m.Div(d); b.push_child(dv); dv.set_region(r0)
    p1 = _p(d, "first"); p1.set_begin(F(1)); p1.set_end(F(2)); dv.push_child(p1)
    p2 = _p(d, "x"); p2.set_begin(F(3)); p2.set_end(F(30003, 10000)); dv.push_child(p2)
    try:
        s, v = _writers(d)
    except ValueError as e:
        return f"no output at all (ValueError: {e}) although 'first' is visible from 1 s to 2 s"
    if "first" not in s or "first" not in v: return "text missing"


@witness("C06", "payload-not-recoverable")
def _():
    import io, ttconv.srt.reader as sr, ttconv.model as m
    d, p = _one_p("a", "br", "  ", "br", "b", preserve=True)
    s, v = _writers(d)
    back = sr.to_model(io.StringIO(s))
    if back is None: return f"SRT payload {s!r}: ttconv's own SRT reader rejects the file (the line of spaces ends the cue, 'b' is no counter)"
    texts = [e.get_text() for e in back.get_body().dfs_iterator() if isinstance(e, m.Text)]
    if "b" not in "".join(texts): return f"SRT payload {s!r} read back as {texts!r}: the text after the blank-looking line is lost"
    d, p = _one_p("a --> b")
    s, v = _writers(d)
    if "-->" in s.split("\n", 2)[2] or "-->" in v.split("\n")[-2]: return f"payload contains '-->': {s!r}"
