"""Shared plumbing for the ttconv verification harness.

Everything random derives from one seed (VERIF_SEED); every Coq invocation runs under a shell
timeout; evidence is written by `Evidence.write`; violations go through `Run.violation`.
"""
import fcntl, hashlib, json, os, random, re, subprocess, sys, time
from fractions import Fraction

VERIF = os.path.dirname(os.path.dirname(os.path.abspath(__file__)))
REPO = os.environ.get("TTCONV_REPO", "/repo")
SRC = REPO + "/src/main/python"
COQ = VERIF + "/coq"
GEN = COQ + "/Gen"
PY = "/venv/bin/python"
NCPU = min(16, os.cpu_count() or 4)

FORBIDDEN = re.compile(r"\b(Admitted|admit|Axiom|Axioms|Parameter|Parameters|Conjecture|Conjectures|"
                       r"Admit\s+Obligations|bypass_check|native_compute)\b|Unset\s+Guard|Unset\s+Positivity|"
                       r"Unset\s+Universe\s+Checking|type-in-type|impredicative-set")


def seed():
    try:
        return int(os.environ.get("VERIF_SEED", "20260929"))
    except ValueError:
        return 20260929


def tier():
    t = os.environ.get("VERIF_TIER", "quick")
    return t if t in ("quick", "thorough") else "quick"


def pyenv():
    e = dict(os.environ)
    e["PYTHONPATH"] = SRC
    e["PYTHONHASHSEED"] = "0"
    e["TTCONV_VERIF"] = "1"
    e["ISD_NO_MULTIPROC"] = "1"
    return e


# ------------------------------------------------------------------ Gallina literals
def z(n):
    n = int(n)
    return f"({n})" if n < 0 else str(n)

def zs(n):  # scoped
    return f"({int(n)})%Z"

def nn(n):
    assert n >= 0
    return f"{int(n)}%N"

def q(x):
    x = Fraction(x)
    return f"(Qmake {z(x.numerator)} {x.denominator})"

def opt(x, f=lambda v: v):
    return "None" if x is None else f"(Some {f(x)})"

def lst(items, f=lambda v: v, scope=None):
    s = "[" + "; ".join(f(i) for i in items) + "]"
    return s + ("%" + scope if scope else "")

def boolean(b):
    return "true" if b else "false"

def text(s):
    """text = list of code points (Z)"""
    return "[" + ";".join(str(ord(c)) for c in s) + "]"

def coq_string(s):
    """Coq string literal for a str of bytes < 128 (no NUL)"""
    assert all(0 < ord(c) < 128 for c in s), s
    return '"' + s.replace('"', '""') + '"'


# ------------------------------------------------------------------ Coq
def scan_sources():
    """fail-closed scan of the hand-written development for forbidden vernacular"""
    bad = []
    for root, _, files in os.walk(COQ):
        if root.startswith(GEN): continue
        for f in files:
            if not f.endswith(".v"): continue
            p = os.path.join(root, f)
            txt = open(p, encoding="utf-8").read()
            txt = re.sub(r"\(\*.*?\*\)", " ", txt, flags=re.S)
            for m in FORBIDDEN.finditer(txt):
                bad.append(f"{os.path.relpath(p, VERIF)}: {m.group(0)}")
            # Variable / Hypothesis outside a Section
            depth = 0
            for line in txt.splitlines():
                s = line.strip()
                if re.match(r"Section\s+\w+", s): depth += 1
                elif re.match(r"End\s+\w+", s) and depth: depth -= 1
                elif depth == 0 and re.match(r"(Variable|Variables|Hypothesis|Hypotheses|Context)\b", s):
                    bad.append(f"{os.path.relpath(p, VERIF)}: {s[:40]} outside Section")
    return bad


class Lock:
    def __init__(self, name="build"):
        self.path = COQ + "/." + name + ".lock"
    def __enter__(self):
        self.f = open(self.path, "w"); fcntl.flock(self.f, fcntl.LOCK_EX); return self
    def __exit__(self, *a):
        fcntl.flock(self.f, fcntl.LOCK_UN); self.f.close()


def write_if_changed(path, txt):
    os.makedirs(os.path.dirname(path), exist_ok=True)
    try:
        if open(path, encoding="utf-8").read() == txt: return False
    except FileNotFoundError:
        pass
    with open(path, "w", encoding="utf-8") as f: f.write(txt)
    return True


def sh(cmd, timeout, cwd=None, env=None):
    """run under a shell timeout; returns (rc, output)"""
    p = subprocess.run(["timeout", "-k", "10", str(timeout)] + cmd, cwd=cwd, env=env,
                       stdout=subprocess.PIPE, stderr=subprocess.STDOUT, text=True, errors="replace")
    return p.returncode, p.stdout


def make(targets, timeout=3000):
    """(re)build .vo targets (paths relative to coq/) with the generated Makefile; returns (ok, log)"""
    with Lock():
        if not os.path.exists(COQ + "/Makefile") or os.path.getmtime(COQ + "/_CoqProject") > os.path.getmtime(COQ + "/Makefile"):
            rc, out = sh(["coq_makefile", "-f", "_CoqProject", "-o", "Makefile"], 120, cwd=COQ)
            if rc: return False, out
        rc, out = sh(["make", "-j", str(NCPU), "-k"] + targets, timeout, cwd=COQ)
        return rc == 0, out


def coqc(path, timeout=600, extra=()):
    """compile one file (absolute path) against the built development; returns (rc, output)"""
    return sh(["coqc", "-Q", COQ, "TT"] + list(extra) + [path], timeout, cwd=os.path.dirname(path))


def coqc_many(paths, timeout=900):
    """compile case files in parallel; returns {path: (rc, output)}"""
    from concurrent.futures import ThreadPoolExecutor
    with ThreadPoolExecutor(NCPU) as ex:
        res = list(ex.map(lambda p: coqc(p, timeout), paths))
    return dict(zip(paths, res))


def clean_cases(prefix):
    for f in os.listdir(GEN):
        if f.startswith(prefix):
            try: os.unlink(os.path.join(GEN, f))
            except OSError: pass


def parse_assumptions(out):
    """parse the output of a Properties/Cnn.v compilation: {theorem: [axioms]} (empty list = closed)"""
    res = {}; cur = None; names = re.findall(r"^Print Assumptions (\S+?)\.\s*$", "", flags=re.M)
    blocks = re.split(r"(?m)^(?=Closed under the global context|Axioms:)", out)
    return blocks


def properties_file_report(prop):
    """Compile Properties/<prop>.v alone and return (ok, theorems, {thm: axioms}, log).
    The file has the shape  Theorem .. Proof. exact .. Qed.  Print Assumptions thm.  so the i-th
    assumptions block belongs to the i-th Print Assumptions command."""
    path = f"{COQ}/Properties/{prop}.v"
    src = open(path, encoding="utf-8").read()
    src_nc = re.sub(r"\(\*.*?\*\)", " ", src, flags=re.S)
    thms = re.findall(r"(?m)^\s*(?:Theorem|Lemma|Corollary)\s+(\w+)", src_nc)
    printed = re.findall(r"Print Assumptions\s+(\w+)\s*\.", src_nc)
    rc, out = coqc(path, 900)
    blocks = []
    for line in out.splitlines():
        if line.startswith("Closed under the global context") or line.startswith("Axioms:"):
            blocks.append(line + "\n")
        elif blocks and blocks[-1].startswith("Axioms:"):
            blocks[-1] += line + "\n"
    axioms = {}
    for name, b in zip(printed, blocks):
        if b.startswith("Closed"):
            axioms[name] = []
        else:
            axioms[name] = sorted(set(re.findall(r"(?m)^([A-Za-z_][\w.']*)\s*:", b[len("Axioms:"):])))
    ok = rc == 0 and len(blocks) == len(printed) and set(thms) <= set(printed)
    return ok, thms, axioms, out


# allowed axioms: those the standard library itself declares (primitive floats / ints and their
# specification axioms).  Anything else fails the check.
ALLOWED_AXIOM_PREFIXES = ("PrimFloat.", "Uint63.", "FloatAxioms.", "PrimInt63.", "Sint63.", "FloatOps.", "Uint63Axioms.")
def foreign_axioms(axioms):
    bad = []
    for thm, ax in axioms.items():
        for a in ax:
            if not a.startswith(ALLOWED_AXIOM_PREFIXES) and a not in STDLIB_AXIOMS:
                bad.append(f"{thm}: {a}")
    return bad
STDLIB_AXIOMS = {"of_uint63_spec", "mul_spec", "div_spec", "add_spec", "sub_spec", "Prim2SF_valid", "SF2Prim_Prim2SF",
                 "Prim2SF_SF2Prim", "opp_spec", "abs_spec", "eqb_spec", "ltb_spec", "leb_spec", "compare_spec",
                 "normfr_mantissa_spec", "frshiftexp_spec", "ldshiftexp_spec", "sqrt_spec", "next_up_spec",
                 "next_down_spec", "of_int63_spec", "classify_spec", "to_Z_rec_bounded", "of_to_Z"}


# ------------------------------------------------------------------ known findings
def known_findings():
    """KNOWN_FINDINGS.txt -> (findings, fixed) lists of dicts"""
    fnd, fixed = [], []
    p = VERIF + "/KNOWN_FINDINGS.txt"
    if not os.path.exists(p): return fnd, fixed
    for line in open(p, encoding="utf-8"):
        line = line.strip()
        if not line or line.startswith("#"): continue
        if line.startswith("fixed:"):
            m = re.match(r"fixed:\s+property=(\S+)\s+(\S+)\s+witness=(\S+)\s+(.*)", line)
            if m: fixed.append(dict(property=m.group(1), commit=m.group(2), witness=m.group(3), what=m.group(4)))
        elif line.startswith("finding"):
            m = re.match(r"finding\s+property=(\S+)\s+id=(\S+)\s+what=(.*)", line)
            if m: fnd.append(dict(property=m.group(1), id=m.group(2), what=m.group(3)))
    return fnd, fixed


# ------------------------------------------------------------------ one check run
class Run:
    def __init__(self, prop, level="proof"):
        self.prop = prop; self.level = level
        self.t0 = time.time(); self.seed = seed(); self.tier = tier()
        self.rng = random.Random(self.seed * 1000003 + int(prop[1:]))
        self.violations = 0; self.known_printed = set()
        self.cov = dict(obligations=0, discharged=0, trusted_base=[], samples=[],
                        checker_cmd=f"make -C coq <cone of {prop}> && coqc -Q coq TT coq/Properties/{prop}.v  (Print Assumptions scanned)",
                        evaluations=0, distinct_nontrivial=0, rule="")
        self.assumptions = []
        self.findings, self.fixed = known_findings()
        self.findings = [f for f in self.findings if f["property"] == prop]
        self.fixed = [f for f in self.fixed if f["property"] == prop]
        os.makedirs(VERIF + "/evidence", exist_ok=True); os.makedirs(VERIF + "/replay", exist_ok=True)
        os.makedirs(GEN, exist_ok=True)

    def log(self, *a):
        print(f"[{self.prop} {time.time() - self.t0:6.1f}s]", *a, flush=True)

    def violation(self, what, replay, found_input=True):
        """report a violation; `replay` is a JSON-serialisable description written to replay/"""
        self.violations += 1
        h = hashlib.sha1(json.dumps(replay, sort_keys=True, default=str).encode()).hexdigest()[:10]
        path = f"{VERIF}/replay/{self.prop}-{h}.json"
        with open(path, "w") as f:
            json.dump(dict(property=self.prop, what=what, seed=self.seed, tier=self.tier, replay=replay,
                           rerun=f"cd /verif && VERIF_SEED={self.seed} VERIF_TIER={self.tier} ./check {self.prop}"),
                      f, indent=1, default=str)
        tail = "" if found_input else " no-failing-input-found"
        print(f"VIOLATION property={self.prop} replay={path}{tail}", flush=True)
        self.log("  ", what)

    def known(self, fid, detail=""):
        """print the KNOWN-FINDING line of a listed finding (once per run). Returns False if unlisted."""
        for f in self.findings:
            if f["id"] == fid:
                if fid not in self.known_printed:
                    self.known_printed.add(fid)
                    print(f"KNOWN-FINDING: property={self.prop} {fid}: {f['what']}" + (f" [{detail}]" if detail else ""), flush=True)
                return True
        return False

    # -- standard stages ----------------------------------------------------------------------
    def hygiene(self):
        bad = scan_sources()
        self.cov["obligations"] += 1
        if bad:
            self.violation("forbidden vernacular in the Coq development: " + "; ".join(bad[:5]),
                           dict(kind="hygiene", items=bad), found_input=False)
        else:
            self.cov["discharged"] += 1
        return not bad

    def build(self, targets, clean=False):
        """build the .vo cone; returns (ok, log)"""
        if clean:
            with Lock():
                for t in targets:
                    for ext in (".vo", ".glob", ".vos", ".vok"):
                        try: os.unlink(COQ + "/" + t[:-3] + ext)
                        except OSError: pass
        ok, out = make(targets)
        return ok, out

    def theorems(self):
        """compile Properties/<prop>.v, record theorems and assumptions; returns ok"""
        ok, thms, axioms, out = properties_file_report(self.prop)
        self.cov["checker_cmd"] = f"coqc -Q coq TT coq/Properties/{self.prop}.v (after make of its dependency cone)"
        self.cov["theorems"] = thms
        self.cov["assumptions_per_theorem"] = {k: (v or "Closed under the global context") for k, v in axioms.items()}
        self.cov["obligations"] += len(thms)
        if ok:
            foreign = foreign_axioms(axioms)
            if foreign:
                self.proof_log = "foreign axioms: " + ", ".join(foreign); return False
            self.cov["discharged"] += len(thms)
        self.proof_log = out[-3000:]
        if ok and self.tier == "thorough" and "coqchk" not in self.cov:
            # independent re-check of the compiled theorems and everything they depend on; lists every axiom in the closure
            rc, cout = sh(["coqchk", "-silent", "-o", "-Q", COQ, "TT", f"TT.Properties.{self.prop}"], 3000, cwd=COQ)
            m = re.search(r"\* Axioms:(.*?)\n\s*\n\* Constants/Inductives relying on type-in-type", cout, re.S)
            axioms = " ".join(m.group(1).split()) if m else "?"
            self.cov["coqchk"] = dict(exit=rc, axioms=axioms, tail=cout[-600:] if rc else "")
            self.cov["obligations"] += 1
            if rc == 0: self.cov["discharged"] += 1
            else:
                self.proof_log = "coqchk failed: " + cout[-800:]; return False
        return ok

    def witnesses(self):
        """run the regression corpus for this property against the implementation.
        returns dict name -> failure string for *fixed* witnesses that fail again"""
        code = ("import sys, json; sys.path.insert(0, %r); import witnesses as w; r = w.run({%r}, quiet=True); "
                "print('WITNESS-JSON ' + json.dumps({k: v[1] for k, v in r.items()}))") % (VERIF + "/harness", self.prop)
        rc, out = sh([PY, "-c", code], 600, env=pyenv())
        m = re.search(r"WITNESS-JSON (.*)", out)
        res = json.loads(m.group(1)) if m else {}
        if not m:
            self.violation("witness corpus could not be run: " + out[-400:], dict(kind="witness-run", log=out[-2000:]), False)
        self.cov["witnesses_run"] = len(res)
        back = {}
        for name, r in res.items():
            fixed_names = {f["witness"] for f in self.fixed}
            if r is not None:
                if name in fixed_names:
                    back[name] = r
                    self.violation(f"fixed defect is back: {name}: {r}",
                                   dict(kind="witness", witness=name, failure=r,
                                        rerun=f"PYTHONPATH={SRC} {PY} {VERIF}/harness/witnesses.py {self.prop}"))
                elif not self.known(name, r):
                    self.violation(f"witness {name} fails: {r}", dict(kind="witness", witness=name, failure=r))
        return back

    def finish(self, extra_trusted=()):
        tb = ["Coq 8.16.1 kernel incl. vm_compute (no native_compute)",
              "harness/common.py literal printer and result parser",
              "CPython semantics of the transcribed operations (checked only through correspondence)"]
        self.cov["trusted_base"] = tb + list(extra_trusted) + self.cov.get("trusted_base", [])
        self.cov["known_findings_reported"] = sorted(self.known_printed)
        ev = dict(property_id=self.prop, tier=self.tier, seed=self.seed, level=self.level, coverage=self.cov,
                  assumptions=self.assumptions, wall_s=round(time.time() - self.t0, 2), violations=self.violations)
        with open(f"{VERIF}/evidence/{self.prop}.json", "w") as f:
            json.dump(ev, f, indent=1, default=str)
        self.log(f"done: obligations {self.cov['discharged']}/{self.cov['obligations']}, evaluations {self.cov['evaluations']}, "
                 f"violations {self.violations}")
        return 1 if self.violations else 0


def coq_eval_results(out):
    """Parse lines written by the case files.  Each case file ends with
         Eval vm_compute in (check_all cases).
       printing   = (n_ok, [bad indices])  — we parse robustly across line wraps."""
    flat = " ".join(out.split())
    m = re.search(r"=\s*\(\s*(\d+)%?\w*\s*,\s*(\[[^\]]*\]|nil)\s*\)", flat)
    if not m: return None
    bad = [int(x) for x in re.findall(r"\d+", m.group(2))] if m.group(2) != "nil" else []
    return int(m.group(1)), bad
