"""Regression corpus of defect witnesses: one function per genuine defect that was found in
sandflow/ttconv by this framework.  Each returns None when the property holds on the witness and
a string describing the failure otherwise.  The witnesses of `fixed:` entries of
KNOWN_FINDINGS.txt must pass; those of recorded findings are expected to fail (and the check
prints KNOWN-FINDING for them while they do).

Run alone:  PYTHONPATH=/repo/src/main/python /venv/bin/python harness/witnesses.py [Cnn]
"""
import io, sys, logging, traceback
from fractions import Fraction

W = {}   # (property, name) -> function   (names need only be unique within a property)
def witness(prop, name):
    def d(f):
        W[(prop, name)] = f; return f
    return d

def _imsc(xml):
    import xml.etree.ElementTree as et
    import ttconv.imsc.reader as r
    return r.to_model(et.ElementTree(et.fromstring(xml)))

TT = '<tt xml:lang="en" xmlns="http://www.w3.org/ns/ttml" xmlns:tts="http://www.w3.org/ns/ttml#styling" xmlns:ttp="http://www.w3.org/ns/ttml#parameter" xmlns:ebutts="urn:ebu:tt:style" %s>%s</tt>'

def _texts(isd):
    import ttconv.isd as I, ttconv.model as m
    out = []
    if isd is None: return out
    for r in isd.iter_regions():
        for e in r.dfs_iterator():
            if isinstance(e, m.Text): out.append(e.get_text())
    return out

# ---------------------------------------------------------------- C03
@witness("C03", "position-bottom-edge")
def _():
    import ttconv.model as m, ttconv.style_properties as s, ttconv.isd as I
    d = m.ContentDocument()
    r = m.Region("r1", d)
    r.set_style(s.StyleProperties.Extent, s.ExtentType(height=s.LengthType(20, s.LengthType.Units.pct), width=s.LengthType(50, s.LengthType.Units.pct)))
    r.set_style(s.StyleProperties.Position, s.PositionType(
        h_offset=s.LengthType(10, s.LengthType.Units.pct), h_edge=s.PositionType.HEdge.right,
        v_offset=s.LengthType(0, s.LengthType.Units.pct), v_edge=s.PositionType.VEdge.bottom))
    r.set_style(s.StyleProperties.ShowBackground, s.ShowBackgroundType.always)
    d.put_region(r)
    isd = I.ISD.from_model(d, 0)
    o = list(isd.iter_regions())[0].get_style(s.StyleProperties.Origin)
    # bottom 0% with height 20 -> y = 80; right 10% of (100-50)=5 -> x = 100-50-5 = 45
    if abs(o.y.value - 80) > 1e-9 or abs(o.x.value - 45) > 1e-9:
        return f"origin=({o.x.value},{o.y.value}) expected (45,80)"

# ---------------------------------------------------------------- C04
@witness("C04", "par-implicit-end-timebase")
def _():
    import ttconv.isd as I
    d = _imsc(TT % ("", '<body><div begin="10s"><p end="5s">hello</p></div></body>'))
    t = _texts(I.ISD.from_model(d, 12))
    if t != ["hello"]: return f"text at t=12 is {t}, expected ['hello']"

@witness("C04", "enum-keyerror-direction")
def _():
    try:
        d = _imsc(TT % ("", '<body><div><p tts:direction="up" tts:color="red">x</p></div></body>'))
    except Exception as e:
        return f"malformed tts:direction aborts the read: {type(e).__name__}"
    import ttconv.style_properties as s
    p = list(list(d.get_body())[0])[0]
    if p.get_style(s.StyleProperties.Color) is None: return "well-formed sibling attribute lost"

@witness("C04", "textshadow-two-components")
def _():
    import ttconv.style_properties as s
    try:
        d = _imsc(TT % ("", '<body><div><p><span tts:textShadow="1px 2px">x</span></p></div></body>'))
    except Exception as e:
        return f"two-length tts:textShadow raises {type(e).__name__}"
    sp = list(list(list(d.get_body())[0])[0])[0]
    ts = sp.get_style(s.StyleProperties.TextShadow)
    if ts is None or len(ts.shadows) != 1: return f"shadow not read: {ts}"

# ---------------------------------------------------------------- C05
@witness("C05", "writer-drops-rp")
def _():
    import ttconv.model as m, ttconv.imsc.writer as w, ttconv.imsc.reader as r
    d = m.ContentDocument(); b = m.Body(d); d.set_body(b); dv = m.Div(d); b.push_child(dv); p = m.P(d); dv.push_child(p)
    ruby = m.Ruby(d); p.push_child(ruby)
    def mk(cls, txt):
        e = cls(d); sp = m.Span(d); sp.push_child(m.Text(d, txt)); e.push_child(sp)
        return e
    ruby.push_children([mk(m.Rb, "base"), mk(m.Rp, "("), mk(m.Rt, "anno"), mk(m.Rp, ")")])
    tree = w.from_model(d)
    d2 = r.to_model(tree)
    kinds = [type(e).__name__ for e in d2.get_body().dfs_iterator()]
    if kinds.count("Rp") != 2: return f"re-read kinds {kinds}"

# ---------------------------------------------------------------- C06
def _two_region_doc():
    import ttconv.model as m, ttconv.style_properties as s
    d = m.ContentDocument()
    r1 = m.Region("r1", d); d.put_region(r1); r2 = m.Region("r2", d); d.put_region(r2)
    b = m.Body(d); d.set_body(b)
    for rid, txts in (("r1", ["A1", "A2", "A3"]), ("r2", ["B1", "B2"])):
        for tx in txts:
            dv = m.Div(d); dv.set_region(d.get_region(rid)); b.push_child(dv)
            p = m.P(d); dv.push_child(p); sp = m.Span(d); p.push_child(sp); sp.push_child(m.Text(d, tx))
    b.set_begin(Fraction(1)); b.set_end(Fraction(2))
    return d

@witness("C06", "merge-regions-loses-divs")
def _():
    import ttconv.srt.writer as w
    out = w.from_model(_two_region_doc())
    for tx in ("A1", "A2", "A3", "B1", "B2"):
        if tx not in out: return f"text {tx} of a later div is missing from the SRT output: {out!r}"

# ---------------------------------------------------------------- C07
def _styled_doc(text, **styles_):
    import ttconv.model as m, ttconv.style_properties as s
    d = m.ContentDocument(); r1 = m.Region("r1", d); d.put_region(r1)
    b = m.Body(d); d.set_body(b); dv = m.Div(d); b.push_child(dv); dv.set_region(r1)
    p = m.P(d); dv.push_child(p); sp = m.Span(d); p.push_child(sp); sp.push_child(m.Text(d, text))
    for k, v in styles_.items(): sp.set_style(getattr(s.StyleProperties, k), v)
    b.set_begin(Fraction(1)); b.set_end(Fraction(2))
    return d

@witness("C07", "underline-never-written-srt")
def _():
    import ttconv.srt.writer as w, ttconv.style_properties as s
    out = w.from_model(_styled_doc("under", TextDecoration=s.TextDecorationType(underline=True)))
    if "<u>under</u>" not in out: return f"no <u> tag: {out!r}"

@witness("C07", "underline-never-written-vtt")
def _():
    import ttconv.vtt.writer as w, ttconv.style_properties as s
    out = w.from_model(_styled_doc("under", TextDecoration=s.TextDecorationType(underline=True)))
    if "<u>under</u>" not in out: return f"no <u> tag: {out!r}"

@witness("C07", "vtt-text-not-escaped")
def _():
    import ttconv.vtt.writer as w
    out = w.from_model(_styled_doc("u&<x"))
    if "u&amp;&lt;x" not in out: return f"payload not escaped: {out!r}"

# ---------------------------------------------------------------- C10 / C11
@witness("C10", "srt-time-through-float")
def _():
    import ttconv.srt.reader as r
    d = r.to_model(io.StringIO("1\n00:00:00,280 --> 00:00:01,070\nx\n"))
    p = list(list(d.get_body())[0])[0]
    if p.get_begin() != Fraction(7, 25) or p.get_end() != Fraction(107, 100):
        return f"begin={p.get_begin()!r} end={p.get_end()!r}"

@witness("C10", "srt-cue-without-text")
def _():
    import ttconv.srt.reader as r
    try:
        r.to_model(io.StringIO("1\n00:00:00,000 --> 00:00:01,000\n\n2\n00:00:02,000 --> 00:00:03,000\nx\n"))
        r.to_model(io.StringIO("1\n00:00:00,000 --> 00:00:01,000\n"))
    except (ValueError,) as e:
        return None
    except Exception as e:
        return f"cue without text raises {type(e).__name__}"

@witness("C11", "vtt-time-through-float")
def _():
    import ttconv.vtt.reader as r
    d = r.to_model(io.StringIO("WEBVTT\n\n00:00:00.280 --> 00:00:01.070\nx\n"))
    p = list(list(d.get_body())[0])[0]
    if p.get_begin() != Fraction(7, 25) or p.get_end() != Fraction(107, 100):
        return f"begin={p.get_begin()!r} end={p.get_end()!r}"

# ---------------------------------------------------------------- C12
@witness("C12", "from-seconds-frame-boundary")
def _():
    from ttconv.time_code import SmpteTimeCode
    bad = []
    for fps in (Fraction(25), Fraction(30000, 1001), Fraction(24), Fraction(60000, 1001)):
        for k in range(0, 3000):
            if SmpteTimeCode.from_seconds(Fraction(k) / fps, fps).to_frames() != k: bad.append((str(fps), k))
    if bad: return f"{len(bad)} boundaries land on the previous frame, first {bad[:3]}"

# ---------------------------------------------------------------- C14
@witness("C14", "background-visible-by-animation")
def _():
    import ttconv.model as m, ttconv.style_properties as s, ttconv.isd as I
    d = m.ContentDocument()
    r = m.Region("r1", d)
    r.set_style(s.StyleProperties.ShowBackground, s.ShowBackgroundType.whenActive)
    r.set_style(s.StyleProperties.BackgroundColor, s.ColorType((255, 0, 0, 255)))
    r.add_animation_step(m.DiscreteAnimationStep(s.StyleProperties.ShowBackground, Fraction(5), Fraction(8), s.ShowBackgroundType.always))
    d.put_region(r)
    b = m.Body(d); d.set_body(b); dv = m.Div(d); b.push_child(dv); dv.set_region(r); p = m.P(d); dv.push_child(p)
    sp = m.Span(d); p.push_child(sp); sp.push_child(m.Text(d, "x")); p.set_begin(Fraction(0)); p.set_end(Fraction(1))
    st = I.ISD.significant_times(d)
    a = I.ISD.from_model(d, Fraction(6)); b = I.ISD.from_model(d, Fraction(6), st)
    na = len(list(a.iter_regions())) if a else 0; nb = len(list(b.iter_regions())) if b else 0
    if na != nb: return f"uncached snapshot has {na} painting region(s), cached has {nb}"

@witness("C14", "default-region-initial-background")
def _():
    import ttconv.model as m, ttconv.style_properties as s, ttconv.isd as I
    d = m.ContentDocument()
    d.put_initial_value(s.StyleProperties.BackgroundColor, s.NamedColors.red.value)
    b = m.Body(d); d.set_body(b); dv = m.Div(d); b.push_child(dv); p = m.P(d); dv.push_child(p)
    sp = m.Span(d); p.push_child(sp); sp.push_child(m.Text(d, "x")); p.set_begin(Fraction(0)); p.set_end(Fraction(1))
    st = I.ISD.significant_times(d)
    a = I.ISD.from_model(d, Fraction(5)); c = I.ISD.from_model(d, Fraction(5), st)
    na = len(list(a.iter_regions())); nc = len(list(c.iter_regions()))
    if na != nc: return f"uncached snapshot shows {na} painted default region, cached shows {nc}"

# ---------------------------------------------------------------- C15
@witness("C15", "push-child-ancestor-cycle")
def _():
    import ttconv.model as m
    d = m.ContentDocument(); a = m.Div(d); b = m.Div(d); c = m.Div(d)
    a.push_child(b); b.push_child(c)
    try:
        c.push_child(a)
    except Exception:
        return None
    return "an ancestor was accepted as a child: the parent relation is cyclic"

@witness("C15", "remove-region-dangling-reference")
def _():
    import ttconv.model as m
    d = m.ContentDocument(); r = m.Region("r1", d); d.put_region(r)
    b = m.Body(d); d.set_body(b); dv = m.Div(d); b.push_child(dv); dv.set_region(r)
    d.remove_region("r1")
    if dv.get_region() is not None: return "element still references a region that was removed"

@witness("C15", "font-family-items-not-validated")
def _():
    import ttconv.model as m, ttconv.style_properties as s
    d = m.ContentDocument(); p = m.P(d)
    try:
        p.set_style(s.StyleProperties.FontFamily, (1, 2))
    except Exception:
        return None
    return "FontFamily (1, 2) accepted"

# ---------------------------------------------------------------- C16
@witness("C16", "remove-animations-every-second-step")
def _():
    import ttconv.model as m, ttconv.style_properties as s
    from ttconv.filters.remove_animations import RemoveAnimationFilter
    d = m.ContentDocument(); b = m.Body(d); d.set_body(b); dv = m.Div(d); b.push_child(dv); p = m.P(d); dv.push_child(p)
    for i in range(4):
        p.add_animation_step(m.DiscreteAnimationStep(s.StyleProperties.Color, Fraction(i), Fraction(i + 1), s.NamedColors.red.value))
    RemoveAnimationFilter().process_element(d.get_body())
    n = len(list(p.iter_animation_steps()))
    if n: return f"{n} animation steps survive"

# ---------------------------------------------------------------- C19
@witness("C19", "safe-area-range")
def _():
    from ttconv.filters.doc.lcd import LCDDocFilterConfig
    for v in (99, -5, 31):
        try:
            LCDDocFilterConfig.parse({"safe_area": v})
        except ValueError:
            continue
        except Exception as e:
            return f"safe_area={v}: {type(e).__name__}"
        return f"safe_area={v} accepted (documented range 0..30)"
    for v in (0, 10, 30):
        try: LCDDocFilterConfig.parse({"safe_area": v})
        except Exception as e: return f"safe_area={v} rejected"

# witnesses contributed per property live in harness/witnesses_cNN.py (same decorator, imported here)
import glob as _glob, importlib as _importlib, os as _os
sys.path.insert(0, _os.path.dirname(_os.path.abspath(__file__)))
for _f in sorted(_glob.glob(_os.path.join(_os.path.dirname(_os.path.abspath(__file__)), "witnesses_c*.py"))):
    _importlib.import_module(_os.path.basename(_f)[:-3])


def run(props=None, quiet=False):
    logging.disable(logging.CRITICAL)
    res = {}
    for (prop, name), f in W.items():
        if props and prop not in props: continue
        try:
            r = f()
        except Exception as e:
            r = "witness raised " + "".join(traceback.format_exception_only(type(e), e)).strip()
        res[name] = (prop, r)
        if not quiet: print(("PASS " if r is None else "FAIL ") + prop + " " + name + ("" if r is None else " :: " + str(r)))
    logging.disable(logging.NOTSET)
    return res

if __name__ == "__main__":
    r = run(set(sys.argv[1:]) or None)
    sys.exit(1 if any(v[1] for v in r.values()) else 0)
