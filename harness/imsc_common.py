"""Shared helpers of the C04 / C05 checks: ElementTree <-> Gallina literals, the grammar-based generator of
TTML documents, the canonical dump of a ContentDocument (timing view), logging capture, and a small Python
mirror of the timing specification that is used only to choose probe times (the judge is Spec/TtmlTimingSpec.v,
evaluated inside Coq on the same inputs)."""
import logging, random, re
from fractions import Fraction as F
import xml.etree.ElementTree as et
import common as C

NS_TT = "http://www.w3.org/ns/ttml"
NS_TTP = "http://www.w3.org/ns/ttml#parameter"
NS_TTS = "http://www.w3.org/ns/ttml#styling"
NS_ITTP = "http://www.w3.org/ns/ttml/profile/imsc1#parameter"
NS_ITTS = "http://www.w3.org/ns/ttml/profile/imsc1#styling"
NS_EBUTTS = "urn:ebu:tt:style"
NS_XML = "http://www.w3.org/XML/1998/namespace"
NS_TTM = "http://www.w3.org/ns/ttml#metadata"
NS_FOREIGN = "urn:example:foreign"


def ns_table():
    import ttconv.imsc.namespaces as n
    t = {"": 0, n.TTML: 1, n.TTP: 2, n.TTS: 3, n.ITTP: 4, n.ITTS: 5, n.EBUTTS: 6, n.XML: 7, NS_TTM: 8}      # ttm: the reader has no name for it
    assert (n.TTML, n.TTP, n.TTS, n.XML) == (NS_TT, NS_TTP, NS_TTS, NS_XML)
    return t


class Lit:
    """Gallina literal printer for ElementTree structures (qualified names -> (namespace number, local name))"""
    def __init__(self):
        self.ns = dict(ns_table()); self.next_foreign = 100

    def qn(self, name):
        # comment and processing-instruction nodes (ElementTree: the tag is the function et.Comment / et.ProcessingInstruction):
        # the pseudo-names T_comment / T_pi of Base/ImscXml.v
        if name is et.Comment: return "(98,[])"
        if name is et.ProcessingInstruction: return "(99,[])"
        if not isinstance(name, str): raise TypeError(f"tag {name!r}")
        if name.startswith("{"):
            uri, local = name[1:].split("}", 1)
        else:
            uri, local = "", name
        if uri not in self.ns:
            self.ns[uri] = self.next_foreign; self.next_foreign += 1
        return f"({self.ns[uri]},{C.text(local)})"

    def xml(self, e):
        attrs = "[" + ";".join(f"({self.qn(k)},{C.text(v)})" for k, v in e.attrib.items()) + "]"
        kids = "[" + ";".join(self.xml(c) for c in e) + "]"
        return f"(X {self.qn(e.tag)} {attrs} {C.opt(e.text, C.text)} {C.opt(e.tail, C.text)} {kids})"


# ---------------------------------------------------------------------------------------------------------
# canonical dump of the document the reader built (timing view): Model/ImscTiming.v rdoc / mnode
KINDS = {"Body": "KBody", "Div": "KDiv", "P": "KP", "Span": "KSpan", "Ruby": "KRuby", "Rb": "KRb", "Rt": "KRt", "Rp": "KRp",
         "Rbc": "KRbc", "Rtc": "KRtc", "Br": "KBr", "Region": "KRegion"}


OPAQUE = ("FontFamily",)


class StyleLit:
    """literals of specified style values (Base/ImscXml.v sv): parsed values through imsc_docgen.sval_lit, the three properties whose
    value syntax is not modelled through a per-document table value -> number (built from the code's extract on every such attribute)"""
    def __init__(self, lit, tt):
        import ttconv.imsc.style_properties as isp
        import imsc_docgen as DG
        self.DG = DG; self.names = DG.prop_names(); self.values = []; self.rows = []
        seen = set()
        for e in tt.iter():
            for k, v in e.attrib.items():
                cls = isp.StyleProperties.BY_QNAME.get(k)
                if cls is None or cls.model_prop.__name__ not in OPAQUE or (k, v) in seen: continue
                seen.add((k, v))
                try:
                    val = cls.extract(None, v)
                    if not cls.model_prop.validate(val): raise ValueError("invalid")
                    i = self.ident(val)
                    self.rows.append(f"({lit.qn(k)},{C.text(v)},Some {i})")
                except (ValueError, KeyError):
                    self.rows.append(f"({lit.qn(k)},{C.text(v)},None)")

    def ident(self, val):
        for i, w in enumerate(self.values):
            if type(w) is type(val) and w == val: return i
        self.values.append(val); return len(self.values) - 1

    def table(self):
        return "[" + ";".join(self.rows) + "]"

    def sv(self, prop, v):
        if prop.__name__ in OPAQUE:
            for i, w in enumerate(self.values):
                if type(w) is type(v) and w == v: return f"(SO {i})"
            return "(SO (-1))"
        return f"(SV {self.DG.sval_lit(prop, v, self.DG.qrepr)})"

    def sdict(self, items):
        return "[" + ";".join(f"({self.names.index(p.__name__)},{self.sv(p, v)})" for p, v in items) + "]"


def anim_lit(sl, step):
    return (f"({sl.names.index(step.style_property.__name__)},{sl.sv(step.style_property, step.value)},"
            f"{C.q(step.begin) if step.begin is not None else '(Qmake 0 1)'},{C.opt(step.end, C.q)})")


def node_lit(lit, e, sl):
    import ttconv.model as m
    if isinstance(e, m.Text):
        return f"(T {C.text(e.get_text())})"
    k = KINDS[type(e).__name__]
    if isinstance(e, m.Br):
        b = en = None
    else:
        b, en = e.get_begin(), e.get_end()
    rid = e.get_id() if isinstance(e, m.Region) else None
    reg = None if isinstance(e, (m.Region, m.Br)) or e.get_region() is None else e.get_region().get_id()
    anims = "[" + ";".join(anim_lit(sl, s) for s in e.iter_animation_steps()) + "]"
    kids = "[" + ";".join(node_lit(lit, c, sl) for c in e) + "]"
    styles = sl.sdict([(p, e.get_style(p)) for p in e.iter_styles()])
    return (f"(E {k} {C.opt(rid, C.text)} {C.opt(b, C.q)} {C.opt(en, C.q)} {C.boolean(e.get_space().value == 'preserve')} "
            f"{C.text(e.get_lang() or '')} {C.opt(reg, C.text)} {styles} {anims} {kids})")


def doc_lit(lit, doc, sl):
    regs = "[" + ";".join(node_lit(lit, r, sl) for r in doc.iter_regions()) + "]"
    body = doc.get_body()
    return f"(DOk (mkRdoc {C.text(doc.get_lang())} {regs} {C.opt(body, lambda b: node_lit(lit, b, sl))} {sl.sdict(list(doc.iter_initial_values()))}))"


EXC_CODES = {"TypeError": 1, "ZeroDivisionError": 2, "ValueError": 5}


class LogCapture(logging.Handler):
    def __init__(self):
        super().__init__(); self.records = []
    def emit(self, rec):
        self.records.append((rec.levelname, rec.getMessage()))


def read_tree(tt):
    """run ttconv.imsc.reader.to_model on an ElementTree element; returns (doc or None, exception name or None, log records)"""
    import ttconv.imsc.reader as r
    h = LogCapture(); lg = logging.getLogger("ttconv"); old = lg.level
    lg.addHandler(h); lg.setLevel(logging.DEBUG)
    try:
        try:
            return r.to_model(et.ElementTree(tt)), None, h.records
        except Exception as e:      # canonicalised to an enum; unknown kinds are reported by the caller
            return None, type(e).__name__, h.records
    finally:
        lg.removeHandler(h); lg.setLevel(old)


def observe(doc, t):
    """white-space-normalised, non-empty text nodes of the snapshot at t, region by region in document order"""
    import ttconv.isd as I, ttconv.model as m
    isd = I.ISD.from_model(doc, t)
    out = []
    for r in isd.iter_regions():
        for e in r.dfs_iterator():
            if isinstance(e, m.Text):
                s = " ".join(x for x in re.split(r"[ \t\r\n]+", e.get_text()) if x)
                if s: out.append(s)
    return out


# ---------------------------------------------------------------------------------------------------------
# time expressions: abstract syntax (Spec/TtmlTimingSpec.v texpr), printer, value
METRICS = {"h": ("Mh", F(3600)), "m": ("Mm", F(60)), "s": ("Ms", F(1)), "ms": ("Mms", F(1, 1000)), "f": ("Mf", None), "t": ("Mt", None)}


def digits_of(n, width=1):
    s = str(n).rjust(width, "0")
    return [int(c) for c in s]


def dec_digits(q, maxfrac=7):
    """(integer digits, fraction digits) of a non-negative rational with a finite decimal expansion, else None"""
    if q < 0: return None
    ip = q.numerator // q.denominator; fr = q - ip; fp = []
    while fr != 0:
        if len(fp) >= maxfrac: return None
        fr *= 10; d = fr.numerator // fr.denominator; fp.append(d); fr -= d
    return digits_of(ip), fp


def ast_print(a):
    ds = lambda l: "".join(str(d) for d in l)
    if a[0] == "off":
        return ds(a[1]) + ("." + ds(a[2]) if a[2] else "") + a[3]
    if a[0] == "clk":
        return ds(a[1]) + ":" + ds(a[2:4]) + ":" + ds(a[4:6]) + ("." + ds(a[6]) if a[6] else "")
    return ds(a[1]) + ":" + ds(a[2:4]) + ":" + ds(a[4:6]) + ":" + ds(a[6])


def ast_lit(a):
    zl = lambda l: "[" + ";".join(str(d) for d in l) + "]"
    if a[0] == "off": return f"(O {zl(a[1])} {zl(a[2])} {METRICS[a[3]][0]})"
    if a[0] == "clk": return f"(Ck {zl(a[1])} {a[2]} {a[3]} {a[4]} {a[5]} {zl(a[6])})"
    return f"(Cf {zl(a[1])} {a[2]} {a[3]} {a[4]} {a[5]} {zl(a[6])})"


def num(ip, fp):
    v = F(int("".join(map(str, ip)) or "0"))
    if fp: v += F(int("".join(map(str, fp))), 10 ** len(fp))
    return v


def ast_value(a, fr, tr):
    """seconds per the TTML2 grammar; None when frames >= frame rate"""
    if a[0] == "off":
        n = num(a[1], a[2]); m = a[3]
        if m == "f": return n / fr
        if m == "t": return n / tr
        return n * METRICS[m][1]
    h = num(a[1], []); mi = a[2] * 10 + a[3]; s = a[4] * 10 + a[5]
    if a[0] == "clk": return h * 3600 + mi * 60 + s + (F(int("".join(map(str, a[6]))), 10 ** len(a[6])) if a[6] else 0)
    ff = num(a[6], [])
    if ff >= fr: return None
    return h * 3600 + mi * 60 + s + ff / fr


class TimeCtx:
    """document parameters as the specification reads them"""
    def __init__(self, fr_attr=None, frm=None, tr_attr=None):
        self.fr_attr, self.frm, self.tr_attr = fr_attr, frm, tr_attr
        self.fr = F(fr_attr if fr_attr is not None else 30) * (F(*frm) if frm else 1)
        self.tr = F(tr_attr) if tr_attr is not None else (self.fr if fr_attr is not None else F(1))
        # the tick rate comes from ttp:frameRate (TTML2 7.2.11): the shape of the repaired finding tickrate-default
        self.tick_default_differs = tr_attr is None and fr_attr is not None and self.fr != 1


def time_for(rng, ctx, v, allow_tick=True):
    """an abstract time expression whose value is exactly v (a non-negative Fraction), in a random syntax"""
    order = ["s", "ms", "m", "h", "f", "t", "clk", "clkf"]
    rng.shuffle(order)
    for syn in order + ["s"]:
        if syn in ("s", "ms", "m", "h"):
            d = dec_digits(v / METRICS[syn][1])
        elif syn == "f":
            d = dec_digits(v * ctx.fr)
        elif syn == "t":
            if not allow_tick: continue
            d = dec_digits(v * ctx.tr)
        elif syn == "clk":
            sec = v % 60; d = dec_digits(sec)
            if d is None: continue
            tot = int(v) // 60
            hh = digits_of(tot // 60, 2 + (rng.random() < 0.1)); mm = digits_of(tot % 60, 2); ss = digits_of(int(sec), 2)
            fp = d[1] + ([0] if d[1] and rng.random() < 0.1 else [])
            return ("clk", hh, mm[0], mm[1], ss[0], ss[1], fp)
        else:
            whole = int(v); k = (v - whole) * ctx.fr
            if k.denominator != 1 or k >= ctx.fr: continue
            tot = whole // 60
            hh = digits_of(tot // 60, 2); mm = digits_of(tot % 60, 2); ss = digits_of(whole % 60, 2)
            return ("clkf", hh, mm[0], mm[1], ss[0], ss[1], digits_of(int(k), 2 + (rng.random() < 0.1)))
        if d is None: continue
        ip, fp = d
        if rng.random() < 0.08: ip = [0] + ip
        if fp and rng.random() < 0.08: fp = fp + [0]
        if not fp and rng.random() < 0.05: fp = [0]
        return ("off", ip, fp, syn)
    return None


def random_ast(rng):
    """an arbitrary member of the grammar (for the parser tie; values are not on the grid)"""
    rd = lambda n: [rng.randrange(10) for _ in range(n)]
    r = rng.random()
    if r < 0.6:
        return ("off", rd(rng.randint(1, 4)), rd(rng.choice([0, 0, 1, 2, 3])), rng.choice(list(METRICS)))
    if r < 0.8:
        return ("clk", rd(rng.choice([2, 2, 3])), *rd(4), rd(rng.choice([0, 0, 1, 3])))
    return ("clkf", rd(rng.choice([2, 2, 3])), *rd(4), rd(rng.choice([2, 2, 3])))


# ---------------------------------------------------------------------------------------------------------
# the document grammar
def q(ns, local): return f"{{{ns}}}{local}" if ns else local


class DocGen:
    """grammar-based TTML documents for the timing tie.  `table` maps every generated time-attribute string to
    the abstract expression it was printed from."""
    def __init__(self, rng, p_seq=0.2, p_indef_in_seq=0.25, styles=False, p_noncontent=0.0):
        self.rng = rng; self.table = {}; self.ntext = 0
        self.p_noncontent = p_noncontent; self.noncontent = None      # statistics of the interleaved non-content children, if any
        self.p_seq = p_seq; self.p_indef_in_seq = p_indef_in_seq
        self.flags = set()
        rng_ = rng
        fr_attr = rng_.choice([None, None, 24, 25, 30, 50, 60])
        frm = rng_.choice([None, None, None, (1000, 1001), (1, 1), (999, 1000)])
        tr_attr = rng_.choice([None, None, 1, 10, 1000, 90000, 10000000])
        self.ctx = TimeCtx(fr_attr, frm, tr_attr)
        self.allow_tick = True
        self.regions = []; self.style_ids = []

    # -- times
    def grid(self, hi):
        rng = self.rng
        r = rng.random()
        if r < 0.55: u = F(1, 4)
        elif r < 0.8: u = 1 / self.ctx.fr
        elif r < 0.9: u = F(1, 1000) * rng.choice([1, 50, 125])
        else: u = F(1)
        k = rng.randint(0, max(1, int(hi / u))) if u >= F(1, 8) else rng.randint(0, 400)
        return k * u

    def tattr(self, el, name, hi):
        rng = self.rng
        if rng.random() < 0.04:
            a = random_ast(rng)
            if a[0] == "off" and a[3] == "t" and not self.allow_tick: a = ("off", a[1], a[2], "s")
        else:
            a = time_for(rng, self.ctx, self.grid(hi), self.allow_tick)
        s = ast_print(a)
        if a[0] == "off" and a[3] == "t" and self.ctx.tick_default_differs: self.flags.add("tick-default")
        self.table[s] = a
        el.set(name, s)

    def timing(self, el, in_seq=False, definite=False):
        rng = self.rng
        if rng.random() < (0.3 if in_seq else 0.45): self.tattr(el, "begin", 6)
        r = rng.random()
        if definite and r >= 0.55: r = rng.random() * 0.55
        if r < 0.27: self.tattr(el, "end", 14)
        elif r < 0.48: self.tattr(el, "dur", 8)
        elif r < 0.55: self.tattr(el, "end", 14); self.tattr(el, "dur", 8)

    def common(self, el, tag):
        rng = self.rng
        if rng.random() < 0.1: el.set(q(NS_XML, "space"), rng.choice(["preserve", "default"]))
        if rng.random() < 0.08: el.set(q(NS_XML, "lang"), rng.choice(["fr", "de", "", "en-US"]))
        if tag != "br" and self.regions and rng.random() < 0.3:
            el.set("region", rng.choice(self.regions) if rng.random() < 0.93 else "nowhere")
        if tag != "br" and rng.random() < 0.05: el.set(q(NS_TTS, "display"), rng.choice(["none", "auto"]))
        if self.style_ids and rng.random() < 0.2: el.set("style", " ".join(rng.choice(self.style_ids + ["nope"]) for _ in range(rng.randint(1, 2))))

    def text(self):
        self.ntext += 1
        t = f"T{self.ntext}"
        return self.rng.choice([t, t, " " + t, t + " ", "\n    " + t + "\n  "])

    def sets(self, el, in_ruby):
        rng = self.rng
        if in_ruby or rng.random() > 0.15: return
        for _ in range(rng.choice([1, 1, 2])):
            s = et.SubElement(el, q(NS_TT, "set"))
            r = rng.random()
            if r < 0.6: s.set(q(NS_TTS, "display"), rng.choice(["none", "none", "auto"]))
            elif r < 0.8: s.set(q(NS_TTS, "color"), rng.choice(["red", "#00ff00", "blue"]))
            else: s.set(q(NS_TTS, "visibility"), rng.choice(["hidden", "visible"]))
            if el.get("timeContainer") == "seq":
                self.timing(s, True, definite=rng.random() >= self.p_indef_in_seq)
            else:
                self.timing(s)

    def container(self, el, tag, depth, in_ruby=False):
        """timing, attributes and children of a content element"""
        rng = self.rng
        seq = (not in_ruby) and tag != "br" and rng.random() < self.p_seq
        if seq: el.set("timeContainer", "seq")
        elif rng.random() < 0.04: el.set("timeContainer", rng.choice(["par", "par", "bogus"]))
        self.common(el, tag)
        if tag == "br": return
        self.sets(el, in_ruby)
        kids = {"body": ["div"], "div": ["div", "p", "p"], "p": ["span", "span", "br", "#text", "#text", "ruby"],
                "span": ["span", "br", "#text", "#text"]}[tag]
        n = rng.randint(0, 3) if depth < 4 else (rng.randint(0, 2) if depth < 6 else 0)
        if tag in ("p", "span") and n == 0 and rng.random() < 0.7: n = 1
        last = None
        for i in range(n):
            k = rng.choice(kids)
            if depth >= 5 and k in ("div", "span"): k = "p" if tag == "div" else "#text"
            if in_ruby and k in ("ruby", "br"): k = "#text"
            if k == "#text":
                t = self.text()
                if last is None and len(el) == 0: el.text = (el.text or "") + t
                elif len(el): el[-1].tail = (el[-1].tail or "") + t
                else: el.text = (el.text or "") + t
                continue
            if k == "ruby":
                self.ruby(el); continue
            c = et.SubElement(el, q(NS_TT, k))
            if k == "span" and rng.random() < 0.03: c.set(q(NS_TTS, "ruby"), rng.choice(["bogus", "rt", "Container"])); self.flags.add("bad-ruby")
            if not in_ruby:
                definite = seq and (i < n - 1) and rng.random() >= self.p_indef_in_seq
                self.timing(c, seq, definite)
                if seq and i < n - 1 and not (c.get("end") or c.get("dur")): self.flags.add("maybe-seq-indef")
            self.container(c, k, depth + 1, in_ruby)
        if tag in ("div", "body") and rng.random() < 0.15:
            # formatting white space between block elements
            if len(el): el[-1].tail = "\n  "
            el.text = "\n  "

    def rspan(self, parent, role, with_text=True):
        c = et.SubElement(parent, q(NS_TT, "span")); c.set(q(NS_TTS, "ruby"), role)
        if with_text:
            if self.rng.random() < 0.6: c.text = self.text()
            else:
                s = et.SubElement(c, q(NS_TT, "span")); s.text = self.text()
        return c

    def ruby(self, parent):
        rng = self.rng
        r = et.SubElement(parent, q(NS_TT, "span")); r.set(q(NS_TTS, "ruby"), "container")
        if rng.random() < 0.4: self.timing(r)
        shape = rng.choice(["bt", "bptp", "cc", "ccc"])
        if shape == "bt":
            self.rspan(r, "base"); self.rspan(r, "text")
        elif shape == "bptp":
            self.rspan(r, "base"); self.rspan(r, "delimiter"); self.rspan(r, "text"); self.rspan(r, "delimiter")
        else:
            bc = self.rspan(r, "baseContainer", False)
            for _ in range(rng.randint(1, 2)): self.rspan(bc, "base")
            for _ in range(1 if shape == "cc" else 2):
                tc = self.rspan(r, "textContainer", False)
                if rng.random() < 0.3:
                    self.rspan(tc, "delimiter"); self.rspan(tc, "text"); self.rspan(tc, "delimiter")
                else:
                    for _ in range(rng.randint(1, 2)): self.rspan(tc, "text")
        if rng.random() < 0.1: r.tail = self.text()

    def document(self):
        rng = self.rng; ctx = self.ctx
        tt = et.Element(q(NS_TT, "tt"))
        if rng.random() < 0.9: tt.set(q(NS_XML, "lang"), rng.choice(["en", "en", "ja", ""]))
        if rng.random() < 0.1: tt.set(q(NS_XML, "space"), rng.choice(["preserve", "default"]))
        if ctx.fr_attr is not None: tt.set(q(NS_TTP, "frameRate"), str(ctx.fr_attr))
        if ctx.frm is not None: tt.set(q(NS_TTP, "frameRateMultiplier"), f"{ctx.frm[0]} {ctx.frm[1]}")
        if ctx.tr_attr is not None: tt.set(q(NS_TTP, "tickRate"), str(ctx.tr_attr))
        if rng.random() < 0.15: tt.set(q(NS_TTP, "cellResolution"), rng.choice(["40 20", "32 15", "80 24"]))
        if rng.random() < 0.12: tt.set(q(NS_TTS, "extent"), rng.choice(["640px 480px", "1920px 1080px"]))
        if rng.random() < 0.08: tt.set(q(NS_ITTP, "activeArea"), rng.choice(["10% 10% 80% 80%", "0% 0% 100% 100%"]))
        if rng.random() < 0.08: tt.set(q(NS_ITTP, "aspectRatio"), rng.choice(["16 9", "4 3"]))
        if rng.random() < 0.08: tt.set(q(NS_TTP, "displayAspectRatio"), rng.choice(["16 9", "4 3"]))
        nreg = rng.choice([0, 0, 1, 1, 2, 3])
        if nreg or rng.random() < 0.1:
            head = et.SubElement(tt, q(NS_TT, "head"))
            if rng.random() < 0.3:
                sty = et.SubElement(head, q(NS_TT, "styling"))
                for j in range(rng.randint(0, 3)):
                    st = et.SubElement(sty, q(NS_TT, "style")); st.set(q(NS_XML, "id"), f"s{j}"); self.style_ids.append(f"s{j}")
                    st.set(q(NS_TTS, rng.choice(["color", "fontStyle", "textAlign"])), rng.choice(["red", "italic", "center"]))   # wrong pairs are malformed values
                    if j and rng.random() < 0.5: st.set("style", f"s{rng.randrange(j)}")
            lay = et.SubElement(head, q(NS_TT, "layout"))
            for i in range(nreg):
                r = et.SubElement(lay, q(NS_TT, "region")); rid = f"r{i}"
                r.set(q(NS_XML, "id"), rid); self.regions.append(rid)
                if rng.random() < 0.4: self.timing(r)
                if rng.random() < 0.05: r.set(q(NS_TTS, "display"), "none")
                if rng.random() < 0.06: r.set("timeContainer", "seq"); self.flags.add("seq-region")
                self.sets(r, False)
        if rng.random() < 0.97:
            body = et.SubElement(tt, q(NS_TT, "body"))
            if rng.random() < 0.4: self.timing(body)
            self.container(body, "body", 0)
            if self.regions and rng.random() < 0.5: body.set("region", rng.choice(self.regions))      # otherwise most content is in no region
        if rng.random() < self.p_noncontent:
            self.noncontent = NonContentGen(rng, self.text, self.tattr).interleave(tt)
        return tt


# ---------------------------------------------------------------------------------------------------------
# children that are no content elements, interleaved with the content of a generated document (C04: they must be transparent)
CONTENT_LOCALS = ("body", "div", "p", "span", "br", "set", "region")
# what a parent reads among its element children (everything else is ignored by it): names that must not be used as "misplaced" there
MEANINGFUL = {"tt": {"head", "body"}, "head": {"layout", "styling"}, "layout": {"region"}, "styling": {"style", "initial"},
              "region": {"style"}}


class NonContentGen:
    """inserts tt:metadata / ttm:* elements, foreign-namespace and no-namespace elements, tt: elements that are unknown or known only
    elsewhere, comments and processing instructions (as ElementTree presents them when the parser keeps them) at random positions of
    a generated tree, each with its own tail: a part split off the preceding text, fresh text, or none"""
    KINDS = ["tt:metadata", "tt:metadata", "ttm:element", "ttm:agent", "foreign element", "foreign element", "element in no namespace",
             "unknown tt: element", "misplaced tt: element", "comment", "comment", "processing instruction"]

    def __init__(self, rng, text, tattr=None):
        self.rng = rng; self.text = text; self.tattr = tattr; self.nhidden = 0
        self.stats = dict(children=0, by_kind={}, by_parent={}, in_seq_container=0, in_par_container=0, tail_fresh=0, tail_split=0, tail_none=0,
                          tail_text_in_mixed_par=0, before={}, after={}, with_timing_attributes=0, with_hidden_content=0)

    def hidden(self):
        self.nhidden += 1; return f"H{self.nhidden}"

    def attrs(self, e):
        """attributes that would matter on a content element"""
        rng = self.rng; n = 0
        for name in ("begin", "end", "dur"):
            if rng.random() < 0.3:
                if self.tattr is not None: self.tattr(e, name, 8)
                else: e.set(name, rng.choice(["1s", "00:00:02.5", "10f"]))
                n = 1
        if rng.random() < 0.2: e.set(q(NS_XML, "space"), rng.choice(["preserve", "default"]))
        if rng.random() < 0.15: e.set(q(NS_XML, "lang"), "zz")
        if rng.random() < 0.15: e.set("timeContainer", "seq")
        if rng.random() < 0.15: e.set(q(NS_TTS, "color"), "red")
        if rng.random() < 0.1: e.set(q(NS_TTS, "display"), "none")
        if rng.random() < 0.1: e.set("region", "r0")
        self.stats["with_timing_attributes"] += n

    def content(self, e):
        """content elements and text inside: none of it may show"""
        rng = self.rng
        if rng.random() < 0.5: e.text = self.hidden()
        for _ in range(rng.choice([0, 0, 1, 2])):
            c = et.SubElement(e, q(NS_TT, rng.choice(["p", "span", "span", "br", "div", "set"])))
            if rng.random() < 0.6: c.text = self.hidden()
            if rng.random() < 0.4: c.tail = self.hidden()
            if rng.random() < 0.3: c.set("dur", "1s")
        if e.text is not None or len(e): self.stats["with_hidden_content"] += 1

    def make(self, parent_local):
        rng = self.rng; kind = rng.choice(self.KINDS)
        if kind == "tt:metadata":
            e = et.Element(q(NS_TT, "metadata"))
            for _ in range(rng.choice([0, 1, 1, 2])):
                c = et.SubElement(e, q(NS_TTM, rng.choice(["title", "desc", "copyright"]))); c.text = self.hidden()
                if rng.random() < 0.3: c.tail = "\n  "
            if rng.random() < 0.2: self.content(e)
            if rng.random() < 0.3: self.attrs(e)
        elif kind == "ttm:element":
            e = et.Element(q(NS_TTM, rng.choice(["title", "desc", "copyright"]))); e.text = self.hidden()
            if rng.random() < 0.2: self.attrs(e)
        elif kind == "ttm:agent":
            e = et.Element(q(NS_TTM, "agent")); e.set("type", "person"); e.set(q(NS_XML, "id"), "a1")
            c = et.SubElement(e, q(NS_TTM, "name")); c.text = self.hidden(); c.set("type", "full")
            if rng.random() < 0.5:
                c.tail = self.hidden(); a = et.SubElement(e, q(NS_TTM, "actor")); a.set("agent", "a1")
        elif kind == "foreign element":
            e = et.Element(q(NS_FOREIGN, rng.choice(["x", "p", "span", "metadata", "br"])))
            if rng.random() < 0.5: self.attrs(e)
            if rng.random() < 0.5: self.content(e)
        elif kind == "element in no namespace":
            e = et.Element(rng.choice(["x", "p", "span"]))
            if rng.random() < 0.4: self.attrs(e)
            if rng.random() < 0.4: self.content(e)
        elif kind == "unknown tt: element":
            e = et.Element(q(NS_TT, rng.choice(["foo", "animate", "image", "audio", "resources", "Span", "P"])))
            if rng.random() < 0.5: self.attrs(e)
            if rng.random() < 0.4: self.content(e)
        elif kind == "misplaced tt: element":
            names = [x for x in ("head", "layout", "styling", "style", "initial", "tt") if x not in MEANINGFUL.get(parent_local, set())]
            e = et.Element(q(NS_TT, rng.choice(names)))
            if rng.random() < 0.4: self.attrs(e)
            if rng.random() < 0.4: self.content(e)
        elif kind == "comment":
            e = et.Comment(" " + self.hidden() + " ")
        else:
            e = et.ProcessingInstruction("target", self.hidden())
        return e, kind

    @staticmethod
    def category(c):
        if c is None: return "(none)"
        if not isinstance(c.tag, str): return "non-content"
        if not c.tag.startswith("{" + NS_TT + "}"): return "non-content"
        l = _local(c)
        return l if l in CONTENT_LOCALS else "non-content"

    def insert(self, el):
        rng = self.rng; st = self.stats
        local = _local(el); i = rng.randint(0, len(el))
        nc, kind = self.make(local)
        prev = el[i - 1] if i > 0 else None; nxt = el[i] if i < len(el) else None
        holder_text = el.text if prev is None else prev.tail
        r = rng.random()
        if r < 0.35 and holder_text is not None and len(holder_text) >= 2:
            j = rng.randint(1, len(holder_text) - 1)
            if prev is None: el.text = holder_text[:j]
            else: prev.tail = holder_text[:j]
            nc.tail = holder_text[j:]; st["tail_split"] += 1
        elif r < 0.85:
            nc.tail = self.text(); st["tail_fresh"] += 1
        else:
            st["tail_none"] += 1
        el.insert(i, nc)
        bump = lambda d, k: d.__setitem__(k, d.get(k, 0) + 1)
        st["children"] += 1; bump(st["by_kind"], kind)
        role = el.get(q(NS_TTS, "ruby"))
        bump(st["by_parent"], local + (f"[{role}]" if local == "span" and role else ""))
        seq = el.get("timeContainer") == "seq"
        st["in_seq_container" if seq else "in_par_container"] += 1
        mixed = local == "p" or (local == "span" and ruby_mixed(el))
        if nc.tail is not None and mixed and not seq: st["tail_text_in_mixed_par"] += 1
        bump(st["after"], self.category(prev)); bump(st["before"], self.category(nxt))

    def interleave(self, tt):
        rng = self.rng
        sites = []
        for e in tt.iter():
            if not (isinstance(e.tag, str) and e.tag.startswith("{" + NS_TT + "}")): continue
            l = _local(e)
            w = {"p": 5, "span": 5, "div": 2, "body": 2, "region": 2, "br": 1, "set": 1, "tt": 1, "head": 1, "layout": 1, "styling": 1, "style": 1, "initial": 1}.get(l, 0)
            sites += [e] * w
        if not sites: return self.stats
        for _ in range(rng.choice([1, 2, 3, 3, 4, 6, 9])):
            self.insert(rng.choice(sites))
        return self.stats


def merge_stats(total, st):
    for k, v in st.items():
        if isinstance(v, dict):
            d = total.setdefault(k, {})
            for a, b in v.items(): d[a] = d.get(a, 0) + b
        else:
            total[k] = total.get(k, 0) + v
    return total


# ---------------------------------------------------------------------------------------------------------
# Python mirror of Spec/TtmlTimingSpec.v interval (probe-time selection only)
def _local(e): return e.tag.split("}")[1] if isinstance(e.tag, str) and "}" in e.tag else e.tag

RUBY_MIXED = {None: True, "base": True, "text": True, "delimiter": True, "container": False, "baseContainer": False, "textContainer": False}


def ruby_mixed(e):
    """is_mixed of the class a span is read as; a tts:ruby value that is not one of the six keywords is ignored (plain span)"""
    return RUBY_MIXED.get(e.get(q(NS_TTS, "ruby")), True)


def mirror_boundaries(tt, table, ctx):
    """absolute begin/end times of all timed elements per the specification (used to pick probe times)"""
    tv = lambda s: None if s is None or s not in table else ast_value(table[s], ctx.fr, ctx.tr)
    out = set()

    def known(e):
        if not (isinstance(e.tag, str) and e.tag.startswith("{" + NS_TT + "}")): return False
        l = _local(e)
        if l == "span": return True
        if l == "region": return e.get(q(NS_XML, "id")) is not None
        return l in ("body", "div", "p", "br", "set")

    def interval(pseq, sync, e):
        b = sync + (tv(e.get("begin")) or 0)
        l = _local(e); atomic = l in ("br", "set", "region")
        mixed = l == "p" or (l == "span" and ruby_mixed(e))
        seq = e.get("timeContainer") == "seq"
        if atomic and not pseq: idur = None
        elif l == "set": idur = F(0)
        elif seq:
            cur = F(0)
            for c in e:
                if not known(c): continue
                ce = interval(True, cur, c)[1]
                if ce is None: cur = None; break
                cur = ce
            idur = cur
        else:
            acc = None if (mixed and e.text is not None) else F(0)
            for c in e:
                if known(c):
                    ce = interval(False, F(0), c)[1]
                    acc = None if (acc is None or ce is None) else max(acc, ce)
                if mixed and c.tail is not None: acc = None
            idur = acc
        d, en = tv(e.get("dur")), tv(e.get("end"))
        if d is not None and en is not None: end = min(b + d, sync + en)
        elif d is not None: end = b + d
        elif en is not None: end = sync + en
        else: end = None if idur is None else b + idur
        return b, end

    def walk(e, pseq, sync, pb):
        b, en = interval(pseq, sync, e)
        out.add(pb + b)
        if en is not None: out.add(pb + en)
        seq = e.get("timeContainer") == "seq"; cur = F(0)
        if _local(e) == "set": return
        for c in e:
            if not known(c): continue
            if cur is None: break
            walk(c, seq, cur if seq else F(0), pb + b)
            if seq: cur = interval(True, cur, c)[1]

    for r in tt.iter(q(NS_TT, "region")):
        if known(r): walk(r, False, F(0), F(0))
    body = tt.find(q(NS_TT, "body"))
    if body is not None: walk(body, False, F(0), F(0))
    return out


def probe_times(tt, table, ctx, doc, rng, cap=24):
    import ttconv.isd as I
    ts = set(mirror_boundaries(tt, table, ctx))
    try:
        ts |= set(I.ISD.significant_times(doc))
    except Exception:
        pass
    ts = sorted(t for t in ts if t >= 0)
    if not ts: ts = [F(0)]
    pts = set(ts) | {(a + b) / 2 for a, b in zip(ts, ts[1:])} | {ts[-1] + 1, F(0)}
    pts = sorted(pts)
    if len(pts) > cap:
        keep = set(rng.sample(pts, cap - 2)) | {pts[0], pts[-1]}
        pts = sorted(keep)
    return pts


# ---------------------------------------------------------------------------------------------------------
# style documents: style graphs (chains, diamonds, missing and duplicate ids, rare loops), nested styles of regions, initial
# elements, inline attributes; every value comes from a table of well-formed / malformed strings per attribute
PROP_VALUES = {
    # colours: the tolerant grammar of Spec/TtmlColorSpec.v on the left; on the right what parse_color accepted before its repair (trailing
    # characters, components above 255, digits outside ASCII) and the other near misses
    (NS_TTS, "backgroundColor"): (["red", "#00ff00", "#0000ff80", "rgb(1,2,3)", "rgba(1,2,3,4)", "transparent", "Blue", "rgba( 1,2 , 3 ,\t4 )", "#FFffFF", "rgb(007,0,255)"],
                                  ["notacolor", "#12", "rgb(1,2)", "#ff0000x", "#ff0000800", "rgb(1,2,256)", "rgb(1,2,3) ", "rgba(1 ,2,3,4)", "rgb(\u0661,2,3)", " red", "rgba(1,2,3,4)x"]),
    (NS_TTS, "color"): (["white", "#ffff00", "#ff000080", "rgb(10, 20, 30)", "lime", "rgb( 255 ,255,\n0 )", "BLAC\u212a", "#ABCDEF12"],
                        ["notacolor", "#ggg", "#ffff00f", "rgb(300,0,0)", "rgba(0,0,0,\uff12)", "red;", "rgb(1,2,3)\n", "rgb(1,\u00a02,3)", "#ffff00 ", "rgba(1,2,3,999)"]),
    (NS_TTS, "direction"): (["ltr", "rtl"], ["up"]),
    (NS_TTS, "disparity"): (["1px", "-2%", "0.5em"], ["1", "x"]),
    (NS_TTS, "display"): (["auto", "auto", "none"], ["block"]),
    (NS_TTS, "displayAlign"): (["before", "center", "after"], ["middle"]),
    (NS_TTS, "extent"): (["50% 20%", "640px 480px", "10c 2c", "auto", "1rw 1rh"], ["50%", "a b", "1em 1em"]),
    (NS_ITTS, "fillLineGap"): (["true", "false"], ["yes", "TRUE", "1"]),
    (NS_TTS, "fontFamily"): (["Arial", "monospaceSerif, Arial", "\"Times New Roman\"", "default", "sansSerif", "A", "B, sansSerif"], [""]),
    (NS_TTS, "fontSize"): (["100%", "1c", "16px", "1.5em", "2rh"], ["big", "12"]),
    (NS_TTS, "fontStyle"): (["normal", "italic", "oblique"], ["slanted"]),
    (NS_TTS, "fontWeight"): (["normal", "bold"], ["heavy"]),
    (NS_TTS, "lineHeight"): (["normal", "125%", "1.2em", "20px"], ["tall"]),
    (NS_EBUTTS, "linePadding"): (["0.5c", "1c"], ["1px", "x"]),
    (NS_TTS, "luminanceGain"): (["1.0", "0.5", "2"], ["bright"]),
    (NS_EBUTTS, "multiRowAlign"): (["start", "center", "end", "auto"], ["left"]),
    (NS_TTS, "opacity"): (["1.0", "0.5", "0"], ["opaque"]),
    (NS_TTS, "origin"): (["10% 10%", "0px 0px", "auto", "2c 3c"], ["10%", "1em 1em"]),
    (NS_TTS, "overflow"): (["visible", "hidden"], ["scroll"]),
    (NS_TTS, "padding"): (["1c", "1% 2%", "1px 2px 3px", "1px 2px 3px 4px"], ["1", "1px 2px 3px 4px 5px"]),
    (NS_TTS, "position"): (["center", "left top", "10% 20%", "right 10px bottom 5%", "top"], ["10", " "]),
    (NS_TTS, "rubyAlign"): (["center", "spaceAround"], ["left"]),
    (NS_TTS, "rubyPosition"): (["before", "after", "outside"], ["under"]),
    (NS_TTS, "rubyReserve"): (["none", "both", "before 1em", "outside 50%"], ["x", "both 1"]),
    (NS_TTS, "shear"): (["0%", "16.67%", "-10%"], ["10", "1em"]),
    (NS_TTS, "showBackground"): (["always", "whenActive"], ["never"]),
    (NS_TTS, "textAlign"): (["start", "center", "end", "left", "right"], ["justify"]),
    (NS_TTS, "textCombine"): (["none", "all"], ["some"]),
    (NS_TTS, "textDecoration"): (["none", "underline", "noUnderline lineThrough", "overline noLineThrough"], ["blink", "underline blink", "under line"]),
    (NS_TTS, "textEmphasis"): (["none", "auto", "filled circle", "open dot before", "sesame red after", "filled"], ["x y"]),
    (NS_TTS, "textOutline"): (["none", "1px", "red 2px", "#00ff00 10%"], ["red", "1px red"]),
    (NS_TTS, "textShadow"): (["none", "1px 1px", "1px 1px 2px", "1px 1px red", "1px 1px 2px red", "1px 1px,2px 2px", "1px 1px, 2px 2px", "1px 1px 2px red , 2em 2em"], ["1px", "1px 1px,"]),
    (NS_TTS, "unicodeBidi"): (["normal", "embed", "bidiOverride"], ["isolate"]),
    (NS_TTS, "visibility"): (["visible", "hidden"], ["collapse"]),
    (NS_TTS, "wrapOption"): (["wrap", "noWrap"], ["nowrap"]),
    (NS_TTS, "writingMode"): (["lrtb", "rltb", "tbrl", "tblr", "lr", "rl", "tb"], ["bt"]),
}
# values that parse but that the model rejects (ValueError of set_style: logged and ignored wherever the attribute stands; in a referenced
# or nested <style> that used to abort the read - the repaired finding style-invalid-value-abort)
MODEL_INVALID = {((NS_TTS, "extent"), "1em 1em"), ((NS_TTS, "origin"), "1em 1em")}


class StyleDocGen:
    def __init__(self, rng, p_bad=0.08, p_noncontent=0.0):
        self.rng = rng; self.p_bad = p_bad; self.graph_depth = 0; self.forward_refs = 0
        self.p_noncontent = p_noncontent; self.noncontent = None
        self.wf = {}; self.flags = set(); self.ntext = 0; self.regions = []; self.ids = []
        self.keys = sorted(PROP_VALUES)

    # a few properties with many distinct values: styles that draw from this pool conflict along different reference paths, so that
    # the precedence among chained references is observable
    CONFLICT = {(NS_TTS, "color"): ["#010101", "#020202", "#030303", "#040404", "#050505", "#060606", "#070707", "#080808"],
                (NS_TTS, "backgroundColor"): ["#100000", "#200000", "#300000", "#400000", "#500000", "#600000"],
                (NS_TTS, "fontSize"): ["10px", "20px", "30px", "40px", "50px", "60px"],
                (NS_TTS, "lineHeight"): ["110%", "120%", "130%", "140%", "150%"],
                (NS_TTS, "textAlign"): ["start", "center", "end"]}

    def put(self, el, n, in_style=False, pool=None):
        rng = self.rng
        keys = self.keys if pool is None else sorted(pool)
        for key in rng.sample(keys, min(n, len(keys))):
            good, bad = PROP_VALUES[key]
            if pool is not None and rng.random() < 0.9: good = pool[key]
            if bad and rng.random() < self.p_bad:
                v = rng.choice(bad); ok = False
                if (key, v) in MODEL_INVALID and in_style: self.flags.add("style-invalid-value")
            else:
                v = rng.choice(good); ok = True
                if key == (NS_TTS, "textShadow") and ", " in v: self.flags.add("textshadow-comma-space")
            name = q(*key)
            el.set(name, v); self.wf[(name, v)] = ok
        if in_style and rng.random() < 0.06:
            # a value that parses but that the model rejects, in a referenced or nested <style> (the repaired finding style-invalid-value-abort)
            name = q(NS_TTS, rng.choice(["extent", "origin"])); el.set(name, "1em 1em"); self.wf[(name, "1em 1em")] = False
            self.flags.add("style-invalid-value")

    def count(self):
        rng = self.rng; n = 0
        while rng.random() < 0.45 and n < 5: n += 1
        return n

    def refs(self, el, p=0.35):
        rng = self.rng
        if not self.ids or rng.random() > p: return
        pool = self.ids + (["nope"] if rng.random() < 0.15 else [])
        el.set("style", " ".join(rng.choice(pool) for _ in range(rng.randint(1, 3))))

    def text(self):
        self.ntext += 1; return f"T{self.ntext}"

    def content(self, el, tag, depth):
        rng = self.rng
        if rng.random() < 0.4: self.put(el, self.count())
        self.refs(el)
        if self.regions and tag != "br" and rng.random() < 0.2: el.set("region", rng.choice(self.regions))
        if tag == "br": return
        if tag in ("p", "span"):
            el.text = self.text()
            for _ in range(rng.randint(0, 2) if depth < 4 else 0):
                k = rng.choice(["span", "span", "br"])
                c = et.SubElement(el, q(NS_TT, k)); self.content(c, k, depth + 1)
                if rng.random() < 0.5: c.tail = self.text()
            return
        kids = {"body": ["div"], "div": ["p", "p", "div"]}[tag]
        for _ in range(rng.randint(1, 3)):
            k = rng.choice(kids)
            if depth >= 3: k = "p" if tag == "div" else "div"
            c = et.SubElement(el, q(NS_TT, k)); self.content(c, k, depth + 1)
        if tag == "div" and not any(_local(c) == "p" for c in el.iter() if c is not el):
            c = et.SubElement(el, q(NS_TT, "p")); self.content(c, "p", depth + 1)

    def document(self):
        rng = self.rng
        tt = et.Element(q(NS_TT, "tt")); tt.set(q(NS_XML, "lang"), "en")
        head = et.SubElement(tt, q(NS_TT, "head"))
        styling = et.SubElement(head, q(NS_TT, "styling"))
        for _ in range(rng.choice([0, 0, 1, 2])):
            self.put(et.SubElement(styling, q(NS_TT, "initial")), rng.randint(1, 3))
        # the style graph: a DAG with respect to a hidden random order (depth up to 4 and more, diamonds), declared in an order that is
        # independent of it: a style may be declared before or after the styles it references; rarely arbitrary references (loops)
        nst = rng.choice([0, 1, 2, 3, 4, 5, 6, 8])
        names = [f"s{i}" for i in range(nst)]
        hidden = list(names); rng.shuffle(hidden)
        rank = {n_: k for k, n_ in enumerate(hidden)}
        conflict = rng.random() < 0.7
        depth = {}
        for name in reversed(hidden):
            later = hidden[rank[name] + 1:]
            refs = []
            if later and rng.random() < 0.75:
                refs = [rng.choice(later) for _ in range(rng.choice([1, 1, 2, 2, 3]))]
                if rng.random() < 0.08: refs.insert(rng.randrange(len(refs) + 1), "missing")
            if names and rng.random() < 0.04: refs.append(rng.choice(names)); self.flags.add("maybe-loop")
            depth[name] = (refs, 1 + max([depth[r][1] for r in refs if r in depth] or [0]) if not any(r == name for r in refs) else 1)
        self.graph_depth = max([d for _, d in depth.values()] or [0])
        self.forward_refs = 0
        for i, name in enumerate(names):
            st = et.SubElement(styling, q(NS_TT, "style"))
            r = rng.random()
            if r < 0.92: st.set(q(NS_XML, "id"), name)
            elif r < 0.96 and i: st.set(q(NS_XML, "id"), names[rng.randrange(i)])      # duplicate id
            if conflict: self.put(st, rng.randint(1, 3), in_style=True, pool=self.CONFLICT)
            if not conflict or rng.random() < 0.3: self.put(st, self.count(), in_style=True)
            refs = depth[name][0]
            if refs:
                st.set("style", " ".join(refs))
                self.forward_refs += sum(1 for x in refs if x in names and names.index(x) > i)
        self.ids = names
        lay = et.SubElement(head, q(NS_TT, "layout"))
        for i in range(rng.choice([0, 1, 2, 3])):
            r = et.SubElement(lay, q(NS_TT, "region")); r.set(q(NS_XML, "id"), f"r{i}"); self.regions.append(f"r{i}")
            for _ in range(rng.choice([0, 0, 1, 2])):
                self.put(et.SubElement(r, q(NS_TT, "style")), rng.randint(1, 3), in_style=True)
            if rng.random() < 0.5: self.put(r, self.count())
            self.refs(r, 0.4)
            if rng.random() < 0.15:
                # the shape of the repaired finding seq-region-break-hides-nested-style: a sequential region, a child that never ends (outside
                # the content model of region), and nested styles after it (and, when non-content children are interleaved, one of them between)
                r.set("timeContainer", "seq")
                c = et.Element(q(NS_TT, rng.choice(["p", "span", "div"])))
                if _local(c) == "div": et.SubElement(c, q(NS_TT, "br"))
                else: c.text = self.text()
                i = rng.randint(0, len(r)); r.insert(i, c)
                if rng.random() < 0.7:
                    # a child that is no nested style right after it: the reader used to leave the loop there
                    b = rng.choice([lambda: et.Element(q(NS_TT, "metadata")), lambda: et.Comment(" c "), lambda: et.Element(q(NS_FOREIGN, "x")),
                                    lambda: et.Element(q(NS_TT, "p")), lambda: et.Element(q(NS_TT, "set"), {q(NS_TTS, "opacity"): "0.5"})])()
                    r.insert(i + 1, b); self.flags.add("seq-region-nested-style-hidden")
                for _ in range(rng.choice([1, 1, 2])):
                    self.put(et.SubElement(r, q(NS_TT, "style")), rng.randint(1, 2), in_style=True)
                self.flags.add("seq-region-nested-style")
        body = et.SubElement(tt, q(NS_TT, "body")); self.content(body, "body", 0)
        if rng.random() < self.p_noncontent:
            self.noncontent = NonContentGen(rng, self.text).interleave(tt)
        return tt


def style_observation(tt, doc):
    """the code's specified styles for the regions and the body elements in document order, and the initial values; None when the
    model tree does not mirror the XML tree (reported by the caller)"""
    import ttconv.model as m
    out = []
    for r in tt.iter(q(NS_TT, "region")):
        rid = r.get(q(NS_XML, "id"))
        if rid is None: continue
        mr = doc.get_region(rid)
        if mr is None: return None
        out.append(mr)
    def known(e):
        if not (isinstance(e.tag, str) and e.tag.startswith("{" + NS_TT + "}")): return False
        l = _local(e)
        if l == "span": return True
        return l in ("body", "div", "p", "br")
    def mixed(e):
        l = _local(e)
        return l == "p" or (l == "span" and ruby_mixed(e))
    ok = [True]
    def walk(x, me):
        out.append(me)
        seq = []
        if mixed(x) and x.text is not None: seq.append(None)
        for c in x:
            if known(c): seq.append(c)
            if mixed(x) and c.tail is not None: seq.append(None)
        kids = list(me)
        if len(kids) != len(seq): ok[0] = False; return
        for c, mk in zip(seq, kids):
            if c is not None: walk(c, mk)
    body = tt.find(q(NS_TT, "body"))
    if body is not None:
        if doc.get_body() is None: return None
        walk(body, doc.get_body())
    return out if ok[0] else None


# ---------------------------------------------------------------------------------------------------------
# colour expressions: derivation trees of Spec/TtmlColorSpec.v (and trees just outside its grammar), their yields, and mutations of
# the yields - trailing and leading characters, components above 255, digits and white space outside ASCII, inner white space,
# "#" with the wrong number of digits.  Used by the colour stream of C04 and the extract stream of C05.
TTML_NAMED_COLORS = ["transparent", "black", "silver", "gray", "white", "maroon", "red", "purple", "fuchsia", "magenta", "green", "lime",
                     "olive", "yellow", "navy", "blue", "teal", "aqua", "cyan"]                 # TTML2 <named-color>
ASCII_WS = [" ", "\t", "\n", "\r", "\f", "\v"]
OTHER_WS = [" ", " ", "\x1c", "\x1f", "\x85", "　", " "]                   # \s without re.ASCII
OTHER_DIGITS = ["١", "٢٥", "１２", "१", "1٣", "٣" "0", "²", "১২"]   # \d without re.ASCII (and a superscript)
_WS = "[ \\t\\n\\r\\f\\v]*"
_COLOR_HEX = re.compile(r"#[0-9a-fA-F]{6}(?:[0-9a-fA-F]{2})?\Z")
_COLOR_RGB = re.compile(rf"rgb\({_WS}([0-9]+){_WS},{_WS}([0-9]+){_WS},{_WS}([0-9]+){_WS}\)\Z")
_COLOR_RGBA = re.compile(rf"rgba\({_WS}([0-9]+),{_WS}([0-9]+){_WS},{_WS}([0-9]+){_WS},{_WS}([0-9]+){_WS}\)\Z")


def _small(digits):
    """the decimal number is at most 255 (decided on the digits, without int(): the number may have thousands of digits)"""
    d = digits.lstrip("0")
    return len(digits) <= 4300 and len(d) <= 3 and (d == "" or int(d) <= 255)      # 4300: the platform's limit on int(), see the spec


def color_in_grammar(s):
    """independent recogniser of the tolerant colour grammar of Spec/TtmlColorSpec.v (harness-side judge of mutated strings)"""
    for n in TTML_NAMED_COLORS:
        if len(s) == len(n) and all(c == k or c == chr(ord(k) - 32) or (k == "k" and c == "K") for c, k in zip(s, n)): return True
    if _COLOR_HEX.match(s): return True
    m = _COLOR_RGB.match(s) or _COLOR_RGBA.match(s)
    return bool(m) and all(_small(g) for g in m.groups())


class ColorGen:
    """sample() -> (tree literal or None, string, set of categories)"""
    def __init__(self, rng):
        self.rng = rng

    def ws(self, cats):
        r = self.rng.random()
        if r < 0.55: return ""
        if r < 0.82: w = self.rng.choice(ASCII_WS)
        elif r < 0.96: w = "".join(self.rng.choice(ASCII_WS) for _ in range(self.rng.randrange(2, 5)))
        else:
            cats.add("white space outside ASCII"); return self.rng.choice(OTHER_WS)
        cats.add("inner white space"); return w

    def digits(self, cats):
        rng = self.rng; r = rng.random()
        if r < 0.66: return str(rng.randrange(256))
        if r < 0.72: return str(rng.choice([0, 255, 128, 1]))
        if r < 0.81:
            cats.add("component above 255")
            return str(rng.choice([256, 256, 256, 257, 300, 999, 1000, 65535, 2 ** 32, 10 ** 20 + rng.randrange(1000), 256 + rng.randrange(10000)]))
        if r < 0.86:
            cats.add("leading zeros"); return "0" * rng.randrange(1, 5) + str(rng.randrange(300))
        if r < 0.92:
            cats.add("digits outside ASCII"); return rng.choice(OTHER_DIGITS)
        if r < 0.945:
            cats.add("empty component"); return ""
        if r < 0.95:
            cats.add("component of 4300 digits or more"); return rng.choice(["1", "0"]) * rng.choice([4300, 4301, 5000]) + rng.choice(["", "7"])
        cats.add("component that is no number"); return rng.choice(["-1", "+1", "1.0", "1e1", "0x10", "1_0", "a", "1 2", "255%"])

    def comp(self, cats, post=True):
        pre = self.ws(cats); d = self.digits(cats); po = self.ws(cats) if post else ""
        return f"(Cp {C.text(pre)} {C.text(d)} {C.text(po)})", pre + d + po

    def sample(self):
        rng = self.rng; cats = set(); r = rng.random()
        if r < 0.2:
            import ttconv.style_properties as s
            n = rng.choice(list(s.NamedColors.__members__) + ["black"] * 3)
            k = rng.random()
            if k < 0.3: sp = n
            elif k < 0.45: sp = n.upper(); cats.add("name in other letter case")
            elif k < 0.6: sp = "".join(c.upper() if rng.random() < 0.5 else c for c in n); cats.add("name in other letter case")
            elif k < 0.7: sp = n.replace("k", "K").replace("K", "K") if "k" in n else n.title(); cats.add("KELVIN SIGN" if "k" in n else "name in other letter case")
            elif k < 0.8: sp = n.replace("i", rng.choice(["İ", "ı"])) if "i" in n else n + "̇"; cats.add("name with a letter outside ASCII")
            else:
                sp = rng.choice([n + "x", n[:-1], " " + n, n + " ", "grey", "orange", "", n + n, "dark" + n, n.replace("e", "3"), "ｒｅｄ"]); cats.add("no colour name")
            tree, st = f"(CN {C.text(sp)})", sp
        elif r < 0.5:
            n = 8 if rng.random() < 0.4 else 6
            ds = [rng.choice("0123456789abcdefABCDEF") for _ in range(n)]
            if rng.random() < 0.15:
                ds[rng.randrange(n)] = rng.choice(["g", "G", "x", " ", "１", "١", "-", "."]); cats.add("no hexadecimal digit")
            pairs = [f"({ord(ds[i])},{ord(ds[i + 1])})" for i in range(0, n, 2)]
            tree, st = f"({'CH6' if n == 6 else 'CH8'} {' '.join(pairs)})", "#" + "".join(ds)
            if rng.random() < 0.2:
                k = rng.choice([0, 1, 2, 3, 4, 5, 7, 9, 10, 12]); st = "#" + "".join(rng.choice("0123456789abcdefABCDEF") for _ in range(k)); tree = None
                cats.add("# with other than 6 or 8 digits")
        elif r < 0.75:
            a, b, c = self.comp(cats), self.comp(cats), self.comp(cats)
            tree, st = f"(CRgb {a[0]} {b[0]} {c[0]})", f"rgb({a[1]},{b[1]},{c[1]})"
        else:
            lead = rng.random() < 0.12
            a, b, c, d = self.comp(cats, post=lead), self.comp(cats), self.comp(cats), self.comp(cats)
            if lead and a[0].endswith("[])"): lead = False
            if lead: cats.add("white space before the first comma of rgba()")
            tree, st = f"(CRgba {a[0]} {b[0]} {c[0]} {d[0]})", f"rgba({a[1]},{b[1]},{c[1]},{d[1]})"
        if rng.random() < 0.3:
            tree = None; k = rng.random()
            if k < 0.4:
                st = st + rng.choice([" ", "x", "0", "\n", ")", ";", "ff", " 1px", " ", "\t", "00", ",", "\r\n"]); cats.add("trailing characters")
            elif k < 0.55:
                st = rng.choice([" ", "\n", "x", "#", "0"]) + st; cats.add("leading characters")
            elif k < 0.8 and st:
                j = rng.randrange(len(st)); st = st[:j] + rng.choice("0123456789 ,()#abcfx\t٣５") + st[j + (rng.random() < 0.5):]; cats.add("character inserted or replaced")
            elif st:
                j = rng.randrange(len(st)); st = st[:j] + st[j + 1:]; cats.add("character deleted")
        return tree, st, cats
