"""Witnesses of the findings recorded for C11 (findings_proposed/C11.txt).  Each returns None when the property
holds on the witness and a string describing the failure otherwise; they are expected to fail while the
finding stands (the check then prints KNOWN-FINDING for them)."""
import io
from fractions import Fraction
from witnesses import witness


def _read(txt):
    import ttconv.vtt.reader as r
    return r.to_model(io.StringIO(txt))

def _region(doc, i=0):
    import ttconv.style_properties as s
    r = list(doc.iter_regions())[i]
    o = r.get_style(s.StyleProperties.Origin); e = r.get_style(s.StyleProperties.Extent)
    return o.x.value, o.y.value, e.width.value, e.height.value

def _inside(x, y, w, h, eps=1e-9):
    return w >= -eps and h >= -eps and x >= -eps and y >= -eps and x + w <= 100 + eps and y + h <= 100 + eps

def _p(doc, i=0):
    return list(list(doc.get_body())[0])[i]

def _texts(e, bold=False, begin=Fraction(0)):
    """(text, bold, absolute begin) of every text node under e"""
    import ttconv.model as m, ttconv.style_properties as s
    out = []
    for c in e:
        if isinstance(c, m.Text): out.append((c.get_text(), bold, begin))
        elif not isinstance(c, m.Br):
            b = bold or c.get_style(s.StyleProperties.FontWeight) is s.FontWeightType.bold
            out += _texts(c, b, begin + (c.get_begin() or 0))
    return out


@witness("C11", "region-not-clamped")
def _():
    g = _region(_read("WEBVTT\n\n00:01.000 --> 00:02.000 size:100%\nx\n"))
    if not _inside(*g): return f"size:100% -> region x,y,w,h = {g} leaves the root container"

@witness("C11", "line-number-nonpositive")
def _():
    g = _region(_read("WEBVTT\n\n00:01.000 --> 00:02.000 line:-1\nx\n"))
    if not _inside(*g): return f"line:-1 -> region x,y,w,h = {g}"

@witness("C11", "vertical-line-center")
def _():
    g = _region(_read("WEBVTT\n\n00:01.000 --> 00:02.000 vertical:lr line:30%,center\nx\n"))
    if not _inside(*g): return f"vertical:lr line:30%,center -> region x,y,w,h = {g}"

@witness("C11", "annotation-charref-alias")
def _():
    from ttconv.vtt.tokenizer import CueTextTokenizer, StartTagToken
    ts = list(CueTextTokenizer("<v Tom &amp; Jerry>hi"))
    if not (ts and isinstance(ts[0], StartTagToken) and ts[0].annotation == "Tom & Jerry"):
        return f"tokens of '<v Tom &amp; Jerry>hi': {[(type(t).__name__, t.__dict__) for t in ts]}"

@witness("C11", "timestamp-span-nesting")
def _():
    d = _read("WEBVTT\n\n00:10.000 --> 00:20.000\n<00:12.000>a<00:15.000>b\n")
    p = _p(d); got = [(t, p.get_begin() + b) for t, _, b in _texts(p)]
    if got != [("a", Fraction(12)), ("b", Fraction(15))]: return f"absolute begins {got}, expected a@12 b@15"
    d = _read("WEBVTT\n\n00:10.000 --> 00:20.000\n<b>a<00:12.000>b</b>c\n")
    got = [(t, b) for t, b, _ in _texts(_p(d))]
    if got != [("a", True), ("b", True), ("c", False)]: return f"bold flags {got}"

@witness("C11", "charref-legacy-names-only")
def _():
    d = _read("WEBVTT\n\n00:01.000 --> 00:02.000\na&lrm;b\n")
    t = "".join(x for x, _, _ in _texts(_p(d)))
    if t != "a‎b": return f"text {t!r}, expected 'a\\u200eb'"

@witness("C11", "ruby-structure")
def _():
    try:
        _read("WEBVTT\n\n00:01.000 --> 00:02.000\n<b><ruby>a<rt>b</rt></ruby></b>\n")
    except Exception as e:
        return f"<b><ruby>a<rt>b</rt></ruby></b> raises {type(e).__name__}"

# ---- repaired in /repo (fixed: entries of KNOWN_FINDINGS.txt): these two must PASS
@witness("C11", "cue-without-payload")
def _():
    cases = {"first cue": ("WEBVTT\n\n00:01.000 --> 00:02.000\n\n00:03.000 --> 00:04.000\nx\n", [(3, 4, "x")]),
             "at end of file": ("WEBVTT\n\n00:01.000 --> 00:02.000\nx\n\n00:03.000 --> 00:04.000\n", [(1, 2, "x")]),
             "after a cue (no stale text)": ("WEBVTT\n\n00:01.000 --> 00:02.000\n<b>first</b>\n\n00:03.000 --> 00:04.000 line:0\n\n00:05.000 --> 00:06.000\nthird\n",
                                             [(1, 2, "first"), (5, 6, "third")]),
             "only cue": ("WEBVTT\n\n00:01.000 --> 00:02.000\n\n", [])}
    for name, (txt, want) in cases.items():
        try:
            d = _read(txt)
        except Exception as e:
            return f"cue without payload ({name}) raises {type(e).__name__}"
        got = [(p.get_begin(), p.get_end(), "".join(t for t, _, _ in _texts(p))) for p in list(d.get_body())[0]]
        if got != [(Fraction(b), Fraction(e), t) for b, e, t in want]:
            return f"cue without payload ({name}): paragraphs {got}, expected {want}"

@witness("C11", "empty-file")
def _():
    try:
        d = _read("")
    except Exception as e:
        return f"empty file raises {type(e).__name__}"
    if d is None or len(list(list(d.get_body())[0])) != 0: return "empty file does not read as an empty document"

@witness("C11", "rt-outside-ruby")
def _():
    try:
        _read("WEBVTT\n\n00:01.000 --> 00:02.000\n<rt>x</rt>\n")
    except Exception as e:
        return f"<rt> outside <ruby> raises {type(e).__name__}"
