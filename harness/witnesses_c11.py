"""Witnesses of the findings recorded for C11 (findings_proposed/C11.txt).  Each returns None when the property
holds on the witness and a string describing the failure otherwise.  Only `ruby-structure` is still recorded (its
witness fails and the check prints KNOWN-FINDING for it); every other witness belongs to a defect repaired in the
code (`fixed:` lines of findings_proposed/C11.txt) and must pass; so must the two at the end, whose repairs (unmatched end tags,
percentages beyond the float range) were made for C18 and changed the code the C11 model transcribes."""
import io
from fractions import Fraction
from witnesses import witness


def _read(txt):
    import ttconv.vtt.reader as r
    return r.to_model(io.StringIO(txt))

def _region(doc, i=0):
    import ttconv.style_properties as s
    r = list(doc.iter_regions())[i]
    o = r.get_style(s.StyleProperties.Origin); e = r.get_style(s.StyleProperties.Extent)
    return o.x.value, o.y.value, e.width.value, e.height.value

def _inside(x, y, w, h, eps=1e-9):
    return w >= -eps and h >= -eps and x >= -eps and y >= -eps and x + w <= 100 + eps and y + h <= 100 + eps

def _p(doc, i=0):
    return list(list(doc.get_body())[0])[i]

def _texts(e, bold=False, begin=Fraction(0)):
    """(text, bold, absolute begin) of every text node under e"""
    import ttconv.model as m, ttconv.style_properties as s
    out = []
    for c in e:
        if isinstance(c, m.Text): out.append((c.get_text(), bold, begin))
        elif not isinstance(c, m.Br):
            b = bold or c.get_style(s.StyleProperties.FontWeight) is s.FontWeightType.bold
            out += _texts(c, b, begin + (c.get_begin() or 0))
    return out


@witness("C11", "region-not-clamped")
def _():
    for st, want in (("size:100%", None), ("position:0%", None), ("position:10% size:50%", (0, 20)), ("position:100%,line-left size:30%", (100, 0)),
                     ("position:90%,line-right size:100%", (0, 90)), ("vertical:rl position:20% size:60%", None), ("position:bad size:100%", None)):
        g = _region(_read(f"WEBVTT\n\n00:01.000 --> 00:02.000 {st}\nx\n"))
        if not _inside(*g): return f"{st} -> region x,y,w,h = {g} leaves the root container"
        if want is not None and (abs(g[0] - want[0]) > 1e-9 or abs(g[2] - want[1]) > 1e-9):
            return f"{st} -> x,w = {g[0]},{g[2]}, WebVTT 7.2 (size limited by the position) gives {want}"

@witness("C11", "percentage-above-100")
def _():
    base = _region(_read("WEBVTT\n\n00:01.000 --> 00:02.000\nx\n"))
    for st in ("size:150%", "position:120%", "line:101%", "size:100.6%"):
        g = _region(_read(f"WEBVTT\n\n00:01.000 --> 00:02.000 {st}\nx\n"))
        if g != base: return f"{st} is not a WebVTT percentage and must be ignored: region {g}, default {base}"
    g = _region(_read("WEBVTT\n\n00:01.000 --> 00:02.000 position:50% size:100.4%\nx\n"))
    if abs(g[2] - 100) > 1e-9: return f"size:100.4% rounds to 100: width {g[2]}"

@witness("C11", "line-beyond-grid")
def _():
    for st in ("line:24", "line:-24", "line:99,center", "line:-99,end", "vertical:lr line:41", "vertical:rl line:-41,center", "line:99999999999999999999"):
        g = _region(_read(f"WEBVTT\n\n00:01.000 --> 00:02.000 {st}\nx\n"))
        if not _inside(*g): return f"{st} -> region x,y,w,h = {g}"

@witness("C11", "line-number-nonpositive")
def _():
    for st, y in (("line:-1", 100 - 100 / 23), ("line:0", 0), ("line:-23", 0), ("line:1", 100 / 23)):
        g = _region(_read(f"WEBVTT\n\n00:01.000 --> 00:02.000 {st}\nx\n"))
        if not _inside(*g): return f"{st} -> region x,y,w,h = {g}"
        if abs(g[1] - y) > 1e-9 or abs(g[1] + g[3] - 100) > 1e-9: return f"{st} -> y,h = {g[1]},{g[3]}, expected y = {y} down to the bottom edge"
    g = _region(_read("WEBVTT\n\n00:01.000 --> 00:02.000 vertical:lr line:-1\nx\n"))
    if not _inside(*g) or abs(g[0] - 97.5) > 1e-9: return f"vertical:lr line:-1 -> region x,y,w,h = {g}, expected x = 97.5"

@witness("C11", "vertical-line-center")
def _():
    g = _region(_read("WEBVTT\n\n00:01.000 --> 00:02.000 vertical:lr line:30%,center\nx\n"))
    if not _inside(*g): return f"vertical:lr line:30%,center -> region x,y,w,h = {g}"
    if abs(g[0]) > 1e-9 or abs(g[2] - 60) > 1e-9: return f"vertical:lr line:30%,center -> x,w = {g[0]},{g[2]}, expected 0,60 (centred on 30%)"

@witness("C11", "annotation-charref-alias")
def _():
    from ttconv.vtt.tokenizer import CueTextTokenizer, StartTagToken
    ts = list(CueTextTokenizer("<v Tom &amp; Jerry>hi"))
    if not (ts and isinstance(ts[0], StartTagToken) and ts[0].tag == "v" and ts[0].annotation == "Tom & Jerry"):
        return f"tokens of '<v Tom &amp; Jerry>hi': {[(type(t).__name__, t.__dict__) for t in ts]}"
    ts = list(CueTextTokenizer("<c.x.y a&lt;b &gt; c>"))
    if not (len(ts) == 1 and isinstance(ts[0], StartTagToken) and ts[0].tag == "c" and ts[0].classes == ["x", "y"] and ts[0].annotation == "a<b > c"):
        return f"tokens of '<c.x.y a&lt;b &gt; c>': {[(type(t).__name__, t.__dict__) for t in ts]}"
    d = _read("WEBVTT\n\n00:01.000 --> 00:02.000\n<v Tom &amp; Jerry>hello</v> you\n")
    got = [t for t, _, _ in _texts(_p(d))]
    if got != ["hello", " you"]: return f"texts {got}, expected ['hello', ' you']"

@witness("C11", "timestamp-span-nesting")
def _():
    d = _read("WEBVTT\n\n00:10.000 --> 00:20.000\n<00:12.000>a<00:15.000>b\n")
    p = _p(d); got = [(t, p.get_begin() + b) for t, _, b in _texts(p)]
    if got != [("a", Fraction(12)), ("b", Fraction(15))]: return f"absolute begins {got}, expected a@12 b@15"
    d = _read("WEBVTT\n\n00:10.000 --> 00:20.000\n<b>a<00:12.000>b</b>c\n")
    got = [(t, b) for t, b, _ in _texts(_p(d))]
    if got != [("a", True), ("b", True), ("c", False)]: return f"bold flags {got}"
    d = _read("WEBVTT\n\n00:10.000 --> 00:20.000\nx<00:12.000><ruby>a<rt>b</rt></ruby>\n")       # used to raise TypeError
    p = _p(d); got = [(t, p.get_begin() + b) for t, _, b in _texts(p)]
    if got[0] != ("x", Fraction(10)): return f"absolute begins {got}, expected x@10"

@witness("C11", "charref-legacy-names-only")
def _():
    d = _read("WEBVTT\n\n00:01.000 --> 00:02.000\na&lrm;b\n")
    t = "".join(x for x, _, _ in _texts(_p(d)))
    if t != "a‎b": return f"text {t!r}, expected 'a\\u200eb'"
    d = _read("WEBVTT\n\n00:01.000 --> 00:02.000\n&rlm;&apos;&nbsp;&amp;&lt;&gt;&zz;&#65;\n")
    t = "".join(x for x, _, _ in _texts(_p(d)))
    if t != "\u200f'\xa0&<>&zz;A": return f"text {t!r}, expected '\\u200f\\'\\xa0&<>&zz;A'"

@witness("C11", "ruby-structure")
def _():
    try:
        _read("WEBVTT\n\n00:01.000 --> 00:02.000\n<b><ruby>a<rt>b</rt></ruby></b>\n")
    except Exception as e:
        return f"<b><ruby>a<rt>b</rt></ruby></b> raises {type(e).__name__}"

# ---- repaired in /repo earlier (fixed: entries of KNOWN_FINDINGS.txt): these must PASS as well
@witness("C11", "cue-without-payload")
def _():
    cases = {"first cue": ("WEBVTT\n\n00:01.000 --> 00:02.000\n\n00:03.000 --> 00:04.000\nx\n", [(3, 4, "x")]),
             "at end of file": ("WEBVTT\n\n00:01.000 --> 00:02.000\nx\n\n00:03.000 --> 00:04.000\n", [(1, 2, "x")]),
             "after a cue (no stale text)": ("WEBVTT\n\n00:01.000 --> 00:02.000\n<b>first</b>\n\n00:03.000 --> 00:04.000 line:0\n\n00:05.000 --> 00:06.000\nthird\n",
                                             [(1, 2, "first"), (5, 6, "third")]),
             "only cue": ("WEBVTT\n\n00:01.000 --> 00:02.000\n\n", [])}
    for name, (txt, want) in cases.items():
        try:
            d = _read(txt)
        except Exception as e:
            return f"cue without payload ({name}) raises {type(e).__name__}"
        got = [(p.get_begin(), p.get_end(), "".join(t for t, _, _ in _texts(p))) for p in list(d.get_body())[0]]
        if got != [(Fraction(b), Fraction(e), t) for b, e, t in want]:
            return f"cue without payload ({name}): paragraphs {got}, expected {want}"

@witness("C11", "empty-file")
def _():
    try:
        d = _read("")
    except Exception as e:
        return f"empty file raises {type(e).__name__}"
    if d is None or len(list(list(d.get_body())[0])) != 0: return "empty file does not read as an empty document"

@witness("C11", "rt-outside-ruby")
def _():
    try:
        d = _read("WEBVTT\n\n00:01.000 --> 00:02.000\n<rt>x</rt>y<ruby>a<rt>b</rt></ruby><rt>z</rt>\n")
    except Exception as e:
        return f"<rt> outside <ruby> raises {type(e).__name__}"
    got = [t for t, _, _ in _texts(_p(d))]
    if got != ["x", "y", "a", "b", "z"]: return f"texts {got}, expected x y a b z"

# ---- repaired in /repo for C18 (2ddde69, 0892ca3); the reader model of C11 transcribes the repaired code: these must PASS
@witness("C11", "unmatched-end-tag")
def _():
    cases = {"a</b>c": [("a", False), ("c", False)], "a</b></b></b>c": [("a", False), ("c", False)],
             "<b>x</i>y</b>z</b>w": [("x", True), ("y", True), ("z", False), ("w", False)],
             "<b><i>x</b>y</i>z": [("x", True), ("y", True), ("z", True)],
             "<b>x</B>y": [("x", True), ("y", False)]}
    for txt, want in cases.items():
        try:
            d = _read(f"WEBVTT\n\n00:01.000 --> 00:02.000\n{txt}\n")
        except Exception as e:
            return f"{txt} raises {type(e).__name__}"
        got = [(t, b) for t, b, _ in _texts(_p(d))]
        if got != want: return f"{txt}: (text, bold) = {got}, expected {want}"
    d = _read("WEBVTT\n\n00:01.000 --> 00:02.000\n<ruby>a<rt>b</ruby>c\n")
    import ttconv.model as m
    ch = list(_p(d))
    if len(ch) != 2 or not isinstance(ch[0], m.Ruby) or not isinstance(ch[1], m.Span): return f"<ruby>a<rt>b</ruby>c: children {[type(c).__name__ for c in ch]}, expected Ruby, Span"

@witness("C11", "percentage-overflow")
def _():
    base = _region(_read("WEBVTT\n\n00:01.000 --> 00:02.000\nx\n"))
    for st in ("size:" + "9" * 400 + "%", "position:1" + "0" * 320 + "%", "line:" + "5" * 330 + ".5%,center"):
        try:
            g = _region(_read(f"WEBVTT\n\n00:01.000 --> 00:02.000 {st}\nx\n"))
        except Exception as e:
            return f"{st[:12]}… raises {type(e).__name__}"
        if g != base: return f"{st[:12]}… is not a WebVTT percentage and must be ignored: region {g}, default {base}"
